"""Verus back end: template + mechanically extracted function bodies -> one .rs file -> verus.

Template directives (lines starting with `//@`):

  //@prelude u128|u64                 emit the prelude instantiated at that width (first line)
  //@include <file under verus/>       textual include of a spec/lemma library
  //@unit <id>                        start of a function-under-contract unit; followed by
  //@ file <path in repo>
  //@ within <block header[ >> nested header]>     (optional)
  //@ fn <name>
  //@ sig <expected signature, where-clause dropped, whitespace-normalised>
  //@ sub <regex> => <replacement>    unit-specific body rewrite (logged)
  //@ loop <k>: <invariant/decreases clauses>  ghost clauses for the k-th loop of the body (`loopopt`: skipped when an optional rewrite did not create the loop)
  //@ before <unique substring> :: <ghost text>   ghost text inserted before that statement line
  //@ after <unique substring> :: <ghost text>
  //@ block <header> :: <tail>      the unit is one block statement of the function (free variables = the unit's parameters)
  //@ cut_after <marker> :: <text> | cut_from <marker> :: <text>   drop the rest of the body after the marker / from the marker's line on
  <Verus signature with requires/ensures, written from the property>
  //@body                             replaced by `{ <body extracted from /repo, rewritten> }`

Everything else is Verus text (spec functions, lemmas).
"""
import json
import os
import re
import subprocess
import time

from . import extract
from .extract import LostAnchor

VERIF = os.path.dirname(os.path.dirname(os.path.abspath(__file__)))

WIDTHS = {
    'u128': dict(UW='u128', IW='i128', UNITVAL='100000000000000000000', DEC=20),
    'u64': dict(UW='u64', IW='i64', UNITVAL='1000000000', DEC=9),
}

# The closed rewrite table (DESIGN 2.3). (rule id, regex, replacement, justification)
GLOBAL_REWRITES = [
    ('R5a', r'(?:crate|gmsol_model)::Error::(\w+)\(\s*"[^"]*"\s*,?\s*\)', r'E::\1', 'error payload dropped, variant kept'),
    ('R5f', r'(?:crate|gmsol_model)::Error::(\w+)\(\s*"[^"]*"\s*,\s*\w+\.to_string\(\)\s*,\s*\w+\.to_string\(\)\s*,?\s*\)', r'E::\1', 'error payload (message and two formatted values) dropped, variant kept'),
    ('R5e', r'crate::Error::(\w+)\(\s*crate::error::\w+\s*,?\s*\)', r'E::\1', 'error payload (message constant) dropped, variant kept'),
    ('R5h', r'(?:crate|gmsol_model)::Error::(InsufficientFundsToPayForCosts|Liquidatable)\(\s*\w+\s*\)', r'E::\1', 'error payload (a local value: the step / the reason) dropped, variant kept'),
    ('R5b', r'(?:crate|gmsol_model)::Error::(\w+)\b', r'E::\1', 'error variant'),
    ('R8a', r'\|_\|', r'|_e|', 'closure parameter must be a variable in Verus'),
    ('R8b', r'\.ok_or_else\(\s*\|\|\s*', r'.ok_or(', 'ok_or_else(|| e) == ok_or(e) for a pure error value'),
    ('R5g', r'\berr!\(\s*CoreError::(\w+)\s*\)', r'Err(E::Other)', 'anchor `err!(e)` is `Err(error!(e))` (anchor-lang 0.31.1); payload dropped'),
    ('R5c', r'error!\(\s*CoreError::(\w+)\s*\)', r'E::Other', 'anchor error value: payload dropped (no contract depends on the variant)'),
    ('R5d', r'\bCoreError::(\w+)\b', r'E::Other', 'anchor error value: payload dropped'),
    ('R1c', r'gmsol_model::utils::apply_factor::<_,\s*\{\s*constants::MARKET_DECIMALS\s*\}>', 'apply_factor_p', 'monomorphisation at the program instance (u128, 20); primitive-typed glue'),
    ('R1d', r'\bapply_factor::<_,\s*\{\s*constants::MARKET_DECIMALS\s*\}>', 'apply_factor_p', 'monomorphisation at the program instance (u128, 20)'),
    ('R4d', r'\bgmsol_store::constants::MARKET_USD_UNIT\b', 'MARKET_USD_UNIT', 'MARKET_USD_UNIT = 10^20 referenced from another program crate (checked against /repo constant each run)'),
    ('R4c', r'\bconstants::MARKET_USD_UNIT\b', 'MARKET_USD_UNIT', 'MARKET_USD_UNIT = 10^20 (checked against /repo constant each run)'),
    ('R2a', r'\bSelf::Signed\b', 'S', 'monomorphisation: signed counterpart'),
    ('R2b', r'\bT::Signed\b', 'S', 'monomorphisation: signed counterpart'),
    ('R4a', r'\bFixedPointOps::UNIT\b', 'N::UNIT', 'UNIT constant of the instance'),
    ('R4b', r'\bT::UNIT\b', 'N::UNIT', 'UNIT constant of the instance'),
    ('R1a', r'\bT::zero\(\)', 'N::zero()', 'monomorphisation'),
    ('R1e', r'\b(?:P|M|Self)::Num::(zero|one)\(\)', r'N::\1()', 'monomorphisation of the associated number type'),
    ('R1b', r'\bT::one\(\)', 'N::one()', 'monomorphisation'),
    ('R16c', r'(?m)^\s*#\[cfg\(feature = "debug-msg"\)\]\s*\n\s*let [^;]*;', '', 'statement compiled only with the debug-msg feature (used only by debug_msg! logs) dropped'),
    ('R7a', r'(?m)^\s*#\[(inline|allow\([^\]]*\)|must_use)\]\s*$', '', 'attribute dropped'),
    ('R12', r'\bfor _ in\b', 'for _it in', 'loop variable must be named'),
    ('R9', r'\bfor &(\w+) in (\w+)\.iter\(\)\.take\(([^{}]+?)\)\s*\{', r'for _i9 in 0..(if (\3) < \2.len() { \3 } else { \2.len() }) { let \1 = \2[_i9];',
     'Iterator::take on a slice/array iterator: `for &x in a.iter().take(n) {` visits a[0..min(n, a.len())] in order'),
    ('R14', r'(?m)^\s*use rust_decimal::[^;]*;\s*$', '', 'import used only by a cut (out-of-reach) branch'),
]

FAIL_PATTERNS = [
    'postcondition not satisfied', 'precondition not satisfied', 'assertion failed',
    'possible arithmetic underflow/overflow', 'possible division by zero',
    'invariant not satisfied', 'decreases not satisfied', 'loop invariant',
    'possible bit shift underflow/overflow', 'constructed value may fail to meet its declared type invariant',
    'unable to prove', 'unreachable', 'index out of bounds', 'possible truncation',
    'may be out of range', 'might be out of bounds', 'not satisfied',
]
UNDECIDED_PATTERNS = ['rlimit', 'Resource limit', 'timed out', 'z3 process']


class Undecided(Exception):
    pass


def instantiate_prelude(width):
    s = open(os.path.join(VERIF, 'verus', 'prelude.rs.in')).read()
    w = WIDTHS[width]
    s = s.replace('UNITVAL', w['UNITVAL'])
    s = re.sub(r'\bUW\b', w['UW'], s)
    s = re.sub(r'\bIW\b', w['IW'], s)
    return s


def _find_loops(body):
    """Return list of (index of '{' opening the loop body) for each loop in textual order."""
    res = []
    i = 0
    n = len(body)
    while i < n:
        j = extract._skip_trivia(body, i)
        if j is not None:
            i = j
            continue
        m = re.match(r'\b(for|while|loop)\b', body[i:i + 6])
        if m and (i == 0 or not (body[i - 1].isalnum() or body[i - 1] == '_')):
            pd = 0
            k = i + len(m.group(1))
            brace = None
            while k < n:
                j2 = extract._skip_trivia(body, k)
                if j2 is not None:
                    k = j2
                    continue
                ch = body[k]
                if ch in '([':
                    pd += 1
                elif ch in ')]':
                    pd -= 1
                elif ch == '{' and pd == 0:
                    brace = k
                    break
                k += 1
            if brace is not None:
                res.append(brace)
                i = brace + 1
                continue
        i += 1
    return res


REQUIRE_OPS = {'require_gte': '>=', 'require_gt': '>', 'require_eq': '==', 'require_neq': '!=',
               'require_keys_eq': '==', 'require_keys_neq': '!='}


def _split_top_commas(t):
    parts, depth, cur = [], 0, ''
    i = 0
    while i < len(t):
        j = extract._skip_trivia(t, i)
        if j is not None:
            cur += t[i:j]
            i = j
            continue
        c = t[i]
        if c in '([{':
            depth += 1
        elif c in ')]}':
            depth -= 1
        if c == ',' and depth == 0:
            parts.append(cur.strip())
            cur = ''
        else:
            cur += c
        i += 1
    if cur.strip():
        parts.append(cur.strip())
    return parts


def rewrite_require_macros(body, unit, log):
    """R6: anchor-lang 0.31.1 `require!(c, e)` == `if !(c) { return Err(e.into()) }`;
    `require_gte!(a, b, e)` errors when `a < b`; `require_gt!` when `a <= b`; `require_eq!` when `a != b`;
    `require_neq!` when `a == b`; `require_keys_eq!/neq!` likewise on Pubkeys."""
    pat = re.compile(r'\b(require|require_gte|require_gt|require_eq|require_neq|require_keys_eq|require_keys_neq)!\s*\(')
    out = ''
    i = 0
    n = 0
    while True:
        m = pat.search(body, i)
        if not m:
            out += body[i:]
            break
        out += body[i:m.start()]
        op = m.group(1)
        close = extract.match_brace(body, m.end() - 1, '(', ')')
        args = _split_top_commas(body[m.end():close])
        j = close + 1
        if j < len(body) and body[j] == ';':
            j += 1
        if op == 'require':
            cond, err = args[0], (args[1] if len(args) > 1 else 'E::Other')
        else:
            cond = f'({args[0]}) {REQUIRE_OPS[op]} ({args[1]})'
            err = args[2] if len(args) > 2 else 'E::Other'
        out += f'if !({cond}) {{ return Err({err}); }}'
        i = j
        n += 1
    if n:
        log.append(f'R6 x{n} in {unit["id"]} (anchor require*! macro expanded to if/return Err)')
    return out


def rewrite_debug_asserts(body, unit, log):
    """R7: `debug_assert!(c, "msg"...)` has no effect in release builds; it is turned into a Verus
    `assert(c)` so that a debug assertion that could fail is found. `debug_assert_eq!(a, b, ..)` likewise."""
    pat = re.compile(r'\b(debug_assert|debug_assert_eq)!\s*\(')
    out, i, n = '', 0, 0
    while True:
        m = pat.search(body, i)
        if not m:
            out += body[i:]
            break
        out += body[i:m.start()]
        close = extract.match_brace(body, m.end() - 1, '(', ')')
        args = _split_top_commas(body[m.end():close])
        j = close + 1
        if j < len(body) and body[j] == ';':
            j += 1
        if m.group(1) == 'debug_assert':
            out += f'assert({args[0]});'
        else:
            out += f'assert(({args[0]}) == ({args[1]}));'
        i = j
        n += 1
    if n:
        log.append(f'R7 x{n} in {unit["id"]} (debug_assert! -> Verus assert; message dropped)')
    return out


def rewrite_msg_macros(body, unit, log):
    """R16: `msg!(...)` (solana program log) has no effect on state or result: the statement is dropped.
    Its arguments are plain reads in every use the extractor meets (format arguments)."""
    pat = re.compile(r'(?:\bcrate::)?\b(?:debug_)?msg!\s*\(')
    out, i, n = '', 0, 0
    while True:
        m = pat.search(body, i)
        if not m:
            out += body[i:]
            break
        out += body[i:m.start()]
        close = extract.match_brace(body, m.end() - 1, '(', ')')
        j = close + 1
        if j < len(body) and body[j] == ';':
            j += 1
        i = j
        n += 1
    if n:
        log.append(f'R16 x{n} in {unit["id"]} (msg! log statement dropped)')
    return out


def rewrite_slice_closures(body, unit, log):
    """R17/R18 (only for units that declare `//@ closures <ElemType> <IndexType>`): Verus has no specification for
    `slice::Iter::position / rposition`, and an unannotated closure carries no specification. Mechanical rewrite:
      R17  `<path>.iter().position(|v| EXPR)`  ->  `slice_position(&<path>, |v: &Elem| -> (b: bool) ensures b == (EXPR) { EXPR })`
           (`rposition` -> `slice_rposition`); the helpers are ordinary loops over the vector, verified in the template;
           the closure keeps its body and gets that same body as its (Verus-checked) postcondition;
      R18  `.map(|v| EXPR)` on the resulting Option<Index> -> `.map(|v: Index| -> (o: Index) requires (EXPR) <= Index::MAX ensures o == (EXPR) { EXPR })`.
    EXPR must be brace-free. Trusted: Iterator::position / rposition on a slice iterator visit the elements front-to-back /
    back-to-front and return the index (from the front) of the first match."""
    elem, idx = unit['closures'][0], (unit['closures'][1] if len(unit['closures']) > 1 else 'usize')
    pat = re.compile(r'((?:\w+\s*\.\s*)*\w+)\s*\.\s*iter\(\)\s*\.\s*(r?position)\(')
    out, i, n = '', 0, 0
    while True:
        m = pat.search(body, i)
        if not m:
            out += body[i:]
            break
        close = extract.match_brace(body, m.end() - 1, '(', ')')
        inner = body[m.end():close].strip()
        mc = re.match(r'\|\s*(\w+)\s*\|\s*(.+)$', inner, re.S)
        if not mc or '{' in mc.group(2) or ';' in mc.group(2):
            raise Undecided(f"unit {unit['id']}: closure passed to {m.group(2)} is outside the R17 subset: {inner[:80]!r}")
        v, ex = mc.group(1), ' '.join(mc.group(2).split())
        recv = re.sub(r'\s+', '', m.group(1))
        out += body[i:m.start()] + f'slice_{m.group(2)}(&{recv}, |{v}: &{elem}| -> (b: bool) ensures b == ({ex}) {{ {ex} }})'
        i = close + 1
        n += 1
    if n:
        log.append(f"R17 x{n} in {unit['id']} (slice iter position/rposition -> verified loop helper; closure annotated with its own body)")
    body = out
    pat = re.compile(r'\.\s*map\(\s*\|\s*(\w+)\s*\|\s*([^(){}|;]+?)\s*\)')
    cnt = len(pat.findall(body))
    if cnt:
        body = pat.sub(lambda m: f'.map(|{m.group(1)}: {idx}| -> (o: {idx}) requires ({m.group(2)}) <= {idx}::MAX ensures o == ({m.group(2)}) {{ {m.group(2)} }})', body)
        log.append(f"R18 x{cnt} in {unit['id']} (Option::map closure annotated with its own body)")
    return body


def rewrite_for_array_literal(body, unit, log):
    """R21: Verus has no specification for `core::array::IntoIter`. `for PAT in [E1, .., En] {` visits the n elements in
    order, by value; it becomes
        `let _arr21 = [E1, .., En]; let mut _k21: usize = 0; while _k21 < n { let PAT = _arr21[_k21]; _k21 += 1;`
    (the increment comes before the body, so a `continue` in the body keeps its meaning). Loop clauses are inserted by the
    template (`//@ loop k:`) as for any other loop."""
    pat = re.compile(r'\bfor\s+')
    out, i, n = '', 0, 0
    while True:
        m = pat.search(body, i)
        if not m:
            out += body[i:]
            break
        # find ` in [` at depth 0 after the pattern
        j = m.end()
        depth = 0
        k = j
        found = None
        while k < len(body):
            c = body[k]
            if c in '([':
                depth += 1
            elif c in ')]':
                depth -= 1
            elif c == '{' and depth == 0:
                break
            elif depth == 0 and body.startswith(' in ', k):
                found = k
                break
            k += 1
        if found is None:
            out += body[i:m.end()]
            i = m.end()
            continue
        after = found + 4
        t = after
        while t < len(body) and body[t].isspace():
            t += 1
        if t >= len(body) or body[t] != '[':
            out += body[i:m.end()]
            i = m.end()
            continue
        close = extract.match_brace(body, t, '[', ']')
        u = close + 1
        while u < len(body) and body[u].isspace():
            u += 1
        if u >= len(body) or body[u] != '{':
            out += body[i:m.end()]
            i = m.end()
            continue
        elems = _split_top_commas(body[t + 1:close])
        patv = body[j:found].strip()
        out += body[i:m.start()] + f'let _arr21 = [{", ".join(elems)}]; let mut _k21: usize = 0; while _k21 < {len(elems)} {{ let {patv} = _arr21[_k21]; _k21 += 1;'
        i = u + 1
        n += 1
    if n:
        log.append(f"R21 x{n} in {unit['id']} (`for PAT in [array literal]` -> indexed while loop, increment before the body)")
    return out


def rewrite_closure0(body, unit, log):
    """R19 (only for units that declare `//@ closure0 <ReturnType>`): a zero-argument closure `|| EXPR` passed as the last
    argument of a call (EXPR free of parentheses, braces and semicolons: a place expression, possibly with `&` or `*`) is
    annotated with its return type and with its own body as its Verus-checked postcondition:
        `|| EXPR)`  ->  `|| -> (o: T) ensures o == (EXPR) { EXPR })`"""
    ty = unit['closure0']
    pat = re.compile(r'\|\|\s*([^(){};|]+?)\s*\)')
    cnt = len(pat.findall(body))
    if cnt:
        body = pat.sub(lambda m: f'|| -> (o: {ty}) ensures o == ({m.group(1)}) {{ {m.group(1)} }})', body)
        log.append(f"R19 x{cnt} in {unit['id']} (zero-argument closure annotated with its own body as postcondition)")
    return body


def _split_top(text, sep=','):
    """split at `sep` outside (), [], {}, <> is NOT tracked (closure bodies contain comparisons)"""
    out, depth, cur = [], 0, ''
    i = 0
    while i < len(text):
        c = text[i]
        if c == '|' and depth == 0 and cur.strip() == '':
            j = text.index('|', i + 1)      # closure parameter list
            cur += text[i:j + 1]
            i = j + 1
            continue
        if c in '([{':
            depth += 1
        elif c in ')]}':
            depth -= 1
        if c == sep and depth == 0:
            out.append(cur)
            cur = ''
        else:
            cur += c
        i += 1
    if cur.strip():
        out.append(cur)
    return out


def inline_helper_calls(body, unit, parts, repo, log):
    """R22: a call `self.<helper>(ARG.., |p1, .., pn| BODY, ARG..)?;` of a private helper that takes a closure LITERAL is
    inlined. The helper's body is extracted from /repo on every run (same file, `within` given by the directive); its
    value parameters are bound by `let`, the call of its closure parameter `(f)(a1, .., an)?` is replaced by the closure
    body with `let pi = ai;` in front (a closure parameter that receives `self` is renamed to `self`), its trailing `Ok(())`
    is dropped and a `return Err(..)` inside it returns from the caller - which is what `?` on the call did.
    Directive: //@ inline <helper> :: <within header> :: <closure parameter name>"""
    helper, within, fparam = parts
    item = extract.extract_fn(repo, unit['file'], within, helper)
    hsig = item.sig
    hbody = re.sub(r'//[^\n]*', '', item.body)
    # parameters of the helper
    pm = re.search(r'\((.*)\)\s*->', hsig, re.S)
    if not pm:
        raise Undecided(f"unit {unit['id']}: inline {helper}: cannot read its parameter list (lost anchor)")
    params = [x.strip() for x in _split_top(pm.group(1)) if x.strip()]
    names = []
    for prm in params:
        if re.match(r'&?\s*(mut\s+)?self$', prm):
            continue
        nm, _, ty = prm.partition(':')
        names.append((nm.strip(), ty.strip()))
    # the closure call inside the helper
    cm = re.search(r'\(' + re.escape(fparam) + r'\)\(', hbody)
    if not cm:
        raise Undecided(f"unit {unit['id']}: inline {helper}: no call `({fparam})(..)` in its body (lost anchor)")
    op = cm.end() - 1
    cl = extract.match_brace(hbody, op, '(', ')')
    cargs = [x.strip() for x in _split_top(hbody[op + 1:cl]) if x.strip()]
    after = hbody[cl + 1:]
    if not after.lstrip().startswith('?;'):
        raise Undecided(f"unit {unit['id']}: inline {helper}: the closure call is not of the form `({fparam})(..)?;` (lost anchor)")
    h_pre = hbody[:cm.start()]
    h_post = after.lstrip()[2:]
    if not re.search(r'Ok\(\(\)\)\s*$', h_post):
        raise Undecided(f"unit {unit['id']}: inline {helper}: does not end in Ok(()) (lost anchor)")
    h_post = re.sub(r'Ok\(\(\)\)\s*$', '', h_post)
    n = 0
    pat = re.compile(r'self\s*\.\s*' + re.escape(helper) + r'\s*\(')
    while True:
        m = pat.search(body)
        if not m:
            break
        op = m.end() - 1
        cl = extract.match_brace(body, op, '(', ')')
        tail = body[cl + 1:]
        if not tail.lstrip().startswith('?;'):
            raise Undecided(f"unit {unit['id']}: inline {helper}: call is not followed by `?;` (outside the rule)")
        args = [x.strip() for x in _split_top(re.sub(r'//[^\n]*', '', body[op + 1:cl])) if x.strip()]
        if len(args) != len(names):
            raise Undecided(f"unit {unit['id']}: inline {helper}: {len(args)} arguments for {len(names)} parameters")
        lets = ''
        closure = None
        for (nm, ty), a in zip(names, args):
            if nm == fparam:
                closure = a
            else:
                lets += f'let {nm} = {a}; '
        cm2 = re.match(r'\|([^|]*)\|\s*(.*)$', closure or '', re.S)
        if not cm2:
            raise Undecided(f"unit {unit['id']}: inline {helper}: the closure argument is not a closure literal (outside the rule)")
        cps = [x.strip() for x in cm2.group(1).split(',') if x.strip()]
        cbody = cm2.group(2).strip()
        if len(cps) != len(cargs):
            raise Undecided(f"unit {unit['id']}: inline {helper}: closure takes {len(cps)} parameters, the helper passes {len(cargs)}")
        binds = ''
        for cp, ca in zip(cps, cargs):
            if ca == 'self':
                if cp != '_':
                    cbody = re.sub(r'\b' + re.escape(cp) + r'\b', 'self', cbody)
            elif cp != '_':
                binds += f'let {cp} = {ca}; '
        rep = ('{ ' + lets + h_pre + ' let _r22: Result<(), E> = { ' + binds + cbody + ' }; _r22?; ' + h_post + ' }')
        end = cl + 1 + (len(tail) - len(tail.lstrip())) + 2
        body = body[:m.start()] + rep + body[end:]
        n += 1
    if n == 0:
        raise Undecided(f"unit {unit['id']}: inline {helper}: no call found (lost anchor)")
    log.append(f"R22 x{n} in {unit['id']}: call of `{helper}` with a closure literal inlined (helper body from {item.file}:{item.line}, hash {item.hash})")
    return body



def rewrite_body(body, unit, log):
    if re.search(r'\bfor\s+[^{;]*?\sin\s+\[', body):
        body = rewrite_for_array_literal(body, unit, log)
    if unit.get('closure0'):
        body = rewrite_closure0(body, unit, log)
    if unit.get('closures'):
        body = rewrite_slice_closures(body, unit, log)
    body = rewrite_require_macros(body, unit, log)
    body = rewrite_msg_macros(body, unit, log)
    if not unit.get('keep_debug_asserts'):
        body = rewrite_debug_asserts(body, unit, log)
    for rid, pat, rep, why in GLOBAL_REWRITES:
        cnt = len(re.findall(pat, body))
        if cnt:
            body = re.sub(pat, rep, body)
            log.append(f"{rid} x{cnt} in {unit['id']} ({why})")
    if unit.get('cut_after'):
        marker, rep = unit['cut_after']
        mre = r'\s*'.join(re.escape(tok) for tok in marker.split())
        ms = list(re.finditer(mre, body))
        if len(ms) != 1:
            raise Undecided(f"unit {unit['id']}: cut marker {marker!r} matches {len(ms)}x (lost anchor)")
        cut = ms[0].end()
        dropped = body[cut:]
        body = body[:cut] + '\n' + rep + '\n'
        log.append(f"CUT in {unit['id']}: {len(dropped.strip().splitlines())} lines after `{marker}` dropped, replaced by `{rep.strip()}`")
    if unit.get('cut_from'):
        # like cut_after, but the cut starts at the BEGINNING of the line that holds the (unique) marker: everything from
        # that statement to the end of the body is dropped and replaced
        marker, rep = unit['cut_from']
        mre = r'\s*'.join(re.escape(tok) for tok in marker.split())
        ms = list(re.finditer(mre, body))
        if len(ms) != 1:
            raise Undecided(f"unit {unit['id']}: cut marker {marker!r} matches {len(ms)}x (lost anchor)")
        cut = body.rfind('\n', 0, ms[0].start()) + 1
        dropped = body[cut:]
        body = body[:cut] + rep + '\n'
        log.append(f"CUT in {unit['id']}: {len(dropped.strip().splitlines())} lines from `{marker}` on dropped, replaced by `{rep.strip()}`")
    for sub in unit.get('subs', []):
        pat, rep, optional = (sub + (False,))[:3]
        cnt = len(re.findall(pat, body))
        if cnt == 0:
            if optional:   # a type-bridging rewrite that has nothing to rewrite on this tree: not an anchor
                continue
            raise Undecided(f"unit {unit['id']}: unit rewrite {pat!r} no longer matches (lost anchor)")
        body = re.sub(pat, rep, body)
        log.append(f"unit-sub x{cnt} in {unit['id']}: {pat} => {rep}")
    # loop ghost clauses (insert from the last loop backwards so indices stay valid)
    if unit.get('loops'):
        braces = _find_loops(body)
        for k in sorted(unit['loops'], reverse=True):
            if k < 1 or k > len(braces):
                if k in unit.get('loops_optional', ()):
                    # the loop was introduced by an optional unit rewrite (`subopt`) that found nothing to rewrite on this tree:
                    # its clauses have nowhere to go; the unit is verified as it stands (and fails if the contract needed the loop)
                    log.append(f"LOOP-CLAUSES-SKIPPED in {unit['id']}: loop #{k} not present")
                    continue
                raise Undecided(f"unit {unit['id']}: loop #{k} not found ({len(braces)} loops) (lost anchor)")
            b = braces[k - 1]
            body = body[:b] + '\n' + unit['loops'][k] + '\n' + body[b:]
        if len(braces) != unit.get('nloops', len(braces)):
            raise Undecided(f"unit {unit['id']}: loop count changed")
    for where, sub, text in unit.get('inserts', []):
        # every line of inserted ghost text carries the marker `//@ghost` (see classify: a failing assert or lemma
        # precondition inside a proof hint is a failed PROOF STEP, not a failed obligation of the repository code)
        text = '\n'.join(l + ' //@ghost' for l in text.split('\n'))
        if where == 'top':
            body = '\n' + text + '\n' + body
            continue
        if where == 'bottom':   # only for functions returning (): appended after the last statement
            body = body.rstrip() + '\n' + text + '\n'
            continue
        idxs = [m.start() for m in re.finditer(re.escape(sub), body)]
        if len(idxs) != 1:
            # A proof hint lost its anchor: verification goes on without it; a failure of this unit
            # is then only reported as a violation if the replay search confirms it on the real code.
            unit.setdefault('ghost_lost', []).append(sub)
            log.append(f"GHOST-ANCHOR-LOST in {unit['id']}: {sub!r} matches {len(idxs)}x; hint skipped")
            continue
        i = idxs[0]
        if where == 'before':
            ls = body.rfind('\n', 0, i) + 1
            body = body[:ls] + text + '\n' + body[ls:]
        else:
            # after: end of the statement = next ';' at depth 0 then end of line
            depth, j = 0, i
            while j < len(body):
                ch = body[j]
                if ch in '([{':
                    depth += 1
                elif ch in ')]}':
                    depth -= 1
                elif ch == ';' and depth <= 0:
                    break
                j += 1
            le = body.find('\n', j)
            le = len(body) if le < 0 else le
            body = body[:le] + '\n' + text + body[le:]
    return body


def parse_template(path):
    lines = open(path).read().split('\n')
    out = []
    return _parse_lines(lines, path, out)


def _parse_lines(lines, path, out):  # list of ('text', str) | ('prelude', width) | ('unit', dict) | ('include', path)
    i = 0
    while i < len(lines):
        ln = lines[i]
        st = ln.strip()
        if st.startswith('//@prelude'):
            out.append(('prelude', st.split()[1]))
        elif st.startswith('//@include'):
            ip = os.path.join(VERIF, 'verus', st.split()[1])
            inc = open(ip).read().split('\n')
            if os.path.basename(ip)[:1] == 'C':
                # a whole check template included by another one: regions marked `//@own-begin` .. `//@own-end` stay with the
                # template they are written in (known-finding obligations must be reported once, under one id)
                kept, skipping = [], False
                for l in inc:
                    if l.strip() == '//@own-begin':
                        skipping = True
                    elif l.strip() == '//@own-end':
                        skipping = False
                    elif not skipping:
                        kept.append(l)
                inc = kept
            _parse_lines(inc, ip, out)
        elif st in ('//@own-begin', '//@own-end'):
            pass
        elif st.startswith('//@struct'):
            f, hdr, fields = [x.strip() for x in st[len('//@struct'):].split('::')]
            out.append(('struct', (f, hdr, [x.strip() for x in fields.split(',') if x.strip()])))
        elif st.startswith('//@const'):
            f, nm, exp = [x.strip() for x in st[len('//@const'):].split('::', 2)]
            out.append(('const', (f, nm, exp)))
        elif st.startswith('//@unit'):
            u = dict(id=st.split()[1], subs=[], loops={}, inserts=[], within='', header=[])
            i += 1
            while i < len(lines) and lines[i].strip().startswith('//@ '):
                d = lines[i].strip()[4:]
                key, _, val = d.partition(' ')
                val = val.strip()
                if key in ('file', 'within', 'fn', 'sig'):
                    u[key] = val
                elif key in ('sub', 'subopt'):
                    if val.endswith(' =>'):
                        val += ' '
                    a, _, b = val.partition(' => ')
                    u['subs'].append((a, b, key == 'subopt'))
                elif key in ('loop', 'loopopt'):
                    k, _, t = val.partition(':')
                    u['loops'][int(k)] = u['loops'].get(int(k), '') + t.strip() + '\n'
                    if key == 'loopopt':
                        u.setdefault('loops_optional', set()).add(int(k))
                elif key in ('before', 'after'):
                    a, _, b = val.partition(' :: ')
                    u['inserts'].append((key, a, b))
                elif key == 'top':
                    u['inserts'].append(('top', '', val[2:].strip() if val.startswith('::') else val))
                elif key == 'bottom':
                    u['inserts'].append(('bottom', '', val[2:].strip() if val.startswith('::') else val))
                elif key == 'cut_after':
                    a, _, b = val.partition(' :: ')
                    u['cut_after'] = (a, b)
                elif key == 'block':
                    a, _, b = val.partition(' :: ')
                    u['block'] = (a, b)
                elif key == 'cut_from':
                    a, _, b = val.partition(' :: ')
                    u['cut_from'] = (a, b)
                elif key == 'closures':
                    u['closures'] = val.split()
                elif key == 'closure0':
                    u['closure0'] = val.strip()
                elif key == 'inline':
                    parts = [x.strip() for x in val.split('::')]
                    u.setdefault('inline', []).append(parts)
                elif key == 'noreplay' or key == 'replay':
                    u[key] = val
                else:
                    raise Undecided(f"{path}: unknown directive {key}")
                i += 1
            while i < len(lines) and lines[i].strip() != '//@body':
                if lines[i].strip().startswith('//@'):
                    raise Undecided(f"{path}: directive inside the contract header of unit {u['id']}: {lines[i].strip()}")
                u['header'].append(lines[i])
                i += 1
            if i >= len(lines):
                raise Undecided(f"{path}: unit {u['id']} without //@body")
            out.append(('unit', u))
        else:
            out.append(('text', ln))
        i += 1
    return out


ITEM_RE = re.compile(r'^\s*(?:pub(?:\([^)]*\))?\s+)?(?:open\s+|closed\s+)?(?:broadcast\s+)?(proof|spec|exec)?\s*fn\s+(\w+)')


def generate(template_path, repo, out_path):
    """Returns meta dict: units, items (line ranges), rewrite log. The text as written is tried first; if an anchor is lost
    the extraction is retried once on the canonical layout of the sources (extract.read_src): a re-formatted tree is decided."""
    try:
        extract.CANON = False
        return _generate(template_path, repo, out_path)
    except (Undecided, extract.LostAnchor) as first:
        if not extract.rustfmt_available():
            raise
        extract.CANON = True
        try:
            meta = _generate(template_path, repo, out_path)
        except (Undecided, extract.LostAnchor):
            raise first
        finally:
            extract.CANON = False
        meta['log'].insert(0, f"CANONICAL LAYOUT: an anchor was lost on the text as written ({str(first)[:200]}); every source file was passed through `rustfmt --edition 2021` (default configuration: layout only) before extraction, and all anchors were found on that text")
        return meta


def _generate(template_path, repo, out_path):
    parts = parse_template(template_path)
    out_lines = []
    units = []
    log = []
    unit_ranges = []

    def emit(text):
        for l in text.split('\n'):
            out_lines.append(l)

    width = None

    def wsub(t):
        if width is None:
            return t
        w = WIDTHS[width]
        t = re.sub(r'\bUW\b', w['UW'], t)
        t = re.sub(r'\bIW\b', w['IW'], t)
        t = t.replace('UNITVAL', w['UNITVAL'])
        return t.replace('.W.', '.%s.' % width)

    for kind, val in parts:
        if kind == 'prelude':
            width = val
            emit(instantiate_prelude(val))
        elif kind == 'text':
            out_lines.append(wsub(val))
        elif kind == 'const':
            f, nm, exp = val
            ty, expr = extract.extract_const(repo, f, nm)
            if extract.norm(f'{ty} = {expr}') != extract.norm(exp):
                raise Undecided(f"constant drift (lost anchor): {nm} in {f} is `{ty} = {expr}`, contract written for `{exp}`")
            log.append(f"R4 constant checked: {nm}: {ty} = {expr}")
        elif kind == 'struct':
            f, hdr, fields = val
            blk = extract.extract_block_text(repo, f, hdr)
            inner = blk[blk.index('{') + 1: blk.rindex('}')]
            inner = re.sub(r'//[^\n]*', '', inner)
            inner = re.sub(r'#\[[^\]]*\]', '', inner)
            got = re.findall(r'(?:pub(?:\([^)]*\))?\s+)?(\w+)\s*:(?!:)', inner)
            if got != fields:
                raise Undecided(f"data carrier drift (lost anchor): {hdr} in {f} has fields {got}, carrier written for {fields}")
            log.append(f"R11 carrier checked: {hdr} fields {fields}")
        else:
            u = dict(val)
            u['id'] = wsub(u['id'])
            u['header'] = [wsub(h) for h in u['header']]
            u['within'] = wsub(u['within'])
            item = extract.extract_fn(repo, u['file'], u['within'], u['fn'])
            if extract.norm(u['sig']) != item.sig_norm():
                raise Undecided(f"unit {u['id']}: signature drift (lost anchor): repo has `{item.sig_norm()}`, contract written for `{extract.norm(u['sig'])}`")
            # full-line comments of the extracted body are dropped (replaced by empty lines) before any anchor or rewrite is
            # matched: a comment added between two statements must not lose an anchor. Trailing comments after code stay.
            ibody = '\n'.join('' if l.lstrip().startswith('//') else l for l in item.body.split('\n'))
            if u.get('block'):
                # `//@ block <header> :: <tail>`: the unit is ONE block statement of the function (the unique statement whose header
                # line is <header>, with its balanced `{ .. }`), followed by <tail>; everything else of the function is dropped.
                # The unit's signature declares the block's free variables as parameters: the contract is about the block for
                # ARBITRARY values of them.
                hdr, tail = u['block']
                hre = r'\s*'.join(re.escape(tok) for tok in hdr.split())
                ms = list(re.finditer(hre, ibody))
                if len(ms) != 1:
                    raise Undecided(f"unit {u['id']}: block header {hdr!r} matches {len(ms)}x (lost anchor)")
                ob = ibody.find('{', ms[0].end() - 1)
                if ob < 0:
                    raise Undecided(f"unit {u['id']}: block header {hdr!r} has no block (lost anchor)")
                cb = extract.match_brace(ibody, ob, '{', '}')
                dropped = len(ibody.strip().splitlines()) - len(ibody[ms[0].start():cb + 1].strip().splitlines())
                ibody = '\n' + ibody[ms[0].start():cb + 1] + '\n' + tail + '\n'
                log.append(f"BLOCK in {u['id']}: only the statement `{hdr} {{ .. }}` of {u['fn']} is kept ({dropped} other lines of the function dropped), followed by `{tail.strip()}`")
            for parts in u.get('inline', []):
                ibody = inline_helper_calls(ibody, u, parts, repo, log)
            body = rewrite_body(ibody, u, log)
            start = len(out_lines) + 1
            # every unit is verified by its own solver instance: its verdict does not depend on what other functions of the
            # file look like (an unrelated edit elsewhere must not flip a proof)
            out_lines.append('#[verifier::spinoff_prover]')
            for h in u['header']:
                out_lines.append(h)
            out_lines.append('{ // <<< body extracted from %s:%d (%s) hash %s' % (item.file, item.line, item.name, item.hash))
            emit(body)
            out_lines.append('} // >>> end of extracted body')
            end = len(out_lines)
            unit_ranges.append((start, end, u['id']))
            units.append(dict(id=u['id'], file=item.file, line=item.line, fn=item.name, within=item.within,
                              hash=item.hash, header='\n'.join(u['header']).strip(), engine='verus'))
    text = '\n'.join(out_lines) + '\nfn main() {}\n'
    os.makedirs(os.path.dirname(out_path), exist_ok=True)
    open(out_path, 'w').write(text)
    # item table: every fn item (for mapping errors to obligations)
    items = []
    for ln_no, l in enumerate(text.split('\n'), 1):
        m = ITEM_RE.match(l)
        if m:
            items.append((ln_no, m.group(2), m.group(1) or 'exec'))
    return dict(units=units, unit_ranges=unit_ranges, items=items, log=log, path=out_path, text=text)


def scan_trust(text):
    """Mechanical scan for unchecked assumptions in generated text."""
    found = []
    for pat in ('external_body', 'assume_specification', 'admit()', 'assume(', 'external_fn_specification',
                'external_type_specification', '#[verifier::external]', 'axiom'):
        for m in re.finditer(re.escape(pat), text):
            ls = text.rfind('\n', 0, m.start()) + 1
            le = text.find('\n', m.start())
            line = text[ls:le].strip()
            if line.startswith('//'):
                continue
            # next fn/struct name for context
            nm = re.search(r'(fn|struct|\[)\s*([\w:<> ]+)', text[m.start():m.start() + 300])
            found.append(f"{pat}: {nm.group(0).strip() if nm else line[:80]}")
    return sorted(set(found))


def run_verus(path, timeout=600, extra=()):
    cmd = ['verus', path, '--output-json', '--time', '--error-format=json', '--num-threads', '8', *extra]
    t0 = time.time()
    try:
        p = subprocess.run(cmd, capture_output=True, text=True, timeout=timeout, cwd=os.path.dirname(path))
    except subprocess.TimeoutExpired:
        raise Undecided(f"verus timed out after {timeout}s on {path}")
    wall = time.time() - t0
    try:
        js = json.loads(p.stdout)
    except Exception:
        js = {}
    diags = []
    for l in p.stderr.split('\n'):
        l = l.strip()
        if l.startswith('{'):
            try:
                d = json.loads(l)
                diags.append(d)
            except Exception:
                pass
    return dict(cmd=' '.join(cmd), rc=p.returncode, json=js, diags=diags, stderr=p.stderr, wall=wall)


def classify(res, meta):
    """Map diagnostics to (failed obligations, undecided reasons)."""
    failed = {}   # obligation id -> list of rendered messages
    undecided = []
    items = meta['items']
    uranges = meta['unit_ranges']

    def item_at(line):
        for s, e, uid in uranges:
            if s <= line <= e:
                return uid
        name = None
        for ln, nm, kind in items:
            if ln <= line:
                name = nm
            else:
                break
        return name

    for d in res['diags']:
        if d.get('level') != 'error':
            continue
        msg = d.get('message', '')
        if msg.startswith('aborting due to'):
            continue
        rendered = d.get('rendered', msg)
        if any(p in msg for p in UNDECIDED_PATTERNS):
            undecided.append(rendered)
            continue
        if any(p in msg for p in FAIL_PATTERNS):
            spans = d.get('spans', [])
            pick = None
            if msg.startswith('precondition'):
                for sp in spans:
                    if 'failed' not in (sp.get('label') or ''):
                        pick = sp
            if pick is None:
                for sp in spans:
                    if sp.get('is_primary'):
                        pick = sp
            if pick is None and spans:
                pick = spans[0]
            ob = None
            for sp in spans:   # a span inside an extracted unit wins (trait-declared contracts report the trait line as primary)
                for s0, e0, uid in uranges:
                    if s0 <= sp['line_start'] <= e0:
                        ob = uid
            if ob is None:
                ob = item_at(pick['line_start']) if pick else None
            if ob is None:
                undecided.append(rendered)
            else:
                # hint failure: `assert` / lemma precondition whose reported location is a line of inserted ghost text
                gl = meta.get('lines') or meta['text'].split('\n')
                meta['lines'] = gl
                is_hint = False
                if (msg.startswith('assertion failed') or msg.startswith('precondition not satisfied')) and pick is not None:
                    ln = pick['line_start']
                    is_hint = 0 < ln <= len(gl) and '//@ghost' in gl[ln - 1]
                failed.setdefault(ob, []).append(('[proof-hint step] ' if is_hint else '') + rendered)
            continue
        undecided.append(rendered)
    vr = res['json'].get('verification-results', {})
    if res['rc'] != 0 and not failed and not undecided:
        undecided.append('verus exited %d without classified diagnostics:\n%s' % (res['rc'], res['stderr'][-2000:]))
    return failed, undecided, vr
