"""Replay of failed obligations against the real code (DESIGN 2.7).

Verus gives no model, so a failed Verus obligation is replayed by a *search*: boundary lattice x
seeded random inputs are run through the REAL function (native binary /verif/replay, built from
the current repo tree, no stubs) and compared with an oracle written in Python (arbitrary
precision) from the property statement. Kani failures are replayed the same way where an oracle
is registered, using the values of the CBMC trace where available.
"""
import os
import random
import shutil
import subprocess

VERIF = os.path.dirname(os.path.dirname(os.path.abspath(__file__)))
BUILD = os.path.join(VERIF, '.build')

_bin_cache = {}


def build_native(repo):
    if repo in _bin_cache:
        return _bin_cache[repo]
    d = os.path.join(BUILD, 'replay')
    os.makedirs(d, exist_ok=True)
    t = open(os.path.join(VERIF, 'replay', 'Cargo.toml.in')).read().replace('@REPO@', repo).replace('@VERIF@', VERIF)
    p = os.path.join(d, 'Cargo.toml')
    if not os.path.exists(p) or open(p).read() != t:
        open(p, 'w').write(t)
    if not os.path.exists(os.path.join(d, 'Cargo.lock')):
        shutil.copy(os.path.join(repo, 'Cargo.lock'), os.path.join(d, 'Cargo.lock'))
    # the SDK's fixed-point <-> Decimal conversions (crates/sdk/src/utils/fixed.rs) are spliced in as TEXT: everything above the
    # test module, verbatim, with the two crate-local names they use bound by a shim (MARKET_DECIMALS read from /repo, crate::Error)
    gen = os.path.join(d, 'gen')
    os.makedirs(gen, exist_ok=True)
    try:
        src = open(os.path.join(repo, 'crates/sdk/src/utils/fixed.rs')).read().split('#[cfg(test)]')[0]
        src = src.replace('use crate::constants::MARKET_DECIMALS;', 'use super::sdk_shim::MARKET_DECIMALS;').replace('crate::Result<', 'super::sdk_shim::Result<').replace('crate::Error::custom', 'super::sdk_shim::Error::custom')
    except OSError:
        src = ''
    gp = os.path.join(gen, 'sdk_fixed.rs')
    if not os.path.exists(gp) or open(gp).read() != src:
        open(gp, 'w').write(src)
    env = dict(os.environ, CARGO_NET_OFFLINE='true', CARGO_TARGET_DIR=os.path.join(BUILD, 'replay-target'))
    r = subprocess.run(['cargo', 'build', '--release', '--offline', '-q'], cwd=d, env=env, capture_output=True, text=True, timeout=1800)
    if r.returncode != 0:
        raise RuntimeError('native replay build failed: ' + r.stderr[-1500:])
    b = os.path.join(BUILD, 'replay-target', 'release', 'verif-replay')
    _bin_cache[repo] = b
    return b


def call_native(repo, lines):
    b = build_native(repo)
    r = subprocess.run([b], input='\n'.join(lines) + '\n', capture_output=True, text=True, timeout=600)
    return r.stdout.strip().split('\n')


def lattice(umax, unit):
    vals = {0, 1, 2, 3, unit - 1, unit, unit + 1, 2 * unit, umax, umax - 1, umax // 2, umax // 2 + 1, umax // 2 - 1,
            10, 100, 7, unit // 3, unit * 3 // 2, unit // 100}
    k = 1
    while k <= umax:
        vals.add(k)
        k *= 10
    for sh in (31, 32, 63, 64, 95, 96, 127):
        if (1 << sh) <= umax:
            vals.update({(1 << sh) - 1, 1 << sh, (1 << sh) + 1})
    return sorted(v for v in vals if 0 <= v <= umax)


def gen_inputs(kinds, umax, imax, unit, seed, budget=4000):
    """kinds: list of 'u' | 's' | 'b' | 'e' (exponent: small multiple of unit). Yields tuples."""
    rng = random.Random(seed)
    lat = lattice(umax, unit)
    slat = sorted({v for v in lat if v <= imax} | {-v for v in lat if v <= imax + 1})

    def pick(k, boundary):
        if k == 'u':
            if boundary:
                return rng.choice(lat)
            bits = rng.randint(0, umax.bit_length())
            return rng.getrandbits(bits) if bits else 0
        if k == 's':
            if boundary:
                return rng.choice(slat)
            bits = rng.randint(0, imax.bit_length())
            v = rng.getrandbits(bits) if bits else 0
            return -v if rng.random() < 0.5 else v
        if k == 'b':
            return rng.random() < 0.5
        if k == 'e':
            return rng.choice([0, 1, 2, 3, 4]) * unit
        raise ValueError(k)

    # small exhaustive corner product first
    small = {'u': [0, 1, 2, 3, unit, umax], 's': [0, 1, -1, 2, -2, imax, -imax - 1, -imax], 'b': [False, True], 'e': [0, unit, 2 * unit]}
    import itertools
    n = 0
    for t in itertools.product(*[small[k] for k in kinds]):
        yield t
        n += 1
        if n > budget // 2:
            break
    while n < budget:
        yield tuple(pick(k, rng.random() < 0.6) for k in kinds)
        n += 1


def fmt(v):
    if isinstance(v, bool):
        return 'true' if v else 'false'
    return str(v)


def search(repo, fn_name, kinds, oracle, umax, imax, unit, seed, budget=4000):
    """oracle(*args) -> expected output string, or None when the contract leaves the case open."""
    inputs = list(gen_inputs(kinds, umax, imax, unit, seed, budget))
    lines = [fn_name + ' ' + ' '.join(fmt(a) for a in t) for t in inputs]
    outs = call_native(repo, lines)
    tried = 0
    for t, got in zip(inputs, outs):
        want = oracle(*t)
        if want is None:
            continue
        tried += 1
        if got != want:
            return dict(failing_input=dict(function=fn_name, args=[fmt(a) for a in t], observed=got, expected=want),
                        note=f'found after {tried} native executions of the real function')
    return dict(failing_input=None, note=f'{tried} native executions of the real function (boundary lattice x random, seed {seed}) agreed with the oracle')


def replay(pid, ob, repo, seed, contract):
    """Return dict(failing_input=... or None, note=...)."""
    fn = getattr(contract, 'replay', None)
    if fn is not None:
        try:
            r = fn(ob, repo, seed)
            if r is not None:
                r.setdefault('searched', 'not possible' not in (r.get('note') or ''))
                return r
        except Exception as e:  # replay must never mask the violation
            return dict(failing_input=None, note=f'replay harness error: {e}')
    if ob.get('engine') == 'kani':
        from . import kani as K
        cx = K.counterexample(ob, repo)
        if cx:
            return dict(failing_input=dict(harness=ob['harness'], concrete_values=cx['values'][:200], n_values=len(cx['values'])),
                        note=cx['how'] + '; failed checks: ' + '; '.join(c['description'] for c in ob.get('failed_checks', [])[:6]))
        return dict(failing_input=None, note='Kani produced no concrete playback for this failure')
    return dict(failing_input=None, note='no replay harness registered for this obligation; the verifier gives no model')
