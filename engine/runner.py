"""Property check driver: runs the Verus and Kani units of a property, classifies outcomes,
replays failures, writes evidence, prints VIOLATION / KNOWN-FINDING lines.

Exit codes: 0 = every obligation discharged (known findings allowed); 1 = violation;
2 = undecided (lost anchor, unsupported construct, resource limit, vacuity guard) -- never an alarm.
"""
import importlib.util
import json
import os
import re
import sys
import time
import traceback
from concurrent.futures import ThreadPoolExecutor

from . import verus as V
from . import kani as K
from . import replay as R
from .extract import LostAnchor

VERIF = os.path.dirname(os.path.dirname(os.path.abspath(__file__)))


def load_contract(pid):
    path = os.path.join(VERIF, 'contracts', f'{pid}.py')
    spec = importlib.util.spec_from_file_location(f'contract_{pid}', path)
    mod = importlib.util.module_from_spec(spec)
    spec.loader.exec_module(mod)
    return mod


def load_known_findings():
    res = []
    p = os.path.join(VERIF, 'known_findings.txt')
    if os.path.exists(p):
        for l in open(p):
            l = l.strip()
            if l.startswith('finding:'):
                m = re.match(r'finding:\s+property=(\S+)\s+obligation=(\S+)\s+(.*)', l)
                if m:
                    res.append(dict(property=m.group(1), obligation=m.group(2), what=m.group(3)))
    return res


FN_RE = re.compile(r'(?m)^[ \t]*(?:pub(?:\([^)]*\))?\s+)?(?:broadcast\s+)?(?:proof\s+|exec\s+)?fn\s+(\w+)\s*(<[^>{(]*>)?\s*\(')
BODY_BRACE_RE = re.compile(r'(?m)^[ \t]*\{')


def make_canary_file(meta, path):
    """Vacuity guard. For every fn item (exec or proof) that has a `requires`, append -- right
    after the item, in the same scope -- `proof fn canary_k(<same params>) requires <same> ensures
    false {}`. Verus must REJECT every canary (the precondition is satisfiable). Style rule of
    the templates: the body brace of an item that has a `requires` starts a line."""
    from .extract import match_brace
    text = meta['text']
    inserts = []
    names = []
    for m in FN_RE.finditer(text):
        name = m.group(1)
        i = m.end() - 1
        try:
            j = match_brace(text, i, '(', ')')
        except Exception:
            continue
        params = text[i + 1:j]
        mb = BODY_BRACE_RE.search(text, j)
        nxt = FN_RE.search(text, j)
        if not mb or (nxt and nxt.start() < mb.start()):
            continue
        b = text.find('{', mb.start())
        header = text[j + 1:b]
        mr = re.search(r'\brequires\b(.*?)(?=\bensures\b|\bdecreases\b|\Z)', header, re.S)
        if not mr:
            continue
        req = mr.group(1).strip().rstrip(',')
        # skipped: `&mut` parameters (old()/final() cannot be copied into a proof fn) and generic / lifetime-parameterised
        # functions (their preconditions are about closures: `f.requires(())`)
        if not req or re.search(r"&\s*('\w+\s+)?mut\b", params) or m.group(2) or "'" in params:
            continue
        try:
            e = match_brace(text, b)
        except Exception:
            continue
        cname = f'canary_{len(names)}_{name}'
        names.append((cname, name))
        inserts.append((e + 1, f'\nproof fn {cname}({params})\n    requires {req}\n    ensures false\n{{}}\n'))
    for pos, t in sorted(inserts, reverse=True):
        text = text[:pos] + t + text[pos:]
    open(path, 'w').write(text)
    return names


class Result:
    def __init__(self):
        self.obligations = []      # dicts: id, engine, status(discharged|failed|undecided|bounded-ok|bounded-failed), detail, time
        self.functions = []
        self.trusted = set()
        self.rewrites = []
        self.cmds = []
        self.undecided = []
        self.solver_time = {}
        self.bounded = []
        self.samples = []


def run_verus_template(tpl, repo, res, pid, tier):
    name = os.path.splitext(os.path.basename(tpl))[0]
    out = os.path.join(VERIF, '.build', 'verus', f'{name}_gen.rs')
    meta = V.generate(os.path.join(VERIF, tpl), repo, out)
    res.rewrites += meta['log']
    res.functions += meta['units']
    for t in V.scan_trust(meta['text']):
        res.trusted.add(f'[{name}] {t}')
    r = V.run_verus(out)
    res.cmds.append(r['cmd'])
    failed, undecided, vr = V.classify(r, meta)
    res.solver_time[name] = round(r['wall'], 2)
    # obligations = every fn item that Verus verified or failed (proof/exec fns); spec fns are not obligations
    item_names = [(ln, nm, kind) for ln, nm, kind in meta['items'] if kind != 'spec']
    unit_by_range = meta['unit_ranges']
    unit_ids = {uid for _, _, uid in unit_by_range}
    ob_ids = []
    for ln, nm, kind in item_names:
        uid = None
        for s, e, u in unit_by_range:
            if s <= ln <= e:
                uid = u
        ob_ids.append(uid or f'{name}::{nm}')
    # de-dup, keep order
    seen = set()
    ob_ids = [x for x in ob_ids if not (x in seen or seen.add(x))]
    nverified = vr.get('verified', 0)
    if undecided:
        for u in undecided:
            res.undecided.append(f'[{name}] {u.strip()[:1500]}')
    lost = {u['id']: u for k, u in V.parse_template(os.path.join(VERIF, tpl)) if k == 'unit'}
    for ob in ob_ids:
        if ob in failed:
            res.obligations.append(dict(id=ob, engine='verus', status='failed', detail='\n'.join(failed[ob])[:4000], file=out, template=tpl))
        else:
            res.obligations.append(dict(id=ob, engine='verus', status='undecided' if undecided else 'discharged', file=out, template=tpl))
    for ob in failed:
        if ob not in ob_ids:
            res.obligations.append(dict(id=f'{name}::{ob}' if '::' not in ob and not ob.startswith(pid) else ob, engine='verus', status='failed', detail='\n'.join(failed[ob])[:4000], file=out, template=tpl))
    # vacuity guard: canaries must be rejected (failures that are listed known findings do not switch it off)
    known_ids = {k['obligation'] for k in load_known_findings() if k['property'] == pid}
    unexpected = [ob for ob in res.obligations if ob.get('template') == tpl and ob['status'] == 'failed' and ob['id'] not in known_ids]
    if not unexpected and not undecided:
        cpath = out.replace('_gen.rs', '_canary.rs')
        names = make_canary_file(meta, cpath)
        if names:
            rc = V.run_verus(cpath)
            text = open(cpath).read()
            bad = []
            errlines = set()
            lines = text.split('\n')
            canary_ranges = []
            for cname, orig in names:
                idx = next(i for i, l in enumerate(lines, 1) if l.startswith(f'proof fn {cname}('))
                canary_ranges.append((idx, idx + 4))
            for d in rc['diags']:
                if d.get('level') == 'error':
                    for sp in d.get('spans', []):
                        errlines.add(sp['line_start'])
                    msg = d.get('message', '')
                    if not (any(p in msg for p in V.FAIL_PATTERNS) or msg.startswith('aborting')):
                        # The canary file re-verifies the whole template; only the canaries matter here (every other item
                        # was decided by the main run). A resource-limit message on a non-canary item is ignored.
                        in_canary = any(a <= sp['line_start'] <= b for sp in d.get('spans', []) for a, b in canary_ranges)
                        if in_canary or not any(p in msg for p in V.UNDECIDED_PATTERNS):
                            res.undecided.append(f'[{name}] canary file error: {d.get("rendered", msg)[:800]}')
            for cname, orig in names:
                # the canary's `ensures false` line must be within an error span
                idx = next(i for i, l in enumerate(lines, 1) if l.startswith(f'proof fn {cname}('))
                # canary occupies idx..idx+3
                if not any(idx <= e <= idx + 4 for e in errlines):
                    bad.append((cname, orig))
            for cname, orig in bad:
                res.undecided.append(f'[{name}] VACUOUS: precondition of `{orig}` is unsatisfiable (canary {cname} verified)')
            res.canaries = getattr(res, 'canaries', 0) + len(names)
    return meta


def finish(pid, tier, seed, res, contract, t0, repo):
    known = [k for k in load_known_findings() if k['property'] == pid]
    violations = []
    known_hit = []
    for ob in res.obligations:
        if ob['status'] == 'failed':
            kf = next((k for k in known if k['obligation'] == ob['id']), None)
            if kf:
                known_hit.append((ob, kf))
            else:
                violations.append(ob)
    # replay
    os.makedirs(os.path.join(VERIF, 'replay', 'out'), exist_ok=True)
    lines = []
    for ob in violations:
        rp = os.path.join(VERIF, 'replay', 'out', f"{pid}-{re.sub(r'[^A-Za-z0-9_.-]', '_', ob['id'])}.json")
        info = R.replay(pid, ob, repo, seed, contract)
        json.dump(dict(property=pid, obligation=ob['id'], engine=ob['engine'], verifier_output=ob.get('detail', ''),
                       replay=info, generated_file=ob.get('file'), tier=tier, seed=seed), open(rp, 'w'), indent=1)
        ob['replay'] = rp
        ob['replay_info'] = info
    # A failure in a unit whose proof hints lost their anchors counts only if replay confirmed it.
    confirmed = []
    for ob in violations:
        lost = any(ob['id'] in l for l in res.rewrites if l.startswith('GHOST-ANCHOR-LOST'))
        msgs = [m for m in (ob.get('detail') or '').split('\n') if m.startswith('error') or m.startswith('[proof-hint step]')]
        hint_only = ob['engine'] == 'verus' and msgs and all(m.startswith('[proof-hint step]') for m in msgs)
        if lost and not ob['replay_info'].get('failing_input'):
            res.undecided.append(f"{ob['id']}: proof hint anchor lost and no failing input found -> undecided")
        elif hint_only and ob['replay_info'].get('searched') and not ob['replay_info'].get('failing_input'):
            # only steps of the inserted proof script failed (an assert / lemma precondition inside ghost text) AND a native
            # search on the real text found no failing input: the proof did not go through on this tree, but nothing was
            # refuted -> undecided. (Without a native search the failed step is reported: it passed on the unchanged tree.)
            res.undecided.append(f"{ob['id']}: only proof-hint steps failed (no contract clause refuted) and no failing input found -> undecided")
        else:
            confirmed.append(ob)
    violations = confirmed
    # A listed known finding is a statement clause that is FALSE on the current tree (kept as its own
    # obligation so that it suppresses nothing else); it is reported under `known_findings`, not counted
    # among the obligations this run claims to have discharged.
    kf_ids = {id(o) for o, _ in known_hit}
    n_ob = len([o for o in res.obligations if not o.get('bounded') and id(o) not in kf_ids])
    n_dis = len([o for o in res.obligations if o['status'] == 'discharged' and not o.get('bounded')])
    level = getattr(contract, 'LEVEL', 'proof')
    cov = dict(
        obligations=n_ob, discharged=n_dis,
        checker_cmd=' ; '.join(res.cmds)[:6000] or 'none',
        trusted_base=sorted(res.trusted) + list(getattr(contract, 'TRUSTED', [])),
        functions_under_contract=res.functions,
        obligation_list=[dict(id=o['id'], engine=o['engine'], status=('known-finding' if id(o) in kf_ids else o['status']), bounded=o.get('bounded', False), time_s=o.get('time')) for o in res.obligations],
        solver_time_s=res.solver_time,
        rewrites_applied=res.rewrites,
        bounded=res.bounded,
        unverified_clauses=list(getattr(contract, 'UNVERIFIED', [])),
        vacuity_canaries=getattr(res, 'canaries', 0),
        known_findings=[dict(obligation=o['id'], what=k['what']) for o, k in known_hit],
        undecided=res.undecided,
        samples=res.samples[:6] or [dict(obligation=o['id'], engine=o['engine']) for o in res.obligations[:3]],
        exhaustive=False,
    )
    if level != 'proof':
        cov['explanation'] = getattr(contract, 'EXPLANATION', '')
        cov['evaluations'] = max(1, n_ob + sum(b.get('checks', 0) for b in res.bounded))
        cov['distinct_nontrivial'] = max(2, len(res.obligations))
        cov['rule'] = 'each obligation is one contract clause set on one function or one bounded harness; distinct by obligation id'
    ev = dict(property_id=pid, tier=tier, seed=seed, level=level, coverage=cov,
              assumptions=list(getattr(contract, 'ASSUMPTIONS', [])) + list(getattr(contract, 'UNVERIFIED', [])),
              wall_s=round(time.time() - t0, 2), violations=len(violations))
    evdir = os.path.join(VERIF, 'evidence') if os.path.realpath(repo) == '/repo' else os.path.join(VERIF, '.build', 'evidence-scratch')
    os.makedirs(evdir, exist_ok=True)
    evp = os.path.join(evdir, f'{pid}.json')
    json.dump(ev, open(evp, 'w'), indent=1)
    for ob, kf in known_hit:
        print(f"KNOWN-FINDING: property={pid} obligation={ob['id']} {kf['what']}")
    # a known finding whose obligation no longer fails is reported (not an error)
    for k in known:
        if not any(o['id'] == k['obligation'] and o['status'] == 'failed' for o in res.obligations):
            print(f"note: known finding {k['obligation']} did not reproduce in this run (tier {tier})")
    for ob in violations:
        tail = '' if ob['replay_info'].get('failing_input') else ' no-failing-input-found'
        print(f"failed obligation {ob['id']} ({ob['engine']}):\n{ob.get('detail', '')[:1500]}")
        print(f"VIOLATION property={pid} replay={ob['replay']}{tail}")
    if violations:
        return 1
    if res.undecided and getattr(contract, 'FALLBACK_OBS', None) and getattr(contract, 'replay', None) and not getattr(res, '_fallback_done', False):
        # Structural drift (lost anchor / construct outside the extractor's subset): the verifier cannot
        # re-establish the contract on this tree. Fallback: replay the property's oracles natively on the
        # REAL code. A failing input found this way is a confirmed violation (it cannot be a false alarm);
        # nothing found => the run stays UNDECIDED (exit 2), never a pass.
        res._fallback_done = True
        for oid in contract.FALLBACK_OBS:
            try:
                info = contract.replay(dict(id=oid, engine='native-replay'), repo, seed)
            except Exception as e:
                info = None
            if info and info.get('failing_input'):
                rp = os.path.join(VERIF, 'replay', 'out', f"{pid}-fallback-{re.sub(r'[^A-Za-z0-9_.-]', '_', oid)}.json")
                json.dump(dict(property=pid, obligation=oid, engine='native-replay (fallback after structural drift)',
                               verifier_output='contract could not be re-established: ' + ' | '.join(res.undecided)[:3000],
                               replay=info, tier=tier, seed=seed), open(rp, 'w'), indent=1)
                print(f"structural drift: {res.undecided[0][:300]}")
                print(f"failing input found by native replay of obligation {oid}: {json.dumps(info['failing_input'])[:600]}")
                print(f"VIOLATION property={pid} replay={rp}")
                ev['violations'] = 1
                ev['coverage']['fallback'] = dict(obligation=oid, failing_input=info['failing_input'])
                json.dump(ev, open(evp, 'w'), indent=1)
                return 1
    if res.undecided:
        for u in res.undecided:
            print(f"UNDECIDED property={pid}: {u}")
        return 2
    print(f"OK property={pid} tier={tier} obligations={n_ob} discharged={n_dis} bounded={len(res.bounded)} known_findings={len(known_hit)} wall={ev['wall_s']}s")
    return 0


def main(argv):
    import argparse
    ap = argparse.ArgumentParser()
    ap.add_argument('pid')
    ap.add_argument('--tier', default=os.environ.get('VERIF_TIER', 'quick'))
    ap.add_argument('--replay')
    a = ap.parse_args(argv)
    pid = a.pid
    tier = a.tier if a.tier in ('quick', 'thorough') else 'quick'
    seed = int(os.environ.get('VERIF_SEED', '0') or 0)
    repo = os.environ.get('REPO', '/repo')
    t0 = time.time()
    if a.replay:
        print(open(a.replay).read())
        return 0
    contract = load_contract(pid)
    res = Result()
    # the three stages are independent: a template that cannot be re-established (undecided) does not keep the Kani harnesses
    # or the text anchors of the same property from running
    def stage(f):
        try:
            f()
        except (V.Undecided, LostAnchor) as e:
            res.undecided.append(str(e))
        except Exception:
            res.undecided.append('internal error: ' + traceback.format_exc())

    def verus_stage():
        tpls = list(getattr(contract, 'VERUS', [])) + (list(getattr(contract, 'VERUS_THOROUGH', [])) if tier == 'thorough' else [])
        for tpl in tpls:
            stage(lambda: run_verus_template(tpl, repo, res, pid, tier))

    def kani_stage():
        kspec = list(getattr(contract, 'KANI', []))
        if tier == 'thorough':
            kspec += list(getattr(contract, 'KANI_THOROUGH', []))
        if kspec:
            K.run_harnesses(kspec, repo, res, pid, tier)

    verus_stage()
    stage(kani_stage)
    if hasattr(contract, 'extra'):
        stage(lambda: contract.extra(res, repo, tier, seed))
    return finish(pid, tier, seed, res, contract, t0, repo)
