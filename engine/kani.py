"""Kani back end.

Two build modes:
  ext | rel -- /verif/kani/ext, /verif/kani/rel: external harness crates linking the real crates by path
           (Cargo.toml generated from Cargo.toml.in with the repo path substituted);
  ws:<pkg> -- `cargo kani -p <pkg>` inside the repo workspace; harness modules are pulled in by
           the `#[cfg(kani)]` hooks via env GMSOL_VERIF_DIR.

A harness spec is a dict:
  dict(mode='ext'|'ws:gmsol-store', harness='name', bounded=None|'text of the bound',
       stubs=['expected stub substrings'], timeout=s, mem_gb=n, flags=[...], covers=n_expected_min)
One invocation per (mode) with all harnesses of that mode: `cargo kani --harness a --harness b -j N`.
"""
import os
import re
import shutil
import subprocess
import time
import resource

VERIF = os.path.dirname(os.path.dirname(os.path.abspath(__file__)))
BUILD = os.path.join(VERIF, '.build')


def _env(repo):
    e = dict(os.environ)
    e['CARGO_NET_OFFLINE'] = 'true'
    e['GMSOL_VERIF_DIR'] = VERIF
    e['GMSOL_VERIF_REPO'] = repo
    return e


def prepare_ext(repo, name='ext'):
    """`ext`: harness crate over gmsol-model / gmsol-utils / chainlink; `rel`: relational harness crate linking BOTH
    gmsol-store (program) and gmsol-programs (SDK)."""
    d = os.path.join(BUILD, f'kani-{name}')
    os.makedirs(d, exist_ok=True)
    t = open(os.path.join(VERIF, 'kani', name, 'Cargo.toml.in')).read()
    t = t.replace('@REPO@', repo).replace('@VERIF@', VERIF)
    p = os.path.join(d, 'Cargo.toml')
    if not os.path.exists(p) or open(p).read() != t:
        open(p, 'w').write(t)
    lock = os.path.join(d, 'Cargo.lock')
    if not os.path.exists(lock):
        shutil.copy(os.path.join(repo, 'Cargo.lock'), lock)
    return d


def _refresh_idl_dependents(repo, target):
    """`anchor_lang::declare_program!` reads crates/programs/idls/*.json at compile time without telling cargo, so an
    edit of an IDL alone would leave a stale gmsol-programs in the cached target directory (measured: a layout change in
    the IDL was not rebuilt). The IDL contents are hashed per repo path; on a change the package's fingerprints are removed,
    which makes cargo rebuild exactly that package and its dependents."""
    import hashlib, glob
    h = hashlib.sha256()
    for f in sorted(glob.glob(os.path.join(repo, 'crates', 'programs', 'idls', '*.json'))):
        h.update(f.encode())
        h.update(open(f, 'rb').read())
    tag = os.path.join(target, 'idl-' + hashlib.sha256(os.path.realpath(repo).encode()).hexdigest()[:16] + '.hash')
    cur = h.hexdigest()
    old = open(tag).read() if os.path.exists(tag) else None
    if old != cur:
        if old is not None:
            for d in glob.glob(os.path.join(target, 'kani', '*', '*', '.fingerprint', 'gmsol-programs-*')) + \
                    glob.glob(os.path.join(target, 'kani', '*', '*', 'build', 'gmsol-programs', '*', 'fingerprint')):
                shutil.rmtree(d, ignore_errors=True)
        os.makedirs(target, exist_ok=True)
        open(tag, 'w').write(cur)


def _limit(mem_gb):
    def f():
        os.setsid()
    return f


CHECK_RE = re.compile(r'^Check (\d+): (\S+)\n\s+- Status: (\w+)\n\s+- Description: "(.*)"\n\s+- Location: (.*)$', re.M)


def parse_output(out):
    """Split the output of a (possibly parallel, interleaved) multi-harness run into per-harness records."""
    texts = {}      # harness -> accumulated text
    stubs = {}      # harness -> list of stub lines
    thread_h = {}   # thread id -> current harness
    cur = None
    for line in out.split('\n'):
        m = re.match(r'^(?:Thread (\d+): )?Checking harness (\S+?)\.\.\.\s*$', line)
        if m:
            t = m.group(1) or '0'
            thread_h[t] = m.group(2)
            texts.setdefault(m.group(2), '')
            stubs.setdefault(m.group(2), [])
            cur = m.group(2)
            continue
        m = re.match(r'^Thread (\d+): ?(.*)$', line)
        if m:
            cur = thread_h.get(m.group(1))
            rest = m.group(2)
            if cur is not None:
                ms = re.match(r'\s*- Stub: (.*)', rest)
                if ms:
                    stubs[cur].append(ms.group(1))
                else:
                    texts[cur] += rest + '\n'
            continue
        if line.startswith('Manual Harness Summary') or line.startswith('Complete - '):
            cur = None
            continue
        if cur is not None:
            ms = re.match(r'\s*- Stub: (.*)', line)
            if ms:
                stubs[cur].append(ms.group(1))
            else:
                texts[cur] += line + '\n'
    recs = {}
    for name, text in texts.items():
        rec = dict(name=name, text=text, stubs=stubs.get(name, []))
        m = re.search(r'VERIFICATION:- (SUCCESSFUL|FAILED)', text)
        rec['verdict'] = m.group(1) if m else None
        m = re.search(r'\*\* (\d+) of (\d+) failed', text)
        if m:
            rec['failed'] = int(m.group(1))
            rec['checks'] = int(m.group(2))
        m = re.search(r'\*\* (\d+) of (\d+) cover properties satisfied', text)
        if m:
            rec['covers_sat'] = int(m.group(1))
            rec['covers'] = int(m.group(2))
        m = re.search(r'Verification Time: ([\d.]+)s', text)
        if m:
            rec['time'] = float(m.group(1))
        rec['failed_checks'] = []
        for cm in CHECK_RE.finditer(text):
            if cm.group(3) in ('FAILURE',):
                rec['failed_checks'].append(dict(check=cm.group(2), description=cm.group(4), location=cm.group(5)))
        # terse format: "Failed Checks: <description>\n File: ..."
        for fm in re.finditer(r'Failed Checks: (.*)\n\s*File: "([^"]*)", line (\d+), in (\S+)', text):
            rec['failed_checks'].append(dict(check='', description=fm.group(1), location=f'{fm.group(2)}:{fm.group(3)} in {fm.group(4)}'))
        fm = re.search(r'Failed Checks:(.*?)(?:\n\n\n|VERIFICATION:-|\Z)', text, re.S)
        if fm:
            rec['failed_summary'] = fm.group(0).strip()[:3000]
        descs = [c['description'] for c in rec['failed_checks']]
        rec['unwind_fail'] = any('unwinding assertion' in d for d in descs)
        rec['unsupported'] = any(('not currently supported' in d or 'unsupported' in d.lower()) for d in descs)
        rec['unsat_covers'] = re.findall(r'Status: UNSATISFIABLE\n\s+- Description: "(.*)"', text)
        if rec.get('covers') is not None and rec.get('covers_sat') is not None and rec['covers_sat'] < rec['covers'] and not rec['unsat_covers']:
            rec['unsat_covers'] = [f"{rec['covers'] - rec['covers_sat']} of {rec['covers']} cover properties not satisfied"]
        recs[name.split('::')[-1]] = rec
    allstubs = [x for v in stubs.values() for x in v]
    return recs, allstubs


def run_group(mode, specs, repo, tier):
    env = _env(repo)
    names = [s['harness'] for s in specs]
    flags = ['-Z', 'stubbing', '-Z', 'function-contracts']
    if mode in ('ext', 'rel'):
        cwd = prepare_ext(repo, mode)
        env['CARGO_TARGET_DIR'] = os.path.join(BUILD, f'kani-target-{mode}')
        cmd = ['cargo', 'kani']
        if mode == 'rel':
            _refresh_idl_dependents(repo, env['CARGO_TARGET_DIR'])
    else:
        pkg = mode.split(':', 1)[1]
        cwd = repo
        env['CARGO_TARGET_DIR'] = os.path.join(BUILD, 'kani-target-ws')
        cmd = ['cargo', 'kani', '-p', pkg]
    extra = []
    for s in specs:
        for f in s.get('flags', []):
            if f not in extra:
                extra.append(f)
    jobs = min(len(names), max(1, int(os.environ.get('VERIF_KANI_JOBS', '8'))))
    maxmem = max(s.get('mem_gb', 8) for s in specs)
    jobs = max(1, min(jobs, int(os.environ.get('VERIF_MEM_GB', '56')) // maxmem))
    cmd += flags + extra
    for n in names:
        cmd += ['--harness', n]
    cmd += ['--exact'] if all(s.get('exact') for s in specs) else []
    cmd += ['-j', str(jobs), '--output-format', 'terse']
    timeout = sum(s.get('timeout', 300) for s in specs) / max(1, jobs) + 900
    t0 = time.time()
    try:
        p = subprocess.run(cmd, cwd=cwd, env=env, capture_output=True, text=True, timeout=timeout, preexec_fn=os.setsid)
        out = p.stdout + '\n' + p.stderr
        rc = p.returncode
        timed_out = False
    except subprocess.TimeoutExpired as e:
        out = ((e.stdout or b'').decode(errors='replace') if isinstance(e.stdout, bytes) else (e.stdout or '')) + \
              ((e.stderr or b'').decode(errors='replace') if isinstance(e.stderr, bytes) else (e.stderr or ''))
        rc = -1
        timed_out = True
        subprocess.run(['pkill', '-9', '-f', 'cbmc'], capture_output=True)
    wall = time.time() - t0
    recs, stubs = parse_output(out)
    return dict(cmd=' '.join(cmd), cwd=cwd, out=out, rc=rc, recs=recs, stubs=stubs, wall=wall, timed_out=timed_out)


def run_harnesses(kspec, repo, res, pid, tier):
    groups = {}
    for s in kspec:
        groups.setdefault(s.get('mode', 'ext'), []).append(s)
    for mode, specs in groups.items():
        g = run_group(mode, specs, repo, tier)
        res.cmds.append(f"(cd {g['cwd']} && GMSOL_VERIF_DIR={VERIF} {g['cmd']})")
        logp = os.path.join(BUILD, 'logs')
        os.makedirs(logp, exist_ok=True)
        open(os.path.join(logp, f"{pid}-{mode.replace(':', '_')}.log"), 'w').write(g['out'])
        compile_failed = not g['recs'] and g['rc'] != 0
        if compile_failed:
            # compile error / tool failure: undecided, never an alarm
            tail = '\n'.join([l for l in g['out'].split('\n') if l.strip()][-40:])
            res.undecided.append(f'kani [{mode}] produced no harness results (build failure or tool error):\n{tail}')
        for s in specs:
            oid = f"{pid}.kani.{s['harness']}"
            rec = g['recs'].get(s['harness'])
            ob = dict(id=oid, engine='kani', harness=s['harness'], mode=mode, bounded=bool(s.get('bounded')), log=os.path.join(logp, f"{pid}-{mode.replace(':', '_')}.log"))
            if rec is None:
                ob['status'] = 'undecided'
                if not compile_failed:
                    res.undecided.append(f"kani harness {s['harness']}: no result (timeout={g['timed_out']})")
            else:
                ob['time'] = rec.get('time')
                ob['checks'] = rec.get('checks')
                missing = [st for st in s.get('stubs', []) if not any(st.replace(' ', '') in x.replace(' ', '') for x in rec.get('stubs', []))]
                if rec['verdict'] == 'SUCCESSFUL':
                    if missing:
                        ob['status'] = 'undecided'
                        res.undecided.append(f"kani harness {s['harness']}: expected stubs not applied: {missing}")
                    elif rec.get('unsat_covers'):
                        ob['status'] = 'undecided'
                        res.undecided.append(f"kani harness {s['harness']}: VACUOUS, unreachable cover(s): {rec['unsat_covers']}")
                    else:
                        ob['status'] = 'discharged'
                elif rec['verdict'] == 'FAILED':
                    real = [c for c in rec['failed_checks'] if 'unwinding assertion' not in c['description'] and 'not currently supported' not in c['description']]
                    if rec['unsupported'] and not real:
                        ob['status'] = 'undecided'
                        res.undecided.append(f"kani harness {s['harness']}: unsupported construct reached")
                    elif rec['unwind_fail'] and not real:
                        ob['status'] = 'undecided'
                        res.undecided.append(f"kani harness {s['harness']}: unwinding bound too small")
                    elif not real and rec.get('unsat_covers') and rec.get('failed', 0) == 0:
                        ob['status'] = 'undecided'
                        res.undecided.append(f"kani harness {s['harness']}: cover unsatisfiable: {rec['unsat_covers']}")
                    else:
                        ob['status'] = 'failed'
                        ob['detail'] = 'Kani: ' + '; '.join(f"{c['description']} @ {c['location']}" for c in real[:8]) + '\n' + rec.get('failed_summary', '')
                        ob['failed_checks'] = real
                else:
                    ob['status'] = 'undecided'
                    res.undecided.append(f"kani harness {s['harness']}: no verdict (CBMC crash / out of memory / timeout)")
            if s.get('bounded'):
                res.bounded.append(dict(id=oid, bound=s['bounded'], status=ob['status'], checks=ob.get('checks') or 0, time_s=ob.get('time')))
            for st in s.get('stubs', []):
                res.trusted.add(f'kani stub: {st}')
            res.obligations.append(ob)
            if s.get('fn'):
                res.functions.append(dict(id=oid, engine='kani', fn=s['fn'], harness=s['harness'], mode=mode))
        res.solver_time[f'kani:{mode}'] = round(g['wall'], 1)


def counterexample(ob, repo):
    """Re-run one failing harness with concrete playback and return the concrete values CBMC assigned
    to the harness's `kani::any()` draws, in draw order (inputs are drawn first, DESIGN 2.5)."""
    env = _env(repo)
    mode = ob['mode']
    flags = ['-Z', 'stubbing', '-Z', 'function-contracts', '-Z', 'concrete-playback', '--concrete-playback=print']
    if mode in ('ext', 'rel'):
        cwd = prepare_ext(repo, mode)
        env['CARGO_TARGET_DIR'] = os.path.join(BUILD, f'kani-target-{mode}')
        cmd = ['cargo', 'kani']
    else:
        cwd = repo
        env['CARGO_TARGET_DIR'] = os.path.join(BUILD, 'kani-target-ws')
        cmd = ['cargo', 'kani', '-p', mode.split(':', 1)[1]]
    cmd += flags + list(ob.get('flags', [])) + ['--harness', ob['harness'], '--output-format', 'terse']
    try:
        p = subprocess.run(cmd, cwd=cwd, env=env, capture_output=True, text=True, timeout=int(os.environ.get('VERIF_CEX_TIMEOUT', '420')))
    except subprocess.TimeoutExpired:
        return None
    out = p.stdout
    m = re.search(r'let concrete_vals: Vec<Vec<u8>> = vec!\[(.*?)\];', out, re.S)
    if not m:
        return None
    vals = re.findall(r'//\s*(.+)\n\s*vec!\[([^\]]*)\]', m.group(1))
    return dict(values=[v[0].strip() for v in vals], bytes=[[int(x) for x in v[1].split(',') if x.strip()] for v in vals],
                how='CBMC counterexample for the real crate compiled by Kani, printed by -Z concrete-playback; values listed in kani::any() draw order')
