"""Mechanical extraction of Rust items from /repo by anchor.

An anchor is (file, within, fn): `within` is the literal text of the header of the enclosing
`impl`/`trait`/`mod` block (whitespace-normalised, matched as a prefix of the header up to its
opening brace) or "" for a free function; `fn` is the function name. The extractor fails closed
(`LostAnchor`) unless exactly one match exists.

The scanner understands line/block comments, string/raw-string/byte-string literals, char
literals and lifetimes, so that braces inside them are not counted.
"""
import re
import hashlib


class LostAnchor(Exception):
    pass


def _skip_trivia(src, i):
    """If src[i:] starts a comment/string/char literal, return index just after it; else None."""
    n = len(src)
    c = src[i]
    if c == '/' and i + 1 < n:
        if src[i + 1] == '/':
            j = src.find('\n', i)
            return n if j < 0 else j
        if src[i + 1] == '*':
            depth = 1
            j = i + 2
            while j < n and depth:
                if src.startswith('/*', j):
                    depth += 1
                    j += 2
                elif src.startswith('*/', j):
                    depth -= 1
                    j += 2
                else:
                    j += 1
            return j
    if c == '"' or (c == 'b' and src.startswith('b"', i)):
        j = i + (2 if c == 'b' else 1)
        while j < n:
            if src[j] == '\\':
                j += 2
            elif src[j] == '"':
                return j + 1
            else:
                j += 1
        return n
    m = re.match(r'b?r(#*)"', src[i:i + 12])
    if m and (i == 0 or not (src[i - 1].isalnum() or src[i - 1] == '_')):
        hashes = m.group(1)
        end = src.find('"' + hashes, i + len(m.group(0)))
        return n if end < 0 else end + 1 + len(hashes)
    if c == "'":
        # char literal or lifetime
        m = re.match(r"'(\\.[^']*|[^'\\])'", src[i:i + 12])
        if m:
            return i + len(m.group(0))
        return i + 1  # lifetime tick
    return None


def match_brace(src, i, open_ch='{', close_ch='}'):
    """src[i] == open_ch; return index of the matching close_ch."""
    assert src[i] == open_ch
    depth = 0
    n = len(src)
    while i < n:
        j = _skip_trivia(src, i)
        if j is not None:
            i = j
            continue
        c = src[i]
        if c == open_ch:
            depth += 1
        elif c == close_ch:
            depth -= 1
            if depth == 0:
                return i
        i += 1
    raise LostAnchor("unbalanced braces")


def _code_positions(src, start, end):
    """Yield (index) of code characters at nesting depth relative to start (skipping trivia)."""
    i = start
    while i < end:
        j = _skip_trivia(src, i)
        if j is not None:
            i = j
            continue
        yield i
        i += 1


# ---- canonical layout (fallback) ------------------------------------------------------------------------------------
# When an anchor is lost on the text as written, the engine retries once with every source file passed through
# `rustfmt --edition 2021` (default configuration, read from stdin with cwd=/ so that no rustfmt.toml applies). rustfmt
# changes layout only (line breaks, indentation, trailing commas); /repo itself is rustfmt-clean, so the contracts were
# written against exactly this layout. A tree that was merely re-formatted is therefore still decided.
CANON = False
_CANON_CACHE = {}


def rustfmt_available():
    import shutil
    return shutil.which('rustfmt') is not None


def read_src(path):
    src = open(path).read()
    if not CANON:
        return src
    import hashlib, subprocess
    key = hashlib.sha256(src.encode()).hexdigest()
    if key not in _CANON_CACHE:
        try:
            p = subprocess.run(['rustfmt', '--edition', '2021', '--emit', 'stdout'], input=src, capture_output=True, text=True, cwd='/', timeout=60)
            _CANON_CACHE[key] = p.stdout if p.returncode == 0 and p.stdout.strip() else src
        except Exception:
            _CANON_CACHE[key] = src
    return _CANON_CACHE[key]


def norm(s):
    # layout-insensitive: one space between tokens, none after an opening / before a closing bracket or a comma, no
    # trailing comma before a closing bracket - `fn f(\n a: T,\n)` and `fn f(a: T)` are the same signature
    s = re.sub(r'\s+', ' ', s).strip()
    s = re.sub(r'([(<\[]) ', r'\1', s)
    s = re.sub(r' ([)>\],])', r'\1', s)
    s = re.sub(r',([)>\]])', r'\1', s)
    return s


def _strip_vis(h):
    return re.sub(r'^(pub(\([^)]*\))?\s+)', '', h)


def find_block(src, header, containing_fn=None):
    """Find the unique block whose header (text before '{') starts with `header` (normalised). When several blocks
    carry the same header (Rust allows any number of `impl T { .. }` blocks) and `containing_fn` is given, the one
    that directly contains `fn <containing_fn>` is taken - it must be unique."""
    want = _strip_vis(norm(header))
    first = re.escape(want.split(' ')[0].split('<')[0])
    hits = []
    exact = []
    for m in re.finditer(r'(?m)^[ \t]*((?:pub(?:\([^)]*\))?\s+)?(?:unsafe\s+)?' + first + r')\b', src):
        s = m.start(1)
        brace = None
        angle = 0     # `{` inside generic arguments (const generics: `Trait<{ EXPR }>`) does not open the block
        for p in _code_positions(src, s, len(src)):
            ch = src[p]
            if ch == '<':
                angle += 1
            elif ch == '>' and not (p > 0 and src[p - 1] == '-') and angle > 0:
                angle -= 1
            if ch == '{' and angle == 0:
                brace = p
                break
            if ch == ';' and angle == 0:
                break
        if brace is None:
            continue
        head = _strip_vis(norm(src[s:brace]))
        if head == want or head.startswith(want + ' ') or head.startswith(want + '<') or head.startswith(want + ':'):
            hits.append((s, brace, match_brace(src, brace)))
            if head == want:
                exact.append(hits[-1])
    if len(hits) != 1 and len(exact) == 1:
        return exact[0]     # several headers start with the text, exactly one IS the text
    if len(hits) > 1 and containing_fn:
        pool = exact if len(exact) > 1 else hits
        holding = []
        for h in pool:
            try:
                find_fn(src, containing_fn, h[1] + 1, h[2])
                holding.append(h)
            except LostAnchor:
                pass
        if len(holding) == 1:
            return holding[0]
    if len(hits) != 1:
        raise LostAnchor(f"block header {header!r}: {len(hits)} matches")
    return hits[0]


def find_fn(src, name, start=0, end=None, depth_limit=True):
    """Find `fn name` directly inside [start,end) at brace depth 0 relative to start."""
    end = len(src) if end is None else end
    hits = []
    depth = 0
    i = start
    pat = re.compile(r'fn\s+' + re.escape(name) + r'\b')
    while i < end:
        j = _skip_trivia(src, i)
        if j is not None:
            i = j
            continue
        c = src[i]
        if c == '{':
            depth += 1
        elif c == '}':
            depth -= 1
        elif c == 'f' and depth == 0 and (i == 0 or not (src[i - 1].isalnum() or src[i - 1] == '_')):
            m = pat.match(src, i)
            if m:
                hits.append(i)
        i += 1
    if len(hits) != 1:
        raise LostAnchor(f"fn {name}: {len(hits)} matches")
    s = hits[0]
    # signature runs to the first '{' at paren depth 0 (or ';' for a declaration)
    pd = 0
    brace = None
    for p in _code_positions(src, s, end):
        ch = src[p]
        if ch in '([':
            pd += 1
        elif ch in ')]':
            pd -= 1
        elif ch == '{' and pd == 0:
            brace = p
            break
        elif ch == ';' and pd == 0:
            raise LostAnchor(f"fn {name}: declaration without body")
    if brace is None:
        raise LostAnchor(f"fn {name}: no body")
    close = match_brace(src, brace)
    return s, brace, close


def strip_where(sig):
    """Drop a trailing where-clause from a signature text."""
    # find ' where ' at paren/angle depth 0
    depth = 0
    i = 0
    while i < len(sig):
        c = sig[i]
        if c in '(<[':
            depth += 1
        elif c in ')>]':
            if not (c == '>' and i > 0 and sig[i - 1] == '-'):
                depth -= 1
        elif depth == 0 and re.match(r'\bwhere\b', sig[i:]) and (i == 0 or not sig[i - 1].isalnum()):
            return sig[:i]
        i += 1
    return sig


class Item:
    def __init__(self, file, within, name, sig, body, line):
        self.file, self.within, self.name = file, within, name
        self.sig = sig          # text from `fn` to just before the body's `{`
        self.body = body        # text strictly between the body's braces
        self.line = line        # 1-based line of `fn` in the source file
        self.hash = hashlib.sha256((sig + '{' + body + '}').encode()).hexdigest()[:16]

    def sig_norm(self):
        # line comments inside a parameter list are not part of the signature
        return norm(strip_where(re.sub(r'//[^\n]*', '', self.sig)))


def extract_fn(repo, file, within, name):
    path = f"{repo}/{file}"
    try:
        src = read_src(path)
    except OSError as e:
        raise LostAnchor(f"{file}: {e}")
    start, end = 0, len(src)
    if within:
        ws = within.split(' >> ')
        for k, w in enumerate(ws):
            last = name if k == len(ws) - 1 else None
            s, b, c = find_block(src[:end], w, last) if start == 0 else _find_block_in(src, w, start, end, last)
            start, end = b + 1, c
    s, brace, close = find_fn(src, name, start, end)
    return Item(file, within, name, src[s:brace], src[brace + 1:close], src.count('\n', 0, s) + 1)


def _find_block_in(src, header, start, end, containing_fn=None):
    sub = src[start:end]
    s, b, c = find_block(sub, header, containing_fn)
    return s + start, b + start, c + start


def extract_const(repo, file, name):
    """Return the defining expression text of `const NAME: T = <expr>;` (unique)."""
    src = read_src(f"{repo}/{file}")
    ms = list(re.finditer(r'(?m)^\s*(?:pub(?:\([^)]*\))?\s+)?const\s+' + re.escape(name) + r'\s*:\s*([^=]+?)\s*=\s*([^;]+);', src))
    if len(ms) != 1:
        raise LostAnchor(f"const {name} in {file}: {len(ms)} matches")
    return norm(ms[0].group(1)), norm(ms[0].group(2))


def extract_block_text(repo, file, header):
    """Return full text of a block item (struct/enum/impl) by header."""
    src = read_src(f"{repo}/{file}")
    s, b, c = find_block(src, header)
    return src[s:c + 1]
