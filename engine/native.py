"""Native execution of extracted function text (bounded stand-in / replay for functions of program crates).

Program-crate functions that are private (or need Anchor accounts) cannot be called from an ordinary
binary. Their TEXT can: a template `native/<id>.rs` is plain Rust that declares carrier types (the same
carriers the Verus template uses, in plain Rust) and contains directives

    //@unit <id>
    //@ file <path in repo>
    //@ within <block header>        (optional)
    //@ fn <name>
    //@ sub <regex> => <replacement> (optional, logged)
    //@verbatim

`//@verbatim` is replaced by the function's signature and body exactly as they stand in /repo (plus
the listed substitutions). The rest of the template is a driver (`fn main`) that enumerates a stated
finite domain, runs the real text, evaluates the property's postcondition and prints either
`FAIL <description>` lines or `OK <number of executions>`.

This is a BOUNDED check: it is used (a) to find a failing input for a failed Verus obligation (replay),
(b) as the fallback when the deductive route is undecided because the function left Verus' subset.
It is never counted as a discharged obligation.
"""
import os
import re
import subprocess

from . import extract

VERIF = os.path.dirname(os.path.dirname(os.path.abspath(__file__)))
BUILD = os.path.join(VERIF, '.build', 'native')


def generate(template, repo, out):
    lines = open(os.path.join(VERIF, template)).read().split('\n')
    res, log = [], []
    i = 0
    while i < len(lines):
        st = lines[i].strip()
        if st.startswith('//@unit'):
            u = dict(id=st.split()[1], within='', subs=[])
            i += 1
            while i < len(lines) and lines[i].strip().startswith('//@ '):
                key, _, val = lines[i].strip()[4:].partition(' ')
                if key == 'sub':
                    a, _, b = val.partition(' => ')
                    u['subs'].append((a, b))
                else:
                    u[key] = val.strip()
                i += 1
            if lines[i].strip() != '//@verbatim':
                raise extract.LostAnchor(f'{template}: //@verbatim expected after unit {u["id"]}')
            item = extract.extract_fn(repo, u['file'], u['within'], u['fn'])
            text = item.sig + '{' + item.body + '}'
            for a, b in u['subs']:
                n = len(re.findall(a, text))
                text = re.sub(a, b, text)
                log.append(f'native sub x{n} in {u["id"]}: {a} => {b}')
            res.append(f'// <<< verbatim from {item.file}:{item.line} hash {item.hash}')
            res.append(text)
            res.append('// >>>')
            log.append(f'native: {u["id"]} = {item.file}:{item.line} hash {item.hash}')
        else:
            res.append(lines[i])
        i += 1
    os.makedirs(os.path.dirname(out), exist_ok=True)
    open(out, 'w').write('\n'.join(res))
    return log


def run(template, repo, args=(), timeout=600):
    """Returns dict(ok=bool|None, fails=[...], executions=n, log=[...], error=str|None)."""
    name = os.path.splitext(os.path.basename(template))[0]
    src = os.path.join(BUILD, f'{name}.rs')
    exe = os.path.join(BUILD, name)
    try:
        log = generate(template, repo, src)
    except extract.LostAnchor as e:
        return dict(ok=None, fails=[], executions=0, log=[], error=f'lost anchor: {e}')
    c = subprocess.run(['rustc', '--edition', '2021', '-C', 'opt-level=2', '-C', 'overflow-checks=on', '-A', 'warnings', '-o', exe, src],
                       capture_output=True, text=True, timeout=600)
    if c.returncode != 0:
        return dict(ok=None, fails=[], executions=0, log=log, error='the extracted text does not compile against the plain-Rust carriers: ' + c.stderr[-1500:])
    try:
        r = subprocess.run([exe, *map(str, args)], capture_output=True, text=True, timeout=timeout)
    except subprocess.TimeoutExpired:
        return dict(ok=None, fails=[], executions=0, log=log, error='native driver timed out')
    fails = [l[5:] for l in r.stdout.split('\n') if l.startswith('FAIL ')]
    m = re.search(r'(?m)^OK (\d+)', r.stdout)
    n = int(m.group(1)) if m else 0
    if r.returncode != 0 and not fails:
        return dict(ok=None, fails=[], executions=n, log=log, error=f'native driver exited {r.returncode}: {r.stderr[-800:]}')
    return dict(ok=not fails, fails=fails[:5], executions=n, log=log, error=None)
