import json, jsonschema, glob
s=json.load(open('/root/.vp/MANIFEST.schema.json')); m=json.load(open('/verif/MANIFEST.json'))
jsonschema.validate(m,s); print('manifest valid', len(m['checks']))
es=json.load(open('/root/.vp/EVIDENCE.schema.json'))
for c in m['checks']:
    f=c['evidence_file']
    try:
        e=json.load(open(f)); jsonschema.validate(e,es)
        cov=e['coverage']
        ok = cov['obligations']==cov['discharged'] and e.get('violations',0)==0 and (cov['obligations']>0 if e['level']=='proof' else (len(cov.get('bounded',[]))>0 and all(b['status']=='discharged' for b in cov['bounded'])))
        print(c['property_id'], 'valid', cov['obligations'], cov['discharged'], e['violations'], 'OK' if ok else 'BAD')
    except Exception as ex:
        print(c['property_id'], 'INVALID', str(ex)[:200])
