"""Regenerates MANIFEST.json from contracts/*.py (MANIFEST dicts) + the static header."""
import importlib.util
import json
import os
import sys

VERIF = os.path.dirname(os.path.dirname(os.path.abspath(__file__)))


def main():
    props = [json.loads(l)['id'] for l in open(os.path.join(VERIF, 'properties.jsonl'))]
    checks = []
    na = []
    head = json.load(open(os.path.join(VERIF, 'engine', 'manifest_head.json')))
    for pid in props:
        p = os.path.join(VERIF, 'contracts', f'{pid}.py')
        if not os.path.exists(p):
            na.append(dict(property_id=pid, reason=head['not_applicable_reasons'].get(pid, 'no check built yet for this property (work in progress); nothing is claimed')))
            continue
        spec = importlib.util.spec_from_file_location(f'c_{pid}', p)
        m = importlib.util.module_from_spec(spec)
        spec.loader.exec_module(m)
        if getattr(m, 'DISABLED', False):
            na.append(dict(property_id=pid, reason=m.DISABLED))
            continue
        man = m.MANIFEST
        checks.append(dict(
            property_id=pid,
            quick_cmd=f'./check {pid} --tier quick',
            thorough_cmd=f'./check {pid} --tier thorough',
            evidence_file=f'/verif/evidence/{pid}.json',
            replay_cmd_template=f'./check {pid} --replay {{path}}',
            engine=man.get('engine', 'verus+kani'),
            level_claimed=dict(category=getattr(m, 'LEVEL', 'proof'), text=man['text'], design_ref=man.get('design_ref', f'DESIGN.md section 3/{pid}')),
            level_note=man['note'],
            technique=man['technique'],
        ))
    del head['not_applicable_reasons']
    head['checks'] = checks
    head['not_applicable'] = na
    json.dump(head, open(os.path.join(VERIF, 'MANIFEST.json'), 'w'), indent=1)
    print(f'{len(checks)} checks, {len(na)} not applicable/unclaimed')


if __name__ == '__main__':
    main()
