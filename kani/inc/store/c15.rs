// C15 Single-token pools account for every token exactly once (real `states::market::pool::Pool`).
use crate::states::market::pool::Pool;
use gmsol_model::{Balance, Delta, Pool as _};

/// A pool from three symbolic words; `pure` selects the purity byte; the rest of the first word is padding.
fn any_pool(pure: bool) -> Pool {
    let long: u128 = kani::any();
    let short: u128 = kani::any();
    let flag: u8 = if pure { kani::any() } else { 0 };
    if pure {
        kani::assume(flag != 0);
    }
    bytemuck::cast::<[u128; 3], Pool>([flag as u128, long, short])
}

fn words(p: &Pool) -> [u128; 3] {
    bytemuck::cast::<Pool, [u128; 3]>(*p)
}

/// 256-bit-free check of `a + b == t` for u128 values where the sum may be 2^128-1 at most.
fn sum_is(a: u128, b: u128, t: u128) -> bool {
    a.checked_add(b) == Some(t)
}

#[kani::proof]
fn c15_pure_views_add_up() {
    let p = any_pool(true);
    let w = words(&p);
    kani::assume(w[2] == 0); // wf: a pure pool keeps its short slot at zero (the code's own debug_assert)
    let l = p.long_amount().unwrap();
    let s = p.short_amount().unwrap();
    assert!(sum_is(l, s, w[1]));
    assert!(l == s || l == s + 1);
}

#[kani::proof]
fn c15_impure_views_are_the_fields() {
    let p = any_pool(false);
    let w = words(&p);
    assert!(p.long_amount().unwrap() == w[1]);
    assert!(p.short_amount().unwrap() == w[2]);
}

fn exact(total: u128, d: i128, new_total: u128) -> bool {
    // new_total == total + d over the integers
    if d >= 0 { total.checked_add(d as u128) == Some(new_total) } else { total.checked_sub(d.unsigned_abs()) == Some(new_total) }
}
fn representable(total: u128, d: i128) -> bool {
    if d >= 0 { total.checked_add(d as u128).is_some() } else { total >= d.unsigned_abs() }
}

#[kani::proof]
fn c15_pure_delta_changes_total_exactly() {
    let side_long: bool = kani::any();
    let d: i128 = kani::any();
    let mut p = any_pool(true);
    let before = words(&p);
    kani::assume(before[2] == 0);
    let r = if side_long { p.apply_delta_to_long_amount(&d) } else { p.apply_delta_to_short_amount(&d) };
    let after = words(&p);
    assert!(after[0] == before[0] && after[2] == 0);
    match r {
        Ok(()) => assert!(exact(before[1], d, after[1])),
        Err(_) => {
            assert!(after[1] == before[1]);
            assert!(!representable(before[1], d));
        }
    }
    kani::cover!(r.is_ok() && d < 0);
    kani::cover!(r.is_err());
}

#[kani::proof]
fn c15_impure_delta_touches_one_side() {
    let side_long: bool = kani::any();
    let d: i128 = kani::any();
    let mut p = any_pool(false);
    let before = words(&p);
    let r = if side_long { p.apply_delta_to_long_amount(&d) } else { p.apply_delta_to_short_amount(&d) };
    let after = words(&p);
    let (i, j) = if side_long { (1, 2) } else { (2, 1) };
    assert!(after[0] == before[0] && after[j] == before[j]);
    match r {
        Ok(()) => assert!(exact(before[i], d, after[i])),
        Err(_) => assert!(after[i] == before[i] && !representable(before[i], d)),
    }
}

#[kani::proof]
fn c15_cancel_leaves_parity_remainder() {
    let pure: bool = kani::any();
    let p = any_pool(pure);
    let w = words(&p);
    if pure { kani::assume(w[2] == 0); }
    let c = p.checked_cancel_amounts().unwrap();
    let cw = words(&c);
    assert!(cw[0] == w[0]);
    if pure {
        assert!(cw[1] == w[1] % 2 && cw[2] == 0);
        // netting both views leaves only the parity remainder
        assert!(c.long_amount().unwrap() == w[1] % 2 && c.short_amount().unwrap() == 0);
    } else if w[1] >= w[2] {
        assert!(cw[1] == w[1] - w[2] && cw[2] == 0);
    } else {
        assert!(cw[1] == 0 && cw[2] == w[2] - w[1]);
    }
}

#[kani::proof]
fn c15_checked_apply_delta_is_sequential_application() {
    let pure: bool = kani::any();
    let p = any_pool(pure);
    if pure { kani::assume(words(&p)[2] == 0); }
    let dl: i128 = kani::any();
    let ds: i128 = kani::any();
    let has_l: bool = kani::any();
    let has_s: bool = kani::any();
    let delta = Delta::new(if has_l { Some(&dl) } else { None }, if has_s { Some(&ds) } else { None });
    let r = p.checked_apply_delta(delta);
    let mut q = p;
    let mut ok = true;
    if has_l { ok = q.apply_delta_to_long_amount(&dl).is_ok(); }
    if ok && has_s { ok = q.apply_delta_to_short_amount(&ds).is_ok(); }
    match r {
        Ok(n) => assert!(ok && words(&n) == words(&q)),
        Err(_) => assert!(!ok),
    }
}
