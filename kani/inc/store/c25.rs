// C25 A custom price feed never moves backwards in time or stores an invalid price.
use super::stubs;
use crate::states::{PriceFeed, PriceFeedPrice};
use anchor_lang::prelude::*;

const W: usize = 30; // size_of::<PriceFeed>() / 16

fn feed_words(f: &PriceFeed) -> [u128; W] { bytemuck::cast::<PriceFeed, [u128; W]>(*f) }

#[kani::proof]
#[kani::stub(<Clock as anchor_lang::solana_program::sysvar::Sysvar>::get, stubs::clock_get)]
#[kani::stub(anchor_lang::error::Error::with_values, stubs::with_values_id)]
fn c25_update_contract() {
    let fw: [u128; W] = kani::any();
    let pw: [u128; 4] = kani::any();
    let max_future_excess: u64 = kani::any();
    let idempotent: bool = kani::any();
    let mut feed: PriceFeed = bytemuck::cast(fw);
    let price: PriceFeedPrice = bytemuck::cast(pw);
    let old_ts = feed.price().ts();
    let old_slot = feed.last_published_at_slot();
    let old_published_at = (fw[9] >> 64) as u64 as i64;
    let r = feed.update(&price, max_future_excess, idempotent);
    let after = feed_words(&feed);
    match r {
        Ok(true) => {
            assert!(feed.price().ts() >= old_ts);
            assert!(feed.price().ts() == price.ts());
            assert!(*feed.price().min_price() <= *feed.price().price());
            assert!(*feed.price().price() <= *feed.price().max_price());
            assert!(feed.last_published_at_slot() >= old_slot);
            assert!(((after[9] >> 64) as u64 as i64) >= old_published_at);
            assert!((after[9] as u64) == feed.last_published_at_slot());
            // stored price is exactly the submitted one
            assert!(bytemuck::cast::<PriceFeedPrice, [u128; 4]>(*feed.price()) == pw);
            // nothing but slot / published-at / price changed
            let mut i = 0;
            while i < W {
                if i != 9 && !(i >= 10 && i < 14) { assert!(after[i] == fw[i]); }
                i += 1;
            }
        }
        Ok(false) => {
            assert!(idempotent);
            assert!(price.ts() < old_ts);
            let mut i = 0;
            while i < W { assert!(after[i] == fw[i]); i += 1; }
        }
        Err(_) => {
            let mut i = 0;
            while i < W { assert!(after[i] == fw[i]); i += 1; }
        }
    }
    kani::cover!(matches!(r, Ok(true)));
    kani::cover!(matches!(r, Ok(false)));
    kani::cover!(r.is_err());
}

/// Strict mode never skips silently: an older update is an error.
#[kani::proof]
#[kani::stub(<Clock as anchor_lang::solana_program::sysvar::Sysvar>::get, stubs::clock_get)]
#[kani::stub(anchor_lang::error::Error::with_values, stubs::with_values_id)]
fn c25_strict_mode_rejects_older() {
    let fw: [u128; W] = kani::any();
    let pw: [u128; 4] = kani::any();
    let mut feed: PriceFeed = bytemuck::cast(fw);
    let price: PriceFeedPrice = bytemuck::cast(pw);
    let old_ts = feed.price().ts();
    let r = feed.update(&price, kani::any(), false);
    assert!(!matches!(r, Ok(false)));
    if price.ts() < old_ts { assert!(r.is_err()); }
}

/// The invariant holds initially (zeroed feed) so that, with c25_update_contract, it holds after any sequence.
#[kani::proof]
fn c25_initial_feed_satisfies_invariant() {
    let feed = PriceFeed::default();
    assert!(*feed.price().min_price() <= *feed.price().price() && *feed.price().price() <= *feed.price().max_price());
    assert!(feed.price().ts() == 0);
}
