// C16 (store keys): Store::get_{amount,factor,address}_by_key and the `&str`-keyed mutable accessors.
// The store's three key -> field tables are hand-written matches; every key must address the field NAMED after it
// (pointer identity), and a write through a key changes that field only.
use crate::states::Store;
use gmsol_utils::config::{AddressKey, AmountKey, FactorKey};

fn any_store() -> Box<Store> {
    let mut s: Box<Store> = Box::new(bytemuck::Zeroable::zeroed());
    // amounts: 9 named + 124 reserved u64; factors: 3 named + 63 reserved u128; addresses: 1 named + 30 reserved
    s.amount = bytemuck::cast::<[u64; 133], _>(kani::any());
    s.factor = bytemuck::cast::<[u128; 66], _>(kani::any());
    s.address = bytemuck::cast::<[[u8; 32]; 31], _>(kani::any());
    s
}

macro_rules! amount_keys {
    ($m:ident) => {
        $m! {
            ClaimableTimeWindow => claimable_time_window, "claimable_time_window",
            RecentTimeWindow => recent_time_window, "recent_time_window",
            RequestExpiration => request_expiration, "request_expiration",
            OracleMaxAge => oracle_max_age, "oracle_max_age",
            OracleMaxTimestampRange => oracle_max_timestamp_range, "oracle_max_timestamp_range",
            OracleMaxFutureTimestampExcess => oracle_max_future_timestamp_excess, "oracle_max_future_timestamp_excess",
            AdlPricesMaxStaleness => adl_prices_max_staleness, "adl_prices_max_staleness",
            MinPositionAgeForManualClose => min_position_age_for_manual_close, "min_position_age_for_manual_close",
            MarketClosedPricesMaxStaleness => market_closed_prices_max_staleness, "market_closed_prices_max_staleness",
        }
    };
}

macro_rules! reads {
    ($($key:ident => $field:ident, $name:literal,)*) => {
        fn amount_reads(s: &Store) {
            $( assert!(core::ptr::eq(s.get_amount_by_key(AmountKey::$key).unwrap(), &s.amount.$field), concat!("amount key ", $name)); )*
        }
    };
}
amount_keys!(reads);

/// every key reads the field named after it (all store contents symbolic)
#[kani::proof]
fn c16_store_keys_read_their_named_field() {
    let s = any_store();
    amount_reads(&s);
    assert!(core::ptr::eq(s.get_factor_by_key(FactorKey::OracleRefPriceDeviation).unwrap(), &s.factor.oracle_ref_price_deviation));
    assert!(core::ptr::eq(s.get_factor_by_key(FactorKey::OrderFeeDiscountForReferredUser).unwrap(), &s.factor.order_fee_discount_for_referred_user));
    assert!(core::ptr::eq(s.get_factor_by_key(FactorKey::MaxBuilderFeeFactor).unwrap(), &s.factor.max_builder_fee_factor));
    assert!(core::ptr::eq(s.get_address_by_key(AddressKey::Holding).unwrap(), &s.address.holding));
}

macro_rules! writes {
    ($($key:ident => $field:ident, $name:literal,)*) => {
        fn amount_write(s: &mut Store, which: u8, v: u64) -> bool {
            let mut k = 0u8;
            $( if which == k {
                   return match s.get_amount_mut($name) { Ok(slot) => { *slot = v; true } Err(_) => false };
               }
               k += 1; )*
            let _ = k;
            false
        }
        fn amount_expect(before: &[u64; 133], which: u8, v: u64) -> [u64; 133] {
            // the named fields are the first nine words of `Amounts`, in declaration order
            let mut e = *before;
            let mut k = 0u8;
            $( if which == k { e[k as usize] = v; let _ = $name; } k += 1; )*
            let _ = k;
            e
        }
    };
}
amount_keys!(writes);

/// a write through a (string) key changes exactly the word of the field named after it; `claimable_time_window` is write-protected
#[kani::proof]
#[kani::unwind(140)]
#[kani::stub(anchor_lang::error::Error::with_values, super::stubs::with_values_id)]
fn c16_store_amount_keys_write_their_named_field_only() {
    let mut s = any_store();
    let before: [u64; 133] = bytemuck::cast(s.amount);
    let factors_before: [u128; 66] = bytemuck::cast(s.factor);
    let which: u8 = kani::any();
    kani::assume(which < 9);
    let v: u64 = kani::any();
    let ok = amount_write(&mut s, which, v);
    let after: [u64; 133] = bytemuck::cast(s.amount);
    let factors_after: [u128; 66] = bytemuck::cast(s.factor);
    assert!(ok == (which != 0));
    let expect = if ok { amount_expect(&before, which, v) } else { before };
    let mut i = 0;
    while i < 133 {
        assert!(after[i] == expect[i]);
        i += 1;
    }
    let mut j = 0;
    while j < 66 {
        assert!(factors_after[j] == factors_before[j]);
        j += 1;
    }
    // and it is read back through the key
    if ok {
        assert!(which != 3 || *s.get_amount_by_key(AmountKey::OracleMaxAge).unwrap() == v);
        assert!(which != 8 || *s.get_amount_by_key(AmountKey::MarketClosedPricesMaxStaleness).unwrap() == v);
    }
}

/// the three factor keys, by string (a CONSTANT string per branch: a symbolic key string makes `from_str` unbounded): each writes its own word only
#[kani::proof]
#[kani::unwind(70)]
fn c16_store_factor_keys_write_their_named_field_only() {
    let mut s = any_store();
    let before: [u128; 66] = bytemuck::cast(s.factor);
    let amounts_before: [u64; 133] = bytemuck::cast(s.amount);
    let which: u8 = kani::any();
    kani::assume(which < 3);
    let v: u128 = kani::any();
    if which == 0 {
        *s.get_factor_mut("oracle_ref_price_deviation").unwrap() = v;
    } else if which == 1 {
        *s.get_factor_mut("order_fee_discount_for_referred_user").unwrap() = v;
    } else {
        *s.get_factor_mut("max_builder_fee_factor").unwrap() = v;
    }
    let after: [u128; 66] = bytemuck::cast(s.factor);
    let amounts_after: [u64; 133] = bytemuck::cast(s.amount);
    let mut j = 0;
    while j < 66 {
        assert!(after[j] == (if j == which as usize { v } else { before[j] }));
        j += 1;
    }
    assert!(amounts_after[0] == amounts_before[0] && amounts_after[3] == amounts_before[3] && amounts_after[8] == amounts_before[8]);
    assert!(which != 1 || *s.get_factor_by_key(FactorKey::OrderFeeDiscountForReferredUser).unwrap() == v);
}
