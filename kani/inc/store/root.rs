// Harness modules for gmsol-store, included under #[cfg(kani)] by the hook in programs/store/src/lib.rs.

macro_rules! verif_mod {
    ($name:ident, $file:literal) => {
        mod $name {
            include!(concat!(env!("GMSOL_VERIF_DIR"), "/kani/inc/store/", $file));
        }
    };
}

/// Shared stubs (see DESIGN 2.5).
pub(crate) mod stubs {
    use anchor_lang::prelude::*;

    /// Sysvar stub: a fully symbolic clock.
    pub fn clock_get() -> core::result::Result<Clock, ProgramError> {
        Ok(Clock {
            slot: kani::any(),
            epoch_start_timestamp: kani::any(),
            epoch: kani::any(),
            leader_schedule_epoch: kani::any(),
            unix_timestamp: kani::any(),
        })
    }

    /// `require_*!` error paths format both operands; values in an error message are not part of
    /// any contract. The stub returns the error unchanged.
    pub fn with_values_id<A, B>(e: anchor_lang::error::Error, _values: (A, B)) -> anchor_lang::error::Error {
        e
    }
}

verif_mod!(c15, "c15.rs");
verif_mod!(c25, "c25.rs");
verif_mod!(c16_store, "c16_store.rs");
