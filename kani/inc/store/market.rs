// Harness modules living inside `gmsol_store::states::market` (hook in states/market/mod.rs), so
// that `pub(super)` items of that module (MarketConfig::get/get_mut, Pools::get, Market.config) are
// in reach. Nothing here is compiled unless `--cfg kani`.

include!(concat!(env!("GMSOL_VERIF_DIR"), "/kani/inc/store/keys.rs"));

pub(crate) mod vstubs {
    use anchor_lang::prelude::*;
    pub fn clock_get() -> core::result::Result<Clock, ProgramError> {
        Ok(Clock { slot: kani::any(), epoch_start_timestamp: kani::any(), epoch: kani::any(), leader_schedule_epoch: kani::any(), unix_timestamp: kani::any() })
    }
    pub fn with_values_id<A, B>(e: anchor_lang::error::Error, _values: (A, B)) -> anchor_lang::error::Error { e }
}

mod c17 {
    use super::super::{config::{MarketConfig, MarketConfigFlag, MarketConfigKey}, pool::Pool, Market};
    use super::vstubs;
    use crate::constants::*;
    use anchor_lang::prelude::*;
    use gmsol_model::PoolKind;
    use gmsol_utils::market::MarketFlag;

    const POOL_KINDS: [PoolKind; 16] = [
        PoolKind::Primary, PoolKind::SwapImpact, PoolKind::ClaimableFee, PoolKind::OpenInterestForLong,
        PoolKind::OpenInterestForShort, PoolKind::OpenInterestInTokensForLong, PoolKind::OpenInterestInTokensForShort,
        PoolKind::PositionImpact, PoolKind::BorrowingFactor, PoolKind::FundingAmountPerSizeForLong,
        PoolKind::FundingAmountPerSizeForShort, PoolKind::ClaimableFundingAmountPerSizeForLong,
        PoolKind::ClaimableFundingAmountPerSizeForShort, PoolKind::CollateralSumForLong, PoolKind::CollateralSumForShort,
        PoolKind::TotalBorrowing,
    ];

    fn init_market(pure: bool) -> Box<Market> {
        let mut m: Box<Market> = Box::new(bytemuck::Zeroable::zeroed());
        let long = Pubkey::new_from_array(kani::any());
        let short = if pure { long } else { Pubkey::new_from_array(kani::any()) };
        if !pure { kani::assume(long != short); }
        let enabled: bool = kani::any();
        m.init(kani::any(), Pubkey::new_from_array(kani::any()), "m", Pubkey::new_from_array(kani::any()),
               Pubkey::new_from_array(kani::any()), long, short, enabled).unwrap();
        assert!(m.is_enabled() == enabled);
        m
    }

    fn check_pools(m: &Market, pure: bool) {
        assert!(m.is_pure() == pure);
        assert!(m.flag(MarketFlag::Pure) == pure);
        let mut i = 0;
        while i < 16 {
            let kind = POOL_KINDS[i];
            let p: Pool = m.pool(kind).unwrap();
            let w = bytemuck::cast::<Pool, [u128; 3]>(p);
            let always_impure = matches!(kind, PoolKind::PositionImpact | PoolKind::BorrowingFactor | PoolKind::TotalBorrowing);
            let expect_pure = pure && !always_impure;
            assert!(((w[0] as u8) != 0) == expect_pure);
            assert!(w[1] == 0 && w[2] == 0); // all pool amounts start at zero
            i += 1;
        }
    }

    macro_rules! check_defaults {
        ($($key:ident => $c:ident,)*) => {
            fn check_config_defaults(m: &Market) {
                $( assert!(m.get_config_by_key(MarketConfigKey::$key) == Some(&$c), concat!("default of ", stringify!($key), " is ", stringify!($c))); )*
            }
        };
    }
    for_each_key_default!(check_defaults);

    fn check_flags(m: &Market) {
        assert!(m.get_config_flag_by_key(MarketConfigFlag::SkipBorrowingFeeForSmallerSide) == DEFAULT_SKIP_BORROWING_FEE_FOR_SMALLER_SIDE);
        assert!(m.get_config_flag_by_key(MarketConfigFlag::MarketClosedSkipBorrowingFeeForSmallerSide) == DEFAULT_SKIP_BORROWING_FEE_FOR_SMALLER_SIDE);
        assert!(m.get_config_flag_by_key(MarketConfigFlag::IgnoreOpenInterestForUsageFactor) == DEFAULT_IGNORE_OPEN_INTEREST_FOR_USAGE_FACTOR);
        assert!(!m.get_config_flag_by_key(MarketConfigFlag::EnableMarketClosedParams));
        assert!(!m.is_closed());
    }

    #[kani::proof]
    #[kani::unwind(70)]
    #[kani::stub(<Clock as anchor_lang::solana_program::sysvar::Sysvar>::get, vstubs::clock_get)]
    #[kani::stub(anchor_lang::error::Error::with_values, vstubs::with_values_id)]
    fn c17_init_config_defaults() {
        let pure: bool = kani::any();
        let m = init_market(pure);
        check_config_defaults(&m);
        check_flags(&m);
    }

    #[kani::proof]
    #[kani::unwind(70)]
    #[kani::stub(<Clock as anchor_lang::solana_program::sysvar::Sysvar>::get, vstubs::clock_get)]
    #[kani::stub(anchor_lang::error::Error::with_values, vstubs::with_values_id)]
    fn c17_init_pools_pure() {
        let m = init_market(true);
        check_pools(&m, true);
    }

    #[kani::proof]
    #[kani::unwind(70)]
    #[kani::stub(<Clock as anchor_lang::solana_program::sysvar::Sysvar>::get, vstubs::clock_get)]
    #[kani::stub(anchor_lang::error::Error::with_values, vstubs::with_values_id)]
    fn c17_init_pools_impure() {
        let m = init_market(false);
        check_pools(&m, false);
    }
}

mod c16 {
    use super::super::{config::{MarketConfig, MarketConfigFlag, MarketConfigKey}, Market};
    use crate::constants::*;
    use gmsol_utils::market::MarketFlag;

    pub const CW: usize = core::mem::size_of::<MarketConfig>() / 16;

    macro_rules! key_list {
        ($($key:ident => $c:ident,)*) => {
            pub const KEYS: &[MarketConfigKey] = &[$(MarketConfigKey::$key,)*];
        };
    }
    for_each_key_default!(key_list);
    pub const NK: usize = 66;

    /// write-one-key / read-every-key on an ARBITRARY MarketConfig (every word symbolic).
    /// One harness per block of keys keeps each CBMC run small; together they cover all keys.
    fn write_read_frame(lo: usize, hi: usize) {
        assert!(KEYS.len() == NK);
        let words: [u128; CW] = kani::any();
        let base: MarketConfig = bytemuck::cast(words);
        let v: u128 = kani::any();
        let mut k = lo;
        while k < hi {
            let mut c = base;
            *c.get_mut(KEYS[k]).unwrap() = v;
            let mut j = 0;
            while j < NK {
                let got = *c.get(KEYS[j]).unwrap();
                if j == k { assert!(got == v); } else { assert!(got == *base.get(KEYS[j]).unwrap()); }
                j += 1;
            }
            // word-level frame: exactly the words of the base, except at most one, and the flag word untouched
            let after = bytemuck::cast::<MarketConfig, [u128; CW]>(c);
            let mut changed = 0usize;
            let mut w = 0;
            while w < CW { if after[w] != words[w] { changed += 1; } w += 1; }
            assert!(changed <= 1);
            assert!(after[0] == words[0]);
            k += 1;
        }
    }

    #[kani::proof] #[kani::unwind(140)] fn c16_config_keys_block0() { write_read_frame(0, 11); }
    #[kani::proof] #[kani::unwind(140)] fn c16_config_keys_block1() { write_read_frame(11, 22); }
    #[kani::proof] #[kani::unwind(140)] fn c16_config_keys_block2() { write_read_frame(22, 33); }
    #[kani::proof] #[kani::unwind(140)] fn c16_config_keys_block3() { write_read_frame(33, 44); }
    #[kani::proof] #[kani::unwind(140)] fn c16_config_keys_block4() { write_read_frame(44, 55); }
    #[kani::proof] #[kani::unwind(140)] fn c16_config_keys_block5() { write_read_frame(55, 66); }

    /// distinct keys name distinct settings: two different keys never alias the same storage word
    #[kani::proof]
    #[kani::unwind(140)]
    fn c16_config_keys_distinct_storage() {
        let base: MarketConfig = bytemuck::Zeroable::zeroed();
        let mut k = 0;
        while k < NK {
            let mut c = base;
            *c.get_mut(KEYS[k]).unwrap() = (k as u128) + 1;
            let after = bytemuck::cast::<MarketConfig, [u128; CW]>(c);
            // slot index of key k is k+1 (declaration order after the flag word): pins the account layout
            assert!(after[k + 1] == (k as u128) + 1);
            k += 1;
        }
    }

    /// every discriminant beyond the table is rejected, so a new key cannot be silently skipped
    #[kani::proof]
    fn c16_key_count_guard() {
        let d: u16 = kani::any();
        let r = MarketConfigKey::try_from(d);
        if (d as usize) < NK { assert!(r.is_ok() && KEYS[d as usize] == r.unwrap()); } else { assert!(r.is_err()); }
    }

    const CFLAGS: [MarketConfigFlag; 4] = [MarketConfigFlag::SkipBorrowingFeeForSmallerSide, MarketConfigFlag::IgnoreOpenInterestForUsageFactor,
        MarketConfigFlag::EnableMarketClosedParams, MarketConfigFlag::MarketClosedSkipBorrowingFeeForSmallerSide];

    #[kani::proof]
    #[kani::unwind(140)]
    fn c16_config_flags_write_read_frame() {
        let words: [u128; CW] = kani::any();
        let base: MarketConfig = bytemuck::cast(words);
        let v: bool = kani::any();
        let mut k = 0;
        while k < 4 {
            let mut c = base;
            let prev = c.set_flag(CFLAGS[k], v);
            assert!(prev == base.flag(CFLAGS[k]));
            let mut j = 0;
            while j < 4 {
                if j == k { assert!(c.flag(CFLAGS[j]) == v); } else { assert!(c.flag(CFLAGS[j]) == base.flag(CFLAGS[j])); }
                j += 1;
            }
            let after = bytemuck::cast::<MarketConfig, [u128; CW]>(c);
            // only bit k of the flag word may differ; every factor word untouched
            assert!((after[0] ^ words[0]) & !(1u128 << k) == 0);
            let mut w = 1;
            while w < CW { assert!(after[w] == words[w]); w += 1; }
            k += 1;
        }
    }

    fn mflag(i: usize) -> MarketFlag {
        match i { 0 => MarketFlag::Enabled, 1 => MarketFlag::Pure, 2 => MarketFlag::AutoDeleveragingEnabledForLong,
                  3 => MarketFlag::AutoDeleveragingEnabledForShort, 4 => MarketFlag::GTEnabled, _ => MarketFlag::Closed }
    }

    #[kani::proof]
    #[kani::unwind(8)]
    fn c16_market_flags_write_read_frame() {
        let mut m: Box<Market> = Box::new(bytemuck::Zeroable::zeroed());
        let bits: u8 = kani::any();
        m.flags = super::super::MarketFlagContainer::from_value(bits);
        let v: bool = kani::any();
        let mut k = 0;
        while k < 6 {
            let mut c = m.flags;
            let before = c;
            c.set_flag(mflag(k), v);
            let mut j = 0;
            while j < 6 {
                if j == k { assert!(c.get_flag(mflag(j)) == v); } else { assert!(c.get_flag(mflag(j)) == before.get_flag(mflag(j))); }
                j += 1;
            }
            k += 1;
        }
        // named accessors read their own flag
        assert!(m.is_enabled() == m.flag(MarketFlag::Enabled));
        assert!(m.is_pure() == m.flag(MarketFlag::Pure));
        assert!(m.is_closed() == m.flag(MarketFlag::Closed));
        assert!(m.is_adl_enabled(true) == m.flag(MarketFlag::AutoDeleveragingEnabledForLong));
        assert!(m.is_adl_enabled(false) == m.flag(MarketFlag::AutoDeleveragingEnabledForShort));
        assert!(m.is_gt_minting_enabled() == m.flag(MarketFlag::GTEnabled));
    }

    /// Market-level wrappers delegate to the same key (zeroed market, symbolic value, all keys).
    #[kani::proof]
    #[kani::unwind(70)]
    fn c16_market_wrappers_delegate() {
        let mut m: Box<Market> = Box::new(bytemuck::Zeroable::zeroed());
        let v: u128 = kani::any();
        let mut k = 0;
        while k < NK {
            *m.get_config_by_key_mut(KEYS[k]).unwrap() = v;
            assert!(*m.get_config_by_key(KEYS[k]).unwrap() == v);
            assert!(*m.config.get(KEYS[k]).unwrap() == v);
            *m.get_config_by_key_mut(KEYS[k]).unwrap() = 0;
            k += 1;
        }
    }
}

mod c16_model {
    // "... and through the market-model parameter it names": each key, written with a symbolic
    // value on a zeroed market, is what the model accessor NAMED BY THE KEY returns -- and the
    // opposite side's accessor (long vs short) still returns the zero background.
    use super::super::{config::{MarketConfigFlag, MarketConfigKey as K}, Market};
    use gmsol_model::{BaseMarket, BorrowingFeeMarket, PerpMarket, PnlFactorKind, PositionImpactMarket, SwapMarket};
    use gmsol_utils::market::MarketFlag;

    macro_rules! row {
        ($m:ident, $v:ident, $key:ident, $same:expr $(, other = $other:expr)?) => {{
            *$m.get_config_by_key_mut(K::$key).unwrap() = $v;
            assert!($same == $v, concat!("key ", stringify!($key), " feeds its model parameter"));
            $( assert!($other == 0, concat!("key ", stringify!($key), " does not feed the opposite side")); )?
            *$m.get_config_by_key_mut(K::$key).unwrap() = 0;
        }};
    }

    #[kani::proof]
    fn c16_model_params_swap_position_fees() {
        let mut m: Box<Market> = Box::new(bytemuck::Zeroable::zeroed());
        let v: u128 = kani::any();
        kani::assume(v != 0);
        row!(m, v, SwapImpactExponent, *m.swap_impact_params().unwrap().exponent());
        row!(m, v, SwapImpactPositiveFactor, *m.swap_impact_params().unwrap().positive_factor(), other = *m.swap_impact_params().unwrap().negative_factor());
        row!(m, v, SwapImpactNegativeFactor, *m.swap_impact_params().unwrap().negative_factor(), other = *m.swap_impact_params().unwrap().positive_factor());
        row!(m, v, SwapFeeReceiverFactor, *m.swap_fee_params().unwrap().receiver_factor(), other = *m.order_fee_params().unwrap().receiver_factor());
        row!(m, v, OrderFeeReceiverFactor, *m.order_fee_params().unwrap().receiver_factor(), other = *m.swap_fee_params().unwrap().receiver_factor());
        row!(m, v, MinPositionSizeUsd, *m.position_params().unwrap().min_position_size_usd());
        row!(m, v, MinCollateralValue, *m.position_params().unwrap().min_collateral_value());
        row!(m, v, MinCollateralFactor, *m.position_params().unwrap().min_collateral_factor());
        row!(m, v, MinCollateralFactorForOpenInterestMultiplierForLong, m.min_collateral_factor_for_open_interest_multiplier(true).unwrap(), other = m.min_collateral_factor_for_open_interest_multiplier(false).unwrap());
        row!(m, v, MinCollateralFactorForOpenInterestMultiplierForShort, m.min_collateral_factor_for_open_interest_multiplier(false).unwrap(), other = m.min_collateral_factor_for_open_interest_multiplier(true).unwrap());
        row!(m, v, MaxPositivePositionImpactFactor, *m.position_params().unwrap().max_positive_position_impact_factor(), other = *m.position_params().unwrap().max_negative_position_impact_factor());
        row!(m, v, MaxNegativePositionImpactFactor, *m.position_params().unwrap().max_negative_position_impact_factor(), other = *m.position_params().unwrap().max_positive_position_impact_factor());
        row!(m, v, MaxPositionImpactFactorForLiquidations, *m.position_params().unwrap().max_position_impact_factor_for_liquidations());
        row!(m, v, PositionImpactExponent, *m.position_impact_params().unwrap().exponent());
        row!(m, v, PositionImpactPositiveFactor, *m.position_impact_params().unwrap().positive_factor(), other = *m.position_impact_params().unwrap().negative_factor());
        row!(m, v, PositionImpactNegativeFactor, *m.position_impact_params().unwrap().negative_factor(), other = *m.position_impact_params().unwrap().positive_factor());
        row!(m, v, PositionImpactDistributeFactor, *m.position_impact_distribution_params().unwrap().distribute_factor());
        row!(m, v, MinPositionImpactPoolAmount, *m.position_impact_distribution_params().unwrap().min_position_impact_pool_amount());
    }

    #[kani::proof]
    fn c16_model_params_borrowing_funding() {
        let mut m: Box<Market> = Box::new(bytemuck::Zeroable::zeroed());
        let v: u128 = kani::any();
        kani::assume(v != 0);
        row!(m, v, BorrowingFeeReceiverFactor, *m.borrowing_fee_params().unwrap().receiver_factor());
        row!(m, v, BorrowingFeeFactorForLong, *m.borrowing_fee_params().unwrap().factor(true), other = *m.borrowing_fee_params().unwrap().factor(false));
        row!(m, v, BorrowingFeeFactorForShort, *m.borrowing_fee_params().unwrap().factor(false), other = *m.borrowing_fee_params().unwrap().factor(true));
        row!(m, v, BorrowingFeeExponentForLong, *m.borrowing_fee_params().unwrap().exponent(true), other = *m.borrowing_fee_params().unwrap().exponent(false));
        row!(m, v, BorrowingFeeExponentForShort, *m.borrowing_fee_params().unwrap().exponent(false), other = *m.borrowing_fee_params().unwrap().exponent(true));
        row!(m, v, BorrowingFeeOptimalUsageFactorForLong, *m.borrowing_fee_kink_model_params().unwrap().optimal_usage_factor(true), other = *m.borrowing_fee_kink_model_params().unwrap().optimal_usage_factor(false));
        row!(m, v, BorrowingFeeOptimalUsageFactorForShort, *m.borrowing_fee_kink_model_params().unwrap().optimal_usage_factor(false), other = *m.borrowing_fee_kink_model_params().unwrap().optimal_usage_factor(true));
        row!(m, v, BorrowingFeeBaseFactorForLong, *m.borrowing_fee_kink_model_params().unwrap().base_borrowing_factor(true), other = *m.borrowing_fee_kink_model_params().unwrap().base_borrowing_factor(false));
        row!(m, v, BorrowingFeeBaseFactorForShort, *m.borrowing_fee_kink_model_params().unwrap().base_borrowing_factor(false), other = *m.borrowing_fee_kink_model_params().unwrap().base_borrowing_factor(true));
        row!(m, v, BorrowingFeeAboveOptimalUsageFactorForLong, *m.borrowing_fee_kink_model_params().unwrap().above_optimal_usage_borrowing_factor(true), other = *m.borrowing_fee_kink_model_params().unwrap().above_optimal_usage_borrowing_factor(false));
        row!(m, v, BorrowingFeeAboveOptimalUsageFactorForShort, *m.borrowing_fee_kink_model_params().unwrap().above_optimal_usage_borrowing_factor(false), other = *m.borrowing_fee_kink_model_params().unwrap().above_optimal_usage_borrowing_factor(true));
        row!(m, v, FundingFeeExponent, *m.funding_fee_params().unwrap().exponent());
        row!(m, v, FundingFeeFactor, *m.funding_fee_params().unwrap().factor());
        row!(m, v, FundingFeeMaxFactorPerSecond, *m.funding_fee_params().unwrap().max_factor_per_second(), other = *m.funding_fee_params().unwrap().min_factor_per_second());
        row!(m, v, FundingFeeMinFactorPerSecond, *m.funding_fee_params().unwrap().min_factor_per_second(), other = *m.funding_fee_params().unwrap().max_factor_per_second());
        row!(m, v, FundingFeeIncreaseFactorPerSecond, *m.funding_fee_params().unwrap().increase_factor_per_second(), other = *m.funding_fee_params().unwrap().decrease_factor_per_second());
        row!(m, v, FundingFeeDecreaseFactorPerSecond, *m.funding_fee_params().unwrap().decrease_factor_per_second(), other = *m.funding_fee_params().unwrap().increase_factor_per_second());
        row!(m, v, FundingFeeThresholdForStableFunding, *m.funding_fee_params().unwrap().threshold_for_stable_funding(), other = *m.funding_fee_params().unwrap().threshold_for_decrease_funding());
        row!(m, v, FundingFeeThresholdForDecreaseFunding, *m.funding_fee_params().unwrap().threshold_for_decrease_funding(), other = *m.funding_fee_params().unwrap().threshold_for_stable_funding());
    }

    #[kani::proof]
    fn c16_model_params_limits() {
        let mut m: Box<Market> = Box::new(bytemuck::Zeroable::zeroed());
        let v: u128 = kani::any();
        kani::assume(v != 0);
        row!(m, v, ReserveFactor, m.reserve_factor().unwrap(), other = m.open_interest_reserve_factor().unwrap());
        row!(m, v, OpenInterestReserveFactor, m.open_interest_reserve_factor().unwrap(), other = m.reserve_factor().unwrap());
        row!(m, v, MaxPnlFactorForLongDeposit, m.pnl_factor_config(PnlFactorKind::MaxAfterDeposit, true).unwrap(), other = m.pnl_factor_config(PnlFactorKind::MaxAfterDeposit, false).unwrap());
        row!(m, v, MaxPnlFactorForShortDeposit, m.pnl_factor_config(PnlFactorKind::MaxAfterDeposit, false).unwrap(), other = m.pnl_factor_config(PnlFactorKind::MaxAfterDeposit, true).unwrap());
        row!(m, v, MaxPnlFactorForLongWithdrawal, m.pnl_factor_config(PnlFactorKind::MaxAfterWithdrawal, true).unwrap(), other = m.pnl_factor_config(PnlFactorKind::MaxAfterWithdrawal, false).unwrap());
        row!(m, v, MaxPnlFactorForShortWithdrawal, m.pnl_factor_config(PnlFactorKind::MaxAfterWithdrawal, false).unwrap(), other = m.pnl_factor_config(PnlFactorKind::MaxAfterWithdrawal, true).unwrap());
        row!(m, v, MaxPnlFactorForLongTrader, m.pnl_factor_config(PnlFactorKind::MaxForTrader, true).unwrap(), other = m.pnl_factor_config(PnlFactorKind::MaxForTrader, false).unwrap());
        row!(m, v, MaxPnlFactorForShortTrader, m.pnl_factor_config(PnlFactorKind::MaxForTrader, false).unwrap(), other = m.pnl_factor_config(PnlFactorKind::MaxForTrader, true).unwrap());
        row!(m, v, MaxPnlFactorForLongAdl, m.pnl_factor_config(PnlFactorKind::ForAdl, true).unwrap(), other = m.pnl_factor_config(PnlFactorKind::ForAdl, false).unwrap());
        row!(m, v, MaxPnlFactorForShortAdl, m.pnl_factor_config(PnlFactorKind::ForAdl, false).unwrap(), other = m.pnl_factor_config(PnlFactorKind::ForAdl, true).unwrap());
        row!(m, v, MinPnlFactorAfterLongAdl, m.pnl_factor_config(PnlFactorKind::MinAfterAdl, true).unwrap(), other = m.pnl_factor_config(PnlFactorKind::MinAfterAdl, false).unwrap());
        row!(m, v, MinPnlFactorAfterShortAdl, m.pnl_factor_config(PnlFactorKind::MinAfterAdl, false).unwrap(), other = m.pnl_factor_config(PnlFactorKind::MinAfterAdl, true).unwrap());
        row!(m, v, MaxPoolAmountForLongToken, m.max_pool_amount(true).unwrap(), other = m.max_pool_amount(false).unwrap());
        row!(m, v, MaxPoolAmountForShortToken, m.max_pool_amount(false).unwrap(), other = m.max_pool_amount(true).unwrap());
        row!(m, v, MaxPoolValueForDepositForLongToken, m.max_pool_value_for_deposit(true).unwrap(), other = m.max_pool_value_for_deposit(false).unwrap());
        row!(m, v, MaxPoolValueForDepositForShortToken, m.max_pool_value_for_deposit(false).unwrap(), other = m.max_pool_value_for_deposit(true).unwrap());
        row!(m, v, MaxOpenInterestForLong, m.max_open_interest(true).unwrap(), other = m.max_open_interest(false).unwrap());
        row!(m, v, MaxOpenInterestForShort, m.max_open_interest(false).unwrap(), other = m.max_open_interest(true).unwrap());
    }

    /// closed-market parameter switch: the MarketClosed* keys feed the model iff the market is closed
    /// AND EnableMarketClosedParams is set; otherwise the open-market keys do.
    #[kani::proof]
    fn c16_model_params_closed_market_switch() {
        let mut m: Box<Market> = Box::new(bytemuck::Zeroable::zeroed());
        let closed: bool = kani::any();
        let enabled: bool = kani::any();
        m.set_flag(MarketFlag::Closed, closed);
        m.set_config_flag_by_key(MarketConfigFlag::EnableMarketClosedParams, enabled);
        let vals: [u128; 8] = kani::any();
        kani::assume(vals[0] != 0 && vals[1] != 0);
        *m.get_config_by_key_mut(K::MinCollateralFactorForLiquidation).unwrap() = vals[0];
        *m.get_config_by_key_mut(K::MarketClosedMinCollateralFactorForLiquidation).unwrap() = vals[1];
        *m.get_config_by_key_mut(K::BorrowingFeeBaseFactorForLong).unwrap() = vals[2];
        *m.get_config_by_key_mut(K::BorrowingFeeBaseFactorForShort).unwrap() = vals[3];
        *m.get_config_by_key_mut(K::MarketClosedBorrowingFeeBaseFactor).unwrap() = vals[4];
        *m.get_config_by_key_mut(K::BorrowingFeeAboveOptimalUsageFactorForLong).unwrap() = vals[5];
        *m.get_config_by_key_mut(K::BorrowingFeeAboveOptimalUsageFactorForShort).unwrap() = vals[6];
        *m.get_config_by_key_mut(K::MarketClosedBorrowingFeeAboveOptimalUsageFactor).unwrap() = vals[7];
        let skip_open: bool = kani::any();
        let skip_closed: bool = kani::any();
        m.set_config_flag_by_key(MarketConfigFlag::SkipBorrowingFeeForSmallerSide, skip_open);
        m.set_config_flag_by_key(MarketConfigFlag::MarketClosedSkipBorrowingFeeForSmallerSide, skip_closed);
        let use_closed = closed && enabled;
        let pp = m.position_params().unwrap();
        let kink = m.borrowing_fee_kink_model_params().unwrap();
        let bp = m.borrowing_fee_params().unwrap();
        if use_closed {
            assert!(*pp.min_collateral_factor_for_liquidation() == vals[1]);
            assert!(*kink.base_borrowing_factor(true) == vals[4] && *kink.base_borrowing_factor(false) == vals[4]);
            assert!(*kink.above_optimal_usage_borrowing_factor(true) == vals[7] && *kink.above_optimal_usage_borrowing_factor(false) == vals[7]);
            assert!(bp.skip_borrowing_fee_for_smaller_side() == skip_closed);
        } else {
            assert!(*pp.min_collateral_factor_for_liquidation() == vals[0]);
            assert!(*kink.base_borrowing_factor(true) == vals[2] && *kink.base_borrowing_factor(false) == vals[3]);
            assert!(*kink.above_optimal_usage_borrowing_factor(true) == vals[5] && *kink.above_optimal_usage_borrowing_factor(false) == vals[6]);
            assert!(bp.skip_borrowing_fee_for_smaller_side() == skip_open);
        }
        let ignore: bool = kani::any();
        m.set_config_flag_by_key(MarketConfigFlag::IgnoreOpenInterestForUsageFactor, ignore);
        assert!(m.ignore_open_interest_for_usage_factor().unwrap() == ignore);
        kani::cover!(use_closed);
        kani::cover!(closed && !enabled);
    }
}
