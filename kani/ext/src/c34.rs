//! C34: fixed-capacity maps behave like sorted maps until full.
//! A real instance of the exported macro `gmsol_utils::fixed_map!` (same macro body as RoleMap / Members / the token maps),
//! with the capacity and the key width reduced through the macro's own parameters: capacity 4, 8-byte keys, u64 values.
//! Each harness is ONE operation on an ARBITRARY well-formed map (the state is symbolic bytes constrained only by the
//! representation invariant), so it is the inductive step for histories of any length at this capacity.
use anchor_lang::prelude::*;

fn key8(k: &u64) -> [u8; 8] {
    k.to_be_bytes()
}

gmsol_utils::fixed_map!(M8, 8, u64, key8, u64, 4, 4);

const CAP: usize = 4;

/// representation invariant: count <= capacity, keys of the live prefix strictly increasing (dead slots are arbitrary: the
/// statement says nothing about them)
fn wf(m: &M8) -> bool {
    let n = m.count as usize;
    if n > CAP {
        return false;
    }
    let mut ok = true;
    for i in 0..CAP {
        if i + 1 < n && !(m.data[i].key < m.data[i + 1].key) {
            ok = false;
        }
    }
    ok
}

/// abstract lookup: linear scan of the live prefix
fn lookup(m: &M8, k: u64) -> Option<u64> {
    let kb = key8(&k);
    let n = m.count as usize;
    let mut r = None;
    for i in 0..CAP {
        if i < n && m.data[i].key == kb {
            r = Some(m.data[i].value);
        }
    }
    r
}

fn any_wf_map() -> M8 {
    let words: [u64; 9] = kani::any();
    let m: M8 = bytemuck::cast(words);
    kani::assume(wf(&m));
    m
}

#[kani::proof]
#[kani::unwind(10)]
fn c34_get_len() {
    let m = any_wf_map();
    let k: u64 = kani::any();
    assert!(m.get(&k).copied() == lookup(&m, k));
    assert!(m.len() == m.count as usize);
    assert!(m.is_empty() == (m.count == 0));
    kani::cover!(m.get(&k).is_some() && m.count == 4);
    kani::cover!(m.get(&k).is_none() && m.count == 4);
}

#[kani::proof]
#[kani::unwind(10)]
fn c34_get_mut() {
    let mut m = any_wf_map();
    let old = m;
    let k: u64 = kani::any();
    let w: u64 = kani::any();
    let q: u64 = kani::any(); // probe key (the frame: every other key keeps its value)
    match m.get_mut(&k) {
        Some(v) => {
            assert!(Some(*v) == lookup(&old, k));
            *v = w;
        }
        None => assert!(lookup(&old, k).is_none()),
    }
    assert!(wf(&m));
    assert!(m.count == old.count);
    let want = if q == k && lookup(&old, k).is_some() { Some(w) } else { lookup(&old, q) };
    assert!(lookup(&m, q) == want);
    kani::cover!(lookup(&old, k).is_some());
}

#[kani::proof]
#[kani::unwind(10)]
fn c34_insert() {
    let mut m = any_wf_map();
    let old = m;
    let k: u64 = kani::any();
    let v: u64 = kani::any();
    let new: bool = kani::any();
    let q: u64 = kani::any();
    let r = m.insert_with_options(&k, v, new);
    let had = lookup(&old, k);
    match &r {
        Ok(prev) => {
            // an existing key is overwritten only when `new` is false; a fresh key needs a free slot
            assert!(*prev == had);
            assert!(!(had.is_some() && new));
            assert!(had.is_some() || (old.count as usize) < CAP);
            assert!(wf(&m));
            assert!(m.count == old.count + if had.is_some() { 0 } else { 1 });
            assert!(lookup(&m, q) == if q == k { Some(v) } else { lookup(&old, q) });
        }
        Err(_) => {
            // fails exactly for a duplicate with `new`, or a fresh key into a full map; nothing changes
            assert!((had.is_some() && new) || (had.is_none() && old.count as usize >= CAP));
            assert!(m.count == old.count);
            assert!(lookup(&m, q) == lookup(&old, q));
            assert!(wf(&m));
        }
    }
    kani::cover!(r.is_ok() && had.is_none() && old.count == 3);
    kani::cover!(r.is_err() && old.count == 4);
    kani::cover!(r.is_ok() && had.is_some());
}

#[kani::proof]
#[kani::unwind(10)]
fn c34_remove() {
    let mut m = any_wf_map();
    let old = m;
    let k: u64 = kani::any();
    let q: u64 = kani::any();
    let r = m.remove(&k);
    assert!(r == lookup(&old, k));
    assert!(wf(&m));
    assert!(m.count == old.count - if r.is_some() { 1 } else { 0 });
    assert!(lookup(&m, q) == if q == k { None } else { lookup(&old, q) });
    kani::cover!(r.is_some() && old.count == 4);
    kani::cover!(r.is_none() && old.count > 0);
}

/// the zeroed map (`Default`) is the empty map
#[kani::proof]
#[kani::unwind(10)]
fn c34_default_is_empty() {
    let m = M8::default();
    let q: u64 = kani::any();
    assert!(wf(&m) && m.len() == 0 && lookup(&m, q).is_none());
}
