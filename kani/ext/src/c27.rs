//! C27 Market openness follows the per-feed status policy and freshness.
use gmsol_utils::price::feed_price::PriceFeedPrice;
use gmsol_utils::price::market_status::{MarketOpenness, MarketStatus, MarketStatusFlag, MarketStatusFlagContainer};
use gmsol_utils::price::PriceFlag;

const NANOS: i128 = 1_000_000_000;

/// The statement, evaluated in i128 (no saturation, no overflow possible).
fn spec(status: u8, policy: u8, pflags: u8, last_update_diff: u32, ts: i64, now: i64, timeout: u32) -> bool {
    // status closed under the policy?
    let bit = |i: u8| (policy >> i) & 1 == 1;
    let closed = match status {
        0 => false,            // Disabled: no status information, defer
        1 => !bit(0),          // Unknown: open iff AllowUnknown
        2 => !bit(1),          // PreMarket
        3 => bit(2),           // RegularHours: closed iff HaltRegularHours
        4 => !bit(3),          // PostMarket
        5 => !bit(4),          // Overnight
        6 => !bit(5),          // Closed: open iff AllowClosed
        _ => false,            // invalid stored value reads as Disabled
    };
    if closed { return false; }
    let open_flag = pflags & 1 == 1;
    if !open_flag { return false; }
    let enabled = (pflags >> 1) & 1 == 1;
    if !enabled { return true; }
    let secs_unit = (pflags >> 2) & 1 == 1;
    let diff_secs: i128 = if secs_unit { last_update_diff as i128 } else { ((last_update_diff as i128) + NANOS - 1) / NANOS };
    let age_report = now as i128 - ts as i128;
    let age_update = age_report + diff_secs;
    age_report <= timeout as i128 && age_update <= timeout as i128
}

#[kani::proof]
fn c27_is_market_open_matches_statement() {
    let status: u8 = kani::any();
    let policy: u8 = kani::any();
    let pflags: u8 = kani::any();
    let pad: u8 = kani::any();
    let last_update_diff: u32 = kani::any();
    let ts: i64 = kani::any();
    let now: i64 = kani::any();
    let timeout: u32 = kani::any();
    let decimals: u8 = kani::any();
    let prices: [u128; 3] = kani::any();
    // the stored price, every bit symbolic (zero-copy layout: 64 bytes)
    let w0: u128 = (decimals as u128) | ((pflags as u128) << 8) | ((status as u128) << 16) | ((pad as u128) << 24)
        | ((last_update_diff as u128) << 32) | (((ts as u64) as u128) << 64);
    let p: PriceFeedPrice = bytemuck::cast([w0, prices[0], prices[1], prices[2]]);
    kani::assume(pflags < 8); // only the three defined price flags (bitmap of width 3 masks the rest)
    assert!(p.ts() == ts);
    let flags = MarketStatusFlagContainer::from_value(policy);
    let got = p.is_market_open(now, timeout, flags);
    let want = spec(status, policy, pflags, last_update_diff, ts, now, timeout);
    assert!(got == want);
    kani::cover!(got, "open reachable");
    kani::cover!(!got && pflags & 1 == 1, "closed by staleness or status reachable");
    kani::cover!(now < ts, "report in the future reachable");
}

#[kani::proof]
fn c27_openness_table() {
    let policy: u8 = kani::any();
    let flags = MarketStatusFlagContainer::from_value(policy);
    let bit = |i: u8| (policy >> i) & 1 == 1;
    assert!(matches!(MarketStatus::Disabled.openness(flags), MarketOpenness::Skip));
    assert!(matches!(MarketStatus::Unknown.openness(flags), MarketOpenness::Open) == bit(0));
    assert!(matches!(MarketStatus::PreMarket.openness(flags), MarketOpenness::Open) == bit(1));
    assert!(matches!(MarketStatus::RegularHours.openness(flags), MarketOpenness::Open) == !bit(2));
    assert!(matches!(MarketStatus::PostMarket.openness(flags), MarketOpenness::Open) == bit(3));
    assert!(matches!(MarketStatus::Overnight.openness(flags), MarketOpenness::Open) == bit(4));
    assert!(matches!(MarketStatus::Closed.openness(flags), MarketOpenness::Open) == bit(5));
    // never Skip for a status that carries information
    assert!(!matches!(MarketStatus::Closed.openness(flags), MarketOpenness::Skip));
    assert!(!matches!(MarketStatus::RegularHours.openness(flags), MarketOpenness::Skip));
}
