//! C35: stored names read back exactly as they were accepted.
//! Real `gmsol_utils::fixed_str::{fixed_str_to_bytes, bytes_to_fixed_str}` (the program-side wrappers in
//! programs/store/src/utils/fixed_str.rs only map the error type), instantiated at the capacities the programs use.
use gmsol_utils::fixed_str::{bytes_to_fixed_str, fixed_str_to_bytes};

/// One symbolic name of up to CAP + 1 bytes (so "beyond the capacity" is included), any byte values that form a
/// valid `str`; the round trip through a field of capacity CAP.
fn round_trip<const CAP: usize, const BUF: usize>(ascii_only: bool) {
    let buf: [u8; BUF] = kani::any();
    let len: usize = kani::any();
    kani::assume(len <= BUF);
    let name: &str = if ascii_only {
        let mut i = 0;
        while i < BUF {
            kani::assume(buf[i] < 128);
            i += 1;
        }
        // every byte < 128: valid UTF-8
        unsafe { std::str::from_utf8_unchecked(&buf[..len]) }
    } else {
        match std::str::from_utf8(&buf[..len]) {
            Ok(s) => s,
            Err(_) => {
                kani::assume(false);
                unreachable!()
            }
        }
    };
    match fixed_str_to_bytes::<CAP>(name) {
        Ok(stored) => {
            // accepted => read back unchanged (in particular: it can be read back at all)
            match bytes_to_fixed_str::<CAP>(&stored) {
                Ok(back) => {
                    assert!(back.len() == name.len());
                    assert!(back.as_bytes() == name.as_bytes());
                }
                Err(_) => panic!("an accepted name cannot be read back"),
            }
            kani::cover!(len == CAP, "a name that exactly fills the field is accepted");
            kani::cover!(len == 0, "the empty name is accepted");
            kani::cover!(len > 0 && len < CAP, "a shorter name is accepted");
        }
        Err(_) => {
            kani::cover!(len > CAP, "a name beyond the capacity is rejected");
        }
    }
}

#[kani::proof]
#[kani::unwind(11)]
fn c35_round_trip_cap8_ascii() {
    round_trip::<8, 9>(true);
}

#[kani::proof]
#[kani::unwind(19)]
fn c35_round_trip_cap16_ascii() {
    round_trip::<16, 17>(true);
}

/// MAX_ROLE_NAME_LEN = 32 (roles, timelock executors)
#[kani::proof]
#[kani::unwind(35)]
fn c35_round_trip_cap32_ascii() {
    round_trip::<32, 33>(true);
}

/// small capacity, EVERY valid UTF-8 string of up to 4 bytes (multi-byte sequences included) -- bounded stand-in
#[kani::proof]
#[kani::unwind(6)]
fn c35_round_trip_cap3_utf8() {
    round_trip::<3, 4>(false);
}
