//! C28 Chainlink full-report decoding: `decode_full_report` on the real gmsol-chainlink-datastreams crate, payload bytes and payload
//! length symbolic up to a stated bound (the function has no loop over the payload: it reads two length words and slices).
use gmsol_chainlink_datastreams::report::decode_full_report;

const MAX: usize = 224;

fn be64(b: &[u8]) -> u64 {
    let mut v: u64 = 0;
    let mut i = 0;
    while i < 8 { v = (v << 8) | (b[i] as u64); i += 1; }
    v
}

fn any_payload(buf: &[u8; MAX]) -> &[u8] {
    let len: usize = kani::any();
    kani::assume(len <= MAX);
    &buf[..len]
}

/// never panics; on success the context is the first three words and the blob is the slice described by the offset word (read as
/// a 64-bit big-endian number from the low-order bytes of word 3) and the length word found at that offset.
#[kani::proof]
#[kani::unwind(9)]
fn c28_decode_full_report_slice() {
    let buf: [u8; MAX] = kani::any();
    let payload = any_payload(&buf);
    match decode_full_report(payload) {
        Ok((ctx, blob)) => {
            assert!(payload.len() >= 128);
            let w: usize = kani::any();
            kani::assume(w < 3);
            let k: usize = kani::any();
            kani::assume(k < 32);
            assert!(ctx[w][k] == payload[w * 32 + k]);
            let off = be64(&payload[120..128]) as usize;
            assert!(off >= 128 && off + 32 <= payload.len());
            let length = be64(&payload[off + 24..off + 32]) as usize;
            assert!(off + 32 + length <= payload.len());
            assert!(blob.len() == length);
            // the blob IS that part of the payload (same memory, not a copy)
            assert!(blob.as_ptr() == payload[off + 32..].as_ptr());
            kani::cover!(length > 0, "non-empty blob reachable");
            kani::cover!(off > 128, "offset beyond the head reachable");
        }
        Err(_) => {
            kani::cover!(payload.len() >= 160, "rejection of a long payload reachable");
        }
    }
}

/// KNOWN FINDING (known_findings.txt): read as ABI, the offset and length words are 256-bit numbers; a payload whose words have
/// non-zero high-order bytes describes no slice of the payload, yet it is accepted (the words are read modulo 2^64).
#[kani::proof]
#[kani::unwind(9)]
fn c28_finding_high_order_bytes_of_offset_and_length_ignored() {
    let buf: [u8; MAX] = kani::any();
    let payload = any_payload(&buf);
    if let Ok((_ctx, _blob)) = decode_full_report(payload) {
        let i: usize = kani::any();
        kani::assume(i < 24);
        assert!(payload[96 + i] == 0, "offset word >= 2^64 accepted");
        let off = be64(&payload[120..128]) as usize;
        assert!(payload[off + i] == 0, "length word >= 2^64 accepted");
    }
}
