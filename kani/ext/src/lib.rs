//! External Kani harness crate: links the real gmsol-model / gmsol-utils /
//! gmsol-chainlink-datastreams crates by path (no copy, no re-implementation).
#![allow(dead_code, unused_imports, clippy::all)]

#[cfg(kani)]
mod c27;
#[cfg(kani)]
mod c35;
#[cfg(kani)]
mod c34;
#[cfg(kani)]
mod c28;
