//! C40: the SDK market / position model agrees with the on-chain program.
//!
//! Every harness builds the program's zero-copy account type AND the SDK's `declare_program!` type
//! from ONE fully symbolic byte image (all 9168 bytes of a market, all bytes of a position or pool)
//! and compares what the two implementations of the `gmsol_model` traits expose. No loop depends
//! on symbolic data, so each harness is a complete proof over all account contents.
//!
//! What is compared is exactly what the generic actions of `gmsol_model` can observe of a market:
//! the trait methods. Layout agreement (sizes and offsets) is covered for every byte that any of
//! these methods reads: a field at a different offset on one side would make some view differ for
//! some image.
use std::sync::Arc;

use gmsol_model::{
    Balance, BaseMarket, BorrowingFeeMarket, LiquidityMarket, PerpMarket, PnlFactorKind,
    Pool as ModelPool, Position as ModelPosition, PositionImpactMarket, PositionState,
    PositionStateMut, SwapMarket,
};
use gmsol_programs::gmsol_store::accounts::{Market as SdkMarket, Position as SdkPosition};
use gmsol_programs::gmsol_store::types::Pool as SdkPool;
use gmsol_programs::model::{MarketModel, PositionModel};
use gmsol_store::states::market::pool::Pool as ProgPool;
use gmsol_store::states::position::AsPosition;
use gmsol_store::states::{Market as ProgMarket, Position as ProgPosition};

const MARKET_SIZE: usize = core::mem::size_of::<ProgMarket>();
const WORDS: usize = MARKET_SIZE / 16;
const POSITION_SIZE: usize = core::mem::size_of::<ProgPosition>();
const PWORDS: usize = POSITION_SIZE / 16;

// "the account layouts declared for the SDK match the program's sizes": compile-time facts of the two
// real crates, evaluated by the compiler Kani drives (a mismatch is a build error of this crate = UNDECIDED,
// so they are ALSO asserted inside the harnesses, where a mismatch is a failed check).
const SIZES_AGREE: bool = core::mem::size_of::<ProgMarket>() == core::mem::size_of::<SdkMarket>()
    && core::mem::align_of::<ProgMarket>() == core::mem::align_of::<SdkMarket>()
    && core::mem::size_of::<ProgPosition>() == core::mem::size_of::<SdkPosition>()
    && core::mem::align_of::<ProgPosition>() == core::mem::align_of::<SdkPosition>()
    && core::mem::size_of::<ProgPool>() == core::mem::size_of::<SdkPool>()
    && core::mem::size_of::<ProgPool>() == 48;

/// One symbolic account image. `[u128; N]` gives the 16-byte alignment both zero-copy types need.
fn any_image() -> Box<[u128; WORDS]> {
    let mut b: Box<[u128; WORDS]> = Box::new([0u128; WORDS]);
    *b = kani::any();
    b
}

/// Both sides' typed views of the same bytes (each side gets its own typed copy: reading a struct
/// through a pointer into a `[u128]` object costs CBMC 26 GB, a typed copy costs 0.5 GB).
fn views(img: &[u128; WORDS], supply: u64) -> (Box<ProgMarket>, MarketModel) {
    assert!(SIZES_AGREE);
    assert!(MARKET_SIZE % 16 == 0);
    let bytes: &[u8] = bytemuck::bytes_of(img);
    let prog: Box<ProgMarket> = Box::new(*bytemuck::from_bytes::<ProgMarket>(bytes));
    let sdk: &SdkMarket = bytemuck::from_bytes(bytes);
    (prog, MarketModel::from_parts(Arc::new(*sdk), supply))
}

fn w3p(p: &ProgPool) -> [u128; 3] {
    bytemuck::cast(*p)
}
fn w3s(p: &SdkPool) -> [u128; 3] {
    bytemuck::cast(*p)
}

fn same_pool(a: gmsol_model::Result<&ProgPool>, b: gmsol_model::Result<&SdkPool>) {
    assert!(a.is_ok() && b.is_ok());
    if let (Ok(a), Ok(b)) = (a, b) {
        let (x, y) = (w3p(a), w3s(b));
        assert!(x[0] == y[0] && x[1] == y[1] && x[2] == y[2]);
    }
}

fn same_num(a: gmsol_model::Result<u128>, b: gmsol_model::Result<u128>) {
    assert!(a.is_ok() == b.is_ok());
    assert!(a.ok() == b.ok());
}

/// Every pool the model traits can reach is the same 48 bytes on both sides. The side argument is
/// enumerated with CONSTANTS (two harnesses): a symbolic `PoolKind` makes CBMC run out of 62 GB in
/// `Pools::get`, a constant one needs about 1 GB; {true, false} is the whole domain either way.
#[kani::proof]
fn c40_unsided_pools_agree() {
    let img = any_image();
    let (p, s) = views(&img, kani::any());
    same_pool(p.liquidity_pool(), s.liquidity_pool());
    same_pool(p.claimable_fee_pool(), s.claimable_fee_pool());
    same_pool(p.swap_impact_pool(), s.swap_impact_pool());
    same_pool(p.position_impact_pool(), s.position_impact_pool());
    same_pool(p.borrowing_factor_pool(), s.borrowing_factor_pool());
    same_pool(p.total_borrowing_pool(), s.total_borrowing_pool());
}

fn sided_pools_agree(l: bool) {
    let img = any_image();
    let (p, s) = views(&img, kani::any());
    same_pool(p.open_interest_pool(l), s.open_interest_pool(l));
    same_pool(p.open_interest_in_tokens_pool(l), s.open_interest_in_tokens_pool(l));
    same_pool(p.collateral_sum_pool(l), s.collateral_sum_pool(l));
    same_pool(p.funding_amount_per_size_pool(l), s.funding_amount_per_size_pool(l));
    same_pool(
        p.claimable_funding_amount_per_size_pool(l),
        s.claimable_funding_amount_per_size_pool(l),
    );
}

#[kani::proof]
fn c40_long_side_pools_agree() {
    sided_pools_agree(true);
}

#[kani::proof]
fn c40_short_side_pools_agree() {
    sided_pools_agree(false);
}

fn any_pnl_kind() -> PnlFactorKind {
    let k: u8 = kani::any();
    match k % 5 {
        0 => PnlFactorKind::MaxAfterDeposit,
        1 => PnlFactorKind::MaxAfterWithdrawal,
        2 => PnlFactorKind::MaxForTrader,
        3 => PnlFactorKind::ForAdl,
        _ => PnlFactorKind::MinAfterAdl,
    }
}

/// Scalar configuration, flags and balances.
#[kani::proof]
fn c40_base_config_agrees() {
    let img = any_image();
    let supply: u64 = kani::any();
    let (p, s) = views(&img, supply);
    let l: bool = kani::any();
    assert!(p.usd_to_amount_divisor() == s.usd_to_amount_divisor());
    same_num(p.max_pool_amount(l), s.max_pool_amount(l));
    let k = any_pnl_kind();
    same_num(p.pnl_factor_config(k, l), s.pnl_factor_config(k, l));
    same_num(p.reserve_factor(), s.reserve_factor());
    same_num(p.open_interest_reserve_factor(), s.open_interest_reserve_factor());
    same_num(p.max_open_interest(l), s.max_open_interest(l));
    assert!(
        p.ignore_open_interest_for_usage_factor().ok()
            == s.ignore_open_interest_for_usage_factor().ok()
    );
    same_num(p.max_pool_value_for_deposit(l), s.max_pool_value_for_deposit(l));
    assert!(s.total_supply() == supply as u128);
    assert!(p.is_pure() == s.is_pure());
    assert!(*PerpMarket::funding_factor_per_second(&*p) == *s.funding_factor_per_second());
    assert!(p.funding_amount_per_size_adjustment() == s.funding_amount_per_size_adjustment());
    same_num(
        p.min_collateral_factor_for_open_interest_multiplier(l),
        s.min_collateral_factor_for_open_interest_multiplier(l),
    );
    // balances: the SDK's `Bank::balance` (by token) against the program's raw balances, pure markets included
    let long_token = p.meta().long_token_mint;
    let short_token = p.meta().short_token_mint;
    let bl = gmsol_model::Bank::balance(&s, &long_token);
    let bs = gmsol_model::Bank::balance(&s, &short_token);
    assert!(bl.is_ok() && bs.is_ok());
    assert!(bl.ok() == Some(p.state().long_token_balance_raw()));
    if p.is_pure() || long_token == short_token {
        assert!(bs.ok() == Some(p.state().long_token_balance_raw()));
    } else {
        assert!(bs.ok() == Some(p.state().short_token_balance_raw()));
    }
}

/// Parameter groups (the `verif` feature of gmsol-model derives `PartialEq` on them).
#[kani::proof]
fn c40_params_agree() {
    let img = any_image();
    let (p, s) = views(&img, kani::any());
    assert!(p.swap_impact_params().ok() == s.swap_impact_params().ok());
    assert!(s.swap_impact_params().is_ok());
    // default pricing of the SDK model is `Swap`: the program's plain parameters
    assert!(p.swap_fee_params().ok() == s.swap_fee_params().ok());
    assert!(p.position_impact_params().ok() == s.position_impact_params().ok());
    assert!(
        p.position_impact_distribution_params().ok()
            == s.position_impact_distribution_params().ok()
    );
    assert!(p.funding_fee_params().ok() == s.funding_fee_params().ok());
    assert!(p.liquidation_fee_params().ok() == s.liquidation_fee_params().ok());
    assert!(s.liquidation_fee_params().is_ok() && s.funding_fee_params().is_ok());
}

/// The parameter groups that depend on the closed-market switch (Closed flag x EnableMarketClosedParams).
#[kani::proof]
fn c40_closed_market_params_agree() {
    let img = any_image();
    let (p, s) = views(&img, kani::any());
    assert!(p.borrowing_fee_params().ok() == s.borrowing_fee_params().ok());
    assert!(p.borrowing_fee_kink_model_params().ok() == s.borrowing_fee_kink_model_params().ok());
    assert!(p.position_params().ok() == s.position_params().ok());
    assert!(s.position_params().is_ok() && s.borrowing_fee_params().is_ok());
    kani::cover!(p.is_closed(), "closed market reachable");
    kani::cover!(!p.is_closed(), "open market reachable");
}

/// "The SDK's order fee discount also matches the program's": the program applies the discount as
/// `market.order_fee_params()?.with_discount_factor(f)` (RevertibleMarket::order_fee_params, under contract in
/// the Verus half of this check); the SDK model with the same factor set must expose the same parameters.
#[kani::proof]
fn c40_order_fee_discount_agrees() {
    let img = any_image();
    let (p, mut s) = views(&img, kani::any());
    // before any discount is set the SDK applies factor 0, the program's plain Market applies none:
    // `fee()` treats a missing discount as zero, but the two values differ structurally, so compare discounted forms
    let f: u128 = kani::any();
    let expect = p.order_fee_params().ok().map(|x| x.with_discount_factor(f));
    s.set_order_fee_discount_factor(f);
    assert!(s.order_fee_params().ok() == expect);
    assert!(expect.is_some());
}

fn pool_wf(w: &[u128; 3]) -> bool {
    // the program's own debug assertion: a pure pool keeps its short slot at zero
    (w[0] as u8) == 0 || w[2] == 0
}

/// The SDK's twin of the pool arithmetic (pure pools split one slot) against the program's, on the same 48 bytes.
#[kani::proof]
fn c40_pool_twin_agrees() {
    assert!(SIZES_AGREE);
    let w: [u128; 3] = kani::any();
    kani::assume(pool_wf(&w));
    let mut a: ProgPool = bytemuck::cast(w);
    let mut b: SdkPool = bytemuck::cast(w);
    assert!(a.long_amount().ok() == b.long_amount().ok());
    assert!(a.short_amount().ok() == b.short_amount().ok());
    let d: i128 = kani::any();
    let long_side: bool = kani::any();
    let (ra, rb) = if long_side {
        (a.apply_delta_to_long_amount(&d), b.apply_delta_to_long_amount(&d))
    } else {
        (a.apply_delta_to_short_amount(&d), b.apply_delta_to_short_amount(&d))
    };
    assert!(ra.is_ok() == rb.is_ok());
    let (x, y) = (w3p(&a), w3s(&b));
    assert!(x[0] == y[0] && x[1] == y[1] && x[2] == y[2]);
    kani::cover!((w[0] as u8) != 0 && ra.is_ok(), "pure pool delta applied");
    kani::cover!((w[0] as u8) == 0 && ra.is_err(), "impure pool delta rejected");
}

fn any_pimage() -> Box<[u128; PWORDS]> {
    let mut b: Box<[u128; PWORDS]> = Box::new([0u128; PWORDS]);
    *b = kani::any();
    b
}

/// Position accounts: side and every state field, with its mutable twin, on the same bytes.
#[kani::proof]
fn c40_position_state_agrees() {
    assert!(SIZES_AGREE);
    assert!(POSITION_SIZE % 16 == 0);
    let pimg = any_pimage();
    let pbytes: &[u8] = bytemuck::bytes_of(&*pimg);
    let pp: Box<ProgPosition> = Box::new(*bytemuck::from_bytes::<ProgPosition>(pbytes));
    let sp: Box<SdkPosition> = Box::new(*bytemuck::from_bytes::<SdkPosition>(pbytes));
    let l: bool = kani::any();

    // side of the position: exactly kinds 1 (long) and 2 (short) are accepted
    let a = pp.try_is_long().ok();
    let b = sp.try_is_long().ok();
    assert!(a == b);
    kani::cover!(a == Some(true), "long position reachable");
    kani::cover!(a == Some(false), "short position reachable");
    kani::cover!(a.is_none(), "uninitialized / unknown kind reachable");

    let (mut st, mut ss) = (pp.state, sp.state);
    assert!(*st.collateral_amount() == *ss.collateral_amount());
    assert!(*st.size_in_usd() == *ss.size_in_usd());
    assert!(*st.size_in_tokens() == *ss.size_in_tokens());
    assert!(*st.borrowing_factor() == *ss.borrowing_factor());
    assert!(*st.funding_fee_amount_per_size() == *ss.funding_fee_amount_per_size());
    assert!(*st.claimable_funding_fee_amount_per_size(l) == *ss.claimable_funding_fee_amount_per_size(l));
    assert!(st.trade_id == ss.trade_id && st.increased_at == ss.increased_at);
    assert!(st.updated_at_slot == ss.updated_at_slot && st.decreased_at == ss.decreased_at);
    assert!(pp.owner == sp.owner && pp.market_token == sp.market_token && pp.collateral_token == sp.collateral_token);
    assert!(pp.store == sp.store && pp.kind == sp.kind && pp.bump == sp.bump);

    // the program's mutable accessors address the fields the SDK's public field names denote
    let v: u128 = kani::any();
    let which: u8 = kani::any();
    match which % 6 {
        0 => { *st.collateral_amount_mut() = v; ss.collateral_amount = v; }
        1 => { *st.size_in_usd_mut() = v; ss.size_in_usd = v; }
        2 => { *st.size_in_tokens_mut() = v; ss.size_in_tokens = v; }
        3 => { *st.borrowing_factor_mut() = v; ss.borrowing_factor = v; }
        4 => { *st.funding_fee_amount_per_size_mut() = v; ss.funding_fee_amount_per_size = v; }
        _ => {
            *st.claimable_funding_fee_amount_per_size_mut(l) = v;
            if l { ss.long_token_claimable_funding_amount_per_size = v; } else { ss.short_token_claimable_funding_amount_per_size = v; }
        }
    }
    const SW: usize = core::mem::size_of::<gmsol_store::states::position::PositionState>() / 16;
    let x: [u128; SW] = bytemuck::cast(st);
    let y: [u128; SW] = bytemuck::cast(ss);
    let mut i = 0;
    while i < x.len() {
        assert!(x[i] == y[i]);
        i += 1;
    }
}

/// Which side a token is on: the SDK's `MarketMeta::token_side` against the program's `to_token_side`.
#[kani::proof]
fn c40_token_side_agrees() {
    let img = any_image();
    let (p, s) = views(&img, kani::any());
    let token = anchor_lang::prelude::Pubkey::new_from_array(kani::any());
    let a = p.meta().to_token_side(&token).ok();
    let b = s.meta.token_side(&token).ok();
    assert!(a == b);
    kani::cover!(a == Some(true), "long token");
    kani::cover!(a == Some(false), "short token");
    kani::cover!(a.is_none(), "not a pool token");
}

// The committed key table (kani/inc/store/keys.rs; contracts/C17.py and contracts/C40.py re-derive the key list from
// /repo on every run and fail closed if the enum changed): each key is a CONSTANT at its use, see `c40_*_pools_agree`.
include!(concat!(env!("GMSOL_VERIF_DIR"), "/kani/inc/store/keys.rs"));

macro_rules! same_keys {
    ($($key:ident => $c:ident,)*) => {
        fn config_keys_agree(p: &ProgMarket, s: &SdkMarket) {
            use gmsol_utils::market::MarketConfigKey;
            $( assert!(p.get_config_by_key(MarketConfigKey::$key).copied() == s.config.get(MarketConfigKey::$key).copied(), concat!("config key ", stringify!($key)));
               assert!(s.config.get(MarketConfigKey::$key).is_some()); )*
        }
    };
}
for_each_key_default!(same_keys);

/// The two hand-written key -> field tables (66 keys), the config flags and the clock table.
#[kani::proof]
fn c40_config_keys_and_clocks_agree() {
    use gmsol_model::ClockKind;
    use gmsol_utils::market::MarketConfigFlag;
    let img = any_image();
    assert!(SIZES_AGREE);
    let bytes: &[u8] = bytemuck::bytes_of(&*img);
    let p: Box<ProgMarket> = Box::new(*bytemuck::from_bytes::<ProgMarket>(bytes));
    let s: Box<SdkMarket> = Box::new(*bytemuck::from_bytes::<SdkMarket>(bytes));
    config_keys_agree(&p, &s);
    assert!(p.get_config_flag_by_key(MarketConfigFlag::SkipBorrowingFeeForSmallerSide) == s.config.flag.get_flag(MarketConfigFlag::SkipBorrowingFeeForSmallerSide));
    assert!(p.get_config_flag_by_key(MarketConfigFlag::IgnoreOpenInterestForUsageFactor) == s.config.flag.get_flag(MarketConfigFlag::IgnoreOpenInterestForUsageFactor));
    assert!(p.get_config_flag_by_key(MarketConfigFlag::EnableMarketClosedParams) == s.config.flag.get_flag(MarketConfigFlag::EnableMarketClosedParams));
    assert!(p.get_config_flag_by_key(MarketConfigFlag::MarketClosedSkipBorrowingFeeForSmallerSide) == s.config.flag.get_flag(MarketConfigFlag::MarketClosedSkipBorrowingFeeForSmallerSide));
    assert!(p.clock(ClockKind::PriceImpactDistribution) == s.state.clocks.get(ClockKind::PriceImpactDistribution));
    assert!(p.clock(ClockKind::Borrowing) == s.state.clocks.get(ClockKind::Borrowing));
    assert!(p.clock(ClockKind::Funding) == s.state.clocks.get(ClockKind::Funding));
    assert!(p.clock(ClockKind::AdlForLong) == s.state.clocks.get(ClockKind::AdlForLong));
    assert!(p.clock(ClockKind::AdlForShort) == s.state.clocks.get(ClockKind::AdlForShort));
    assert!(s.state.clocks.get(ClockKind::Funding).is_some());
    // the market flags as decoded by the SDK's own flag container
    use gmsol_utils::market::MarketFlag;
    assert!(p.is_enabled() == s.flags.get_flag(MarketFlag::Enabled));
    assert!(p.is_pure() == s.flags.get_flag(MarketFlag::Pure));
    assert!(p.is_adl_enabled(true) == s.flags.get_flag(MarketFlag::AutoDeleveragingEnabledForLong));
    assert!(p.is_adl_enabled(false) == s.flags.get_flag(MarketFlag::AutoDeleveragingEnabledForShort));
    assert!(p.is_gt_minting_enabled() == s.flags.get_flag(MarketFlag::GTEnabled));
    assert!(p.is_closed() == s.flags.get_flag(MarketFlag::Closed));
}

mod stubs {
    use gmsol_model::fixed::FixedPointOps;

    /// `format!` only builds error messages on these paths; their text is not compared.
    pub fn format_stub(_args: core::fmt::Arguments<'_>) -> String {
        String::new()
    }

    pub fn with_values_id<A, B>(e: anchor_lang::error::Error, _values: (A, B)) -> anchor_lang::error::Error {
        e
    }

    static mut SEEN: Option<(u128, u128, Option<u128>)> = None;

    /// `gmsol_model::utils::apply_factor` (under contract in C01) is a pure function of its two arguments. In a
    /// harness that calls it once per side it is replaced by an UNINTERPRETED function: the first call returns an
    /// arbitrary result and remembers (arguments, result); a later call with the same arguments returns the same
    /// result, with other arguments an arbitrary one. The 256-bit mul-div itself (ruint, symbolic loop bounds) is
    /// out of CBMC's reach and not what C40 is about.
    pub fn apply_factor_uninterpreted<T, const DECIMALS: u8>(value: &T, factor: &T) -> Option<T>
    where
        T: FixedPointOps<DECIMALS>,
    {
        assert!(core::mem::size_of::<T>() == 16);
        let (v, f): (u128, u128) = unsafe { (core::mem::transmute_copy(value), core::mem::transmute_copy(factor)) };
        let r: Option<u128> = unsafe {
            match SEEN {
                Some((sv, sf, sr)) if sv == v && sf == f => sr,
                _ => {
                    let r: Option<u128> = kani::any();
                    // two facts of floor(v * f / 10^20) the program's own debug assertion relies on
                    const UNIT: u128 = 100_000_000_000_000_000_000;
                    if let Some(x) = r {
                        kani::assume(f > UNIT || x <= v);
                        kani::assume(v > UNIT || x <= f);
                    }
                    SEEN = Some((v, f, r));
                    r
                }
            }
        };
        r.map(|x| unsafe { core::mem::transmute_copy::<u128, T>(&x) })
    }
}

/// "The SDK's order fee discount also matches the program's": `Store::order_fee_discount_factor(rank, is_referred)`
/// of both sides on one symbolic Store account image (rank table, max rank, referred-user factor).
#[kani::proof]
#[kani::stub(alloc::fmt::format, stubs::format_stub)]
#[kani::stub(anchor_lang::error::Error::with_values, stubs::with_values_id)]
#[kani::stub(gmsol_model::utils::apply_factor, stubs::apply_factor_uninterpreted)]
fn c40_store_discount_factor_agrees() {
    use gmsol_programs::gmsol_store::accounts::Store as SdkStore;
    use gmsol_store::states::Store as ProgStore;
    const SS: usize = core::mem::size_of::<ProgStore>();
    assert!(SS == core::mem::size_of::<SdkStore>());
    assert!(SS % 16 == 0);
    let mut img: Box<[u128; SS / 16]> = Box::new([0u128; SS / 16]);
    *img = kani::any();
    let bytes: &[u8] = bytemuck::bytes_of(&*img);
    let p: Box<ProgStore> = Box::new(*bytemuck::from_bytes::<ProgStore>(bytes));
    let s: Box<SdkStore> = Box::new(*bytemuck::from_bytes::<SdkStore>(bytes));
    let rank: u8 = kani::any();
    // the stored maximum rank is kept within the table by `GtState::init` / `set_ranks` (min(len, MAX_RANK));
    // beyond it both sides index out of the same array
    kani::assume(s.gt.max_rank < s.gt.order_fee_discount_factors.len() as u64);
    // discount factors are at most 1 (checked where they are set: set_order_fee_discount_factors / the store factor
    // update); the program's own `debug_assert!(discount_factor <= MARKET_USD_UNIT)` needs this, the agreement does not
    const UNIT: u128 = 100_000_000_000_000_000_000;
    kani::assume(s.factor.order_fee_discount_for_referred_user <= UNIT);
    kani::assume(rank as u64 > s.gt.max_rank || s.gt.order_fee_discount_factors[rank as usize] <= UNIT);
    let referred: bool = kani::any();
    let a = p.order_fee_discount_factor(rank, referred).ok();
    let b = s.order_fee_discount_factor(rank, referred).ok();
    assert!(a == b);
    kani::cover!(referred && b.is_some(), "referred user, discount computed");
    kani::cover!(!referred && b.is_some(), "rank discount only");
    kani::cover!(b.is_none(), "rejected");
}
