//! Relational Kani harness crate (C40): the program's `Market` / `Pool` and the SDK's `MarketModel` /
//! `Pool` are both built from ONE symbolic byte image and every model-trait view of the two is compared.
#![allow(dead_code, unused_imports, clippy::all)]

#[cfg(kani)]
mod c40;
