PROPERTY = 'C37'
LEVEL = 'proof'
VERUS = ['verus/C37.rs']
TRUSTED = [
    'prelude / monomorphisation as in C01 (only mul_div_floor / uunit specs and vstd lemmas are used); vstd spec of core::mem::swap',
    'carriers Config{gt_factor, buyback_factor} and GtBank{remaining_confirmed_gt_amount}: the fields these functions touch; full field lists of the repo structs compared on every run (R11)',
    'constant MARKET_USD_UNIT = 10^20 compared with /repo on every run; `gmsol_store::constants::MARKET_USD_UNIT` path rewritten by rule R4d (logged)',
    'anchor require*!/error! macros per R5/R6',
]
UNVERIFIED = [
    'THE PAYOUT HANDLER IS NOT PROVED: CompleteGtExchange::execute (programs/treasury/src/instructions/gt_bank.rs) computes `balance.checked_mul_div(&gt_amount, &total_gt_amount)` per token, transfers by CPI and calls record_transferred_out / record_claimed; these expressions are located by text on every run (lost => exit 2); the arithmetic facts about that expression (never more than the balance, last claim drains) are proved as a lemma over the C01 contract of checked_mul_div, not over the handler',
    'GtBank balances are a fixed-capacity TokenBalances map (get_balance / record_transferred_out / reserve_balances iterate map entries): not under contract here (C34 material)',
    '"every claimant gets at least their floor share of the ORIGINAL balances" (a statement over the whole sequence of claims): not mechanised',
    'no native replay: items of an Anchor program crate; a failed obligation is reported with the verifier output and no-failing-input-found',
]
ASSUMPTIONS = ['set_gt_factor / set_buyback_factor are the only writers of the two factor fields (Config::init zeroes them): checked by text on every run']
MANIFEST = dict(engine='verus',
    technique='Verus contracts on Config::{set_gt_factor, set_buyback_factor} and GtBank::{record_claimed, remaining_confirmed_gt_amount} extracted from /repo each run, plus a payout lemma over the mul_div_floor spec',
    text='PARTIAL. Deductive proof, unbounded: the treasury GT and buyback factors never exceed 100% (a larger value is rejected, the bound is preserved by both setters, a rejected call changes nothing, each setter touches only its own factor); record_claimed succeeds exactly when the claim does not exceed the remaining confirmed GT and reduces it by exactly that amount; lemma: floor(balance * gt / remaining) is between 0 and the balance and equals the balance when gt == remaining (claims never pay more than the bank holds, the last claim drains it). The handler that applies this per token is located, not proved (listed).',
    note='Partial claim: factor bounds, claim bookkeeping and the payout arithmetic. CompleteGtExchange::execute and the TokenBalances map are not covered.')


def extra(res, repo, tier, seed):
    import os, re
    h = open(os.path.join(repo, 'programs/treasury/src/instructions/gt_bank.rs')).read()
    for pat, what in [(r'\.checked_mul_div\(&gt_amount, &total_gt_amount\)', 'per-token payout expression'),
                      (r'require_gte!\(total_gt_amount, gt_amount, CoreError::Internal\)', 'claim bounded by the remaining confirmed GT'),
                      (r'\.record_transferred_out\(token, amount\)\?', 'payout recorded per token'),
                      (r'\.record_claimed\(gt_amount\)\?', 'claim recorded')]:
        if not re.search(pat, h):
            res.undecided.append(f'anchor lost: instructions/gt_bank.rs: {what} (/{pat}/ not found)')
    c = open(os.path.join(repo, 'programs/treasury/src/states/config.rs')).read()
    writes = re.findall(r'self\.(gt_factor|buyback_factor)\s*=[^=]', c) + re.findall(r'&mut self\.(gt_factor|buyback_factor)', c)
    if sorted(writes) != ['buyback_factor', 'gt_factor']:
        res.undecided.append(f'anchor drift: writers of the factor fields in states/config.rs changed: {writes}')
