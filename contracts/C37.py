PROPERTY = 'C37'
LEVEL = 'proof'
VERUS = ['verus/C37.rs', 'verus/C37_handler.rs']
TRUSTED = [
    'prelude / monomorphisation as in C01 (only mul_div_floor / uunit specs and vstd lemmas are used); vstd spec of core::mem::swap',
    'carriers Config{gt_factor, buyback_factor} and GtBank{remaining_confirmed_gt_amount}: the fields these functions touch; full field lists of the repo structs compared on every run (R11)',
    'constant MARKET_USD_UNIT = 10^20 compared with /repo on every run; `gmsol_store::constants::MARKET_USD_UNIT` path rewritten by rule R4d (logged)',
    'anchor require*!/error! macros per R5/R6',
]
UNVERIFIED = [
    'payout handler: the per-token account plumbing inside the loop (token program selection, ATA validation, target authority, mint decoding, CpiContext, transfer_checked) is ONE assumed call that fails or moves exactly the amount (ghost ledger); remaining_accounts slicing and the close_gt_exchange CPI are assumed fallible calls; AccountLoader::load()/load_mut() are projections and the handler is taken by `&mut self`; `for (idx, token) in tokens.iter().enumerate()` is written as an indexed while loop; u64 MulDiv as verified glue (C01 at width u64)',
    'GtBank balances are a fixed-capacity TokenBalances map: get / get_mut / the key list are assumed map contracts here (C34 material); reserve_balances and the deposit side are not covered',
    '"every claimant gets at least their floor share of the ORIGINAL balances" (a statement over the whole sequence of claims): not mechanised',
    'no native replay: items of an Anchor program crate; a failed obligation is reported with the verifier output and no-failing-input-found',
]
ASSUMPTIONS = ['set_gt_factor / set_buyback_factor are the only writers of the two factor fields (Config::init zeroes them): checked by text on every run']
MANIFEST = dict(engine='verus',
    technique='Verus contracts on Config::{set_gt_factor, set_buyback_factor}, GtBank::{record_claimed, remaining_confirmed_gt_amount, get_balance_mut, record_transferred_out} and the whole CompleteGtExchange::execute handler (loop over the bank tokens with a ghost ledger of SPL transfers), extracted from /repo each run, plus a payout lemma over the mul_div_floor spec',
    text='Deductive proof, unbounded: the treasury GT and buyback factors never exceed 100% (a larger value is rejected, the bound is preserved by both setters, a rejected call changes nothing, each setter touches only its own factor); record_claimed succeeds exactly when the claim does not exceed the remaining confirmed GT and reduces it by exactly that amount; lemma: floor(balance * gt / remaining) is between 0 and the balance and equals the balance when gt == remaining (claims never pay more than the bank holds, the last claim drains it). The handler that applies this per token is located, not proved (listed). Payout handler (whole CompleteGtExchange::execute): a zero claim moves nothing; otherwise the claim is at most the remaining confirmed GT, which shrinks by exactly the claim, and for EVERY token the bank lists the recorded balance shrinks by exactly floor(balance x claim / remaining) and every SPL transfer made is that amount of a listed token.',
    note='Factor bounds, claim bookkeeping, the payout arithmetic and the payout handler (account plumbing and the SPL transfer assumed). The TokenBalances map is an assumed contract (C34).')


def extra(res, repo, tier, seed):
    import os, re
    c = open(os.path.join(repo, 'programs/treasury/src/states/config.rs')).read()
    writes = re.findall(r'self\.(gt_factor|buyback_factor)\s*=[^=]', c) + re.findall(r'&mut self\.(gt_factor|buyback_factor)', c)
    if sorted(writes) != ['buyback_factor', 'gt_factor']:
        res.undecided.append(f'anchor drift: writers of the factor fields in states/config.rs changed: {writes}')
