PROPERTY = 'C26'
LEVEL = 'proof'
VERUS = ['verus/C26.rs']
TRUSTED = [
    'Verus 0.2026.09.13 + bundled Z3; vstd integer specs',
    'assumed std contracts (vstd has none): u128::pow is exact when the mathematical result fits (precondition proved at every call), u128::div_ceil is ceiling division',
    'carrier Decimal{value: u32, decimal_multiplier: u8}: hand-transcribed with public fields, field list compared with the repo struct on every run (R11), drift => exit 2; DecimalError variants transcribed',
    'constants MAX_DECIMALS / MAX_DECIMAL_MULTIPLIER compared with /repo on every run',
    '`price.div(multiplier)` (std::ops::Div on u128) rewritten to `price / multiplier` (logged unit rewrite)',
]
UNVERIFIED = [
    'find_divisor_decimals / convert_to_u128_storage (crates/utils/src/price/mod.rs): ruint::Uint<192,3> binary search and division, outside Verus\' subset; not under contract here (their use is the Chainlink path, C28)',
    'callers passing the token config\'s decimals/precision (crates/utils/src/oracle.rs, programs/store oracle): not under contract here (C24)',
]
ASSUMPTIONS = ['wf(Decimal): decimal_multiplier <= 20 for to_unit_price / with_unit_price (established by try_from_price, proved as its postcondition)']
MANIFEST = dict(engine='verus',
    technique='Verus contracts on Decimal::{try_from_price, to_unit_price, with_unit_price, multiplier, decimal_multiplier_from_precision} extracted from /repo each run + power-of-ten lemmas',
    text='Deductive proof, unbounded over all u128 prices and all u8 decimals/token decimals/precisions: try_from_price returns Ok exactly when the settings are within the supported maximum and floor(price * 10^(precision - decimals)) fits in u32, the stored value IS that truncated value (never rounded up; off by less than one precision step: lemma), the multiplier is 20 - token_decimals - precision; unsupported settings or unrepresentable prices are errors, never a wrong price; no arithmetic overflow/underflow or shift overflow on any path; to_unit_price == value * 10^multiplier; with_unit_price floors or ceils exactly and fails exactly when the result exceeds u32.',
    note='Trusted: Verus+Z3, assumed u128::pow / div_ceil contracts, Decimal carrier (checked against the struct each run). U192 helpers in price/mod.rs are listed as unverified.')


def _value_spec(price, d, p):
    return price * 10 ** (p - d) if p >= d else price // 10 ** (d - p)


def replay(ob, repo, seed):
    from engine import replay as R
    import random
    rng = random.Random(seed)
    umax = (1 << 128) - 1
    if 'try_from_price' in ob['id'] or 'decimal_multiplier_from_precision' in ob['id']:
        cases = []
        small = [0, 1, 2, 5, 6, 8, 9, 10, 11, 12, 18, 19, 20, 21, 255]
        prices = [0, 1, 9, 10, 11, 99, 101, 12345, 10 ** 8 - 1, 10 ** 8, 4294967295, 4294967296, 4294967295 * 10 ** 6 + 999999,
                  10 ** 18 + 1, 10 ** 20, 10 ** 38, umax // 10, umax]
        for _ in range(6000):
            d, t, p = (rng.choice(small) if rng.random() < 0.3 else rng.randint(0, 20) for _ in range(3))
            pr = rng.choice(prices) if rng.random() < 0.4 else rng.getrandbits(rng.randint(1, 128))
            if rng.random() < 0.5 and d <= 20 and p <= 20:
                # aim near the u32 boundary / at values with a non-zero truncated part
                v = rng.choice([4294967295, 4294967296, rng.getrandbits(32), rng.getrandbits(20)])
                pr = v * 10 ** (d - p) + rng.randint(0, 10 ** (d - p) - 1) if d >= p else max(1, v // 10 ** (p - d))
                pr = min(pr, umax)
            cases.append((pr, d, t, p))
        lines = [f'decimal.try_from_price {pr} {d} {t} {p}' for pr, d, t, p in cases]
        outs = R.call_native(repo, lines)
        for (pr, d, t, p), l, got in zip(cases, lines, outs):
            if t > 20 or p > 20 or d > 20 or t + p > 20:
                want = 'Err'
            else:
                v = _value_spec(pr, d, p)
                want = f'Ok({v},{20 - t - p})' if v <= 0xFFFFFFFF else 'Err'
            if got != want:
                return dict(failing_input=dict(call=l, observed=got, expected=want),
                            note='native execution of the real Decimal::try_from_price disagrees with the statement (expected = exact price truncated to the precision, Err iff unsupported settings or not representable)')
        return dict(failing_input=None, note=f'{len(lines)} native executions of Decimal::try_from_price agreed with the big-integer oracle (seed {seed})')
    if 'with_unit_price' in ob['id'] or 'to_unit_price' in ob['id'] or 'multiplier' in ob['id']:
        cases = []
        for _ in range(4000):
            m = rng.randint(0, 20)
            v = rng.choice([0, 1, 4294967295, rng.getrandbits(32)])
            pr = rng.choice([0, 1, v * 10 ** m, v * 10 ** m + 1, max(0, v * 10 ** m - 1), 4294967296 * 10 ** m - 1, 4294967295 * 10 ** m + 1, rng.getrandbits(rng.randint(1, 128))])
            cases.append((v, m, min(pr, umax), rng.random() < 0.5))
        lines = [f'decimal.with_unit_price {v} {m} {pr} {"true" if ru else "false"}' for v, m, pr, ru in cases]
        outs = R.call_native(repo, lines)
        for (v, m, pr, ru), l, got in zip(cases, lines, outs):
            q = -((-pr) // 10 ** m) if ru else pr // 10 ** m
            want = f'{v * 10 ** m} ' + (f'Some({q},{m})' if q <= 0xFFFFFFFF else 'None')
            if got != want:
                return dict(failing_input=dict(call=l, observed=got, expected=want),
                            note='native execution of the real Decimal::{to_unit_price, with_unit_price} disagrees with the statement (output = "<to_unit_price> <with_unit_price>")')
        return dict(failing_input=None, note=f'{len(lines)} native executions of Decimal::to_unit_price / with_unit_price agreed with the big-integer oracle (seed {seed})')
    return None


FALLBACK_OBS = ['C26.Decimal.try_from_price', 'C26.Decimal.with_unit_price']
