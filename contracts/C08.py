PROPERTY = 'C08'
LEVEL = 'proof'
VERUS = ['verus/C08.rs']
TRUSTED = [
    'prelude / monomorphisation (Num = u128 newtype N, Signed = i128 newtype S) and checked-arithmetic contracts as in C01',
    'carriers: State with the ProcessResult it derefs to flattened in (Deref/DerefMut of State -> ProcessResult and of Context -> CollateralProcessor are field projections); the market is the liquidity pool, the claimable-fee pool, the position impact pool (pool delta contract of C15) and an opaque rest, held by value instead of `&mut M`; UpdateFundingReport with its two [N; 4] arrays; typed_builder setters of FundingFees as glue (each setter stores its argument); PositionFees reduced to the three totals this code reads (fallible), with the split identity for_pool + for_receiver == total excluding funding as a PRECONDITION (C02)',
    'rule R22 (new): the five calls `self.pay_for_cost(cost, |processor, a, b, c| BODY, step)?;` are inlined mechanically - the body of pay_for_cost is extracted from /repo on every run, its parameters are bound by `let`, the call `(receive)(self, &x, &y, &cost)?` is replaced by BODY with the closure parameters bound by `let` and `processor` renamed to `self`, the trailing `Ok(())` is dropped; `return Err(..)` inside it returns from the caller, which is what `?` on the call did',
    'unit rewrites (logged): `Ok(self)` -> `Ok(())` (the `&mut Self` returned for chaining is dropped; the chain in DecreasePosition::process_collateral is not under contract); debug_assert on non-zero prices dropped or turned into the stated precondition; R21 for the `[true, false]` loop of set_deltas; in try_add_amount the `&mut` to one of two fields is written as two branches',
    'proof hints: one in do_pay_for_cost (after the last assignment of *cost: the components of pay_spec), lemma_div_ceil_exact in the two fee units',
]
UNVERIFIED = [
    'PARTIAL: the statement is about whole histories of deposits, withdrawals, swaps and position operations. Under contract are the two mechanisms its anchors name - how the collateral processor pays each cost and where the paid tokens go, and the rounding of the funding indices - plus the backing lemma for ONE funding update. Deposits / withdrawals / swaps are C04-C06; the composition over histories is not mechanised',
    'funding: lemma_funding_backed needs the payer positions\' sizes to add up to the payer-side open interest of the collateral token (C07) and every position to have settled at the previous index (each increase / decrease settles pending_funding_fees and resets the position\'s indices - not under contract here); the per-side split of the funding value (next_funding_amount_per_size) is not under contract',
    'CollateralProcessor::process (closure chain, insolvent-close handling) and swap_profit_to_collateral_tokens (a swap: C04) are not under contract; a failed step leaves the processor partially updated and the action fails as a whole',
    'pay_for_fees_excluding_funding is proved to credit AT LEAST what the trader paid; that it credits EXACTLY that is false in one corner (known finding)',
]
ASSUMPTIONS = ['the fee totals satisfy the C02 split identity', 'prices are non-zero (validated at action creation)']
MANIFEST = dict(engine='verus',
    technique='Verus contracts on State::do_pay_for_cost (exact functional spec), CollateralProcessor::{add_pnl_token_amount, pay_to_primary_pool}, Context::{add_pnl_if_positive, add_price_impact_if_positive, pay_for_pnl_if_negative, pay_for_price_impact_if_negative, pay_for_funding_fees, pay_for_fees_excluding_funding, pay_for_price_impact_diff} (pay_for_cost inlined mechanically), ClaimableCollateral::try_add_amount, pack_to_funding_amount_per_size, unpack_to_funding_amount_delta, flags_to_index, UpdateFundingState::set_deltas, PositionExt::pending_funding_fees; inductive lemma lemma_funding_backed; native run of the extracted do_pay_for_cost text as replay',
    text='Deductive proof, unbounded over all amounts, prices and states: every cost is paid from the output amount, then the collateral, then the secondary output, and what leaves those amounts is exactly what is reported as paid; pnl, price impact and price-impact-diff steps move tokens between the liquidity pool / claimable buckets and the trader one for one (token totals per pool token unchanged); funding fees paid in the collateral token are credited to no pool (the collected-but-unclaimed residual), never exceed the fee amount, and the secondary-token part goes to the holding bucket; fees excluding funding credit the pools with at least what was paid. Funding indices: payer index rounded up twice, receiver index rounded down twice, amounts owed unpacked rounded up and claimable amounts rounded down; LEMMA: in one funding update, for each collateral token, receivers whose sizes add up to at most the receiver-side open interest can claim no more than payers whose sizes add up to the payer-side open interest owe.',
    note='Partial (mechanisms, one update); one known finding: a remaining cost below one secondary-token unit is forgiven.')


def _native(repo, args=()):
    from engine import native
    return native.run('native/C08.rs', repo, args)


def replay(ob, repo, seed):
    if 'do_pay_for_cost' not in ob['id'] and 'finding_remainder' not in ob['id']:
        return None
    r = _native(repo, ('finding',) if 'finding' in ob['id'] else ())
    if r['error']:
        return dict(failing_input=None, note='native run of the extracted text not possible: ' + r['error'])
    if r['fails']:
        return dict(failing_input=dict(function='State::do_pay_for_cost (text verbatim from /repo on plain-Rust carriers, T = u64)', cases=r['fails']),
                    note=f"bounded native search; first failing cases listed; {r['log']}")
    return dict(failing_input=None, note=f"{r['executions']} native executions of the extracted text satisfied the exact semantics")


FALLBACK_OBS = ['C08.State.do_pay_for_cost']


def extra(res, repo, tier, seed):
    if tier == 'thorough':
        r = _native(repo)
        res.bounded.append(dict(id='C08.native.do_pay_for_cost', bound='every state with output, collateral < 5, secondary < 4, cost < 40 at 4 x 5 price pairs (80 000 executions of the extracted text)', status='bounded-ok' if r['ok'] else 'bounded-failed', checks=r['executions'], time_s=None))
        if r['ok'] is False:
            res.obligations.append(dict(id='C08.native.do_pay_for_cost', engine='native-replay', status='failed', bounded=True, detail='; '.join(r['fails'])))
