PROPERTY = 'C29'
LEVEL = 'proof'
VERUS = ['verus/C29.rs']
TRUSTED = [
    'prelude / monomorphisation / U256 contract as in C01; glue_u128 forwarding wrappers (apply_factor_p, PriceP::checked_mid)',
    'assumed std contracts (vstd has none): u128::abs_diff, u128::pow, u128::div_ceil',
    'carriers UPrice{min,max: Decimal} (gmsol_utils::price::Price) and Decimal{value, decimal_multiplier}: hand-transcribed, field lists compared with the repo structs on every run (R11)',
    'unit rewrite (logged): `adjusted_price.get_or_insert(*price).<side> = X;` desugared to `{ let mut s = match adjusted_price { Some(a) => a, None => *price }; s.<side> = X; adjusted_price = Some(s); }` (same value of the local Option on every path; Verus has no spec for Option::get_or_insert)',
    'unit rewrite (logged): `gmsol_model::price::Price::<u128>::from(price)` => `PriceP::from(price)`, whose body IS the extracted `impl From<&gmsol_utils::price::Price> for Price<u128>`',
    'Decimal::{to_unit_price, with_unit_price} are called through their C26 contracts, which are re-proved in this same run',
]
UNVERIFIED = [
    'the caller try_adjust_price / OraclePrice construction (is_price_adjustment_allowed gate) and the rejection of inverted or still out-of-band prices by PriceValidator / SmallPrices::from_price: not under contract here (C24)',
    'no native replay: the function is private to gmsol-store (an Anchor program crate); a failed obligation is reported with the verifier output and no-failing-input-found',
]
ASSUMPTIONS = ['wf(Decimal) of the feed price and of the reference price: decimal_multiplier <= 20 (established by Decimal::try_from_price, proved under C26)']
MANIFEST = dict(engine='verus',
    technique='Verus contract on the private free function try_adjust_price_with_max_deviation_factor extracted by text from /repo each run, over the proved contracts of Decimal::{to_unit_price, with_unit_price}, apply_factor and Price::checked_mid',
    text='Deductive proof, unbounded over all feed prices (value, multiplier <= 20), explicit or mid reference prices and all u128 deviation factors: whenever the function returns an adjusted price that is not inverted (min <= max), both its sides lie in [ref - dev, ref + dev] with dev = floor(ref * factor / 10^20); no arithmetic overflow on any path (overflow of ref + dev, ref - dev < 0, or a clamped value beyond u32 gives None). Side by side, also for an inverted result: the max side is never above the band and is inside it unless it is the upper bound rounded down to its own step; the min side is never below the band and is inside it unless it is the lower bound rounded up - a side lying on the wrong side of the reference is always reset.',
    note='Trusted: Verus+Z3, assumed abs_diff/pow/div_ceil contracts, the get_or_insert desugaring, carriers. Caller-side rejection (PriceValidator) is C24 and listed as unverified.')
