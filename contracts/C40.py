PROPERTY = 'C40'
LEVEL = 'proof'
VERUS = ['verus/C40.rs']
_F = 'all account bytes symbolic; both crates compiled by Kani, no loop depends on symbolic data'
_ST = ['fmt::format', 'Error::with_values', 'apply_factor']
KANI = [
    dict(mode='rel', harness='c40_unsided_pools_agree', timeout=900, mem_gb=6, fn='Market / MarketModel :: liquidity_pool, claimable_fee_pool, swap_impact_pool, position_impact_pool, borrowing_factor_pool, total_borrowing_pool + both Pools::get'),
    dict(mode='rel', harness='c40_long_side_pools_agree', timeout=900, mem_gb=6, fn='Market / MarketModel :: open_interest_pool, open_interest_in_tokens_pool, collateral_sum_pool, funding_amount_per_size_pool, claimable_funding_amount_per_size_pool (long)'),
    dict(mode='rel', harness='c40_short_side_pools_agree', timeout=900, mem_gb=6, fn='the same five (short)'),
    dict(mode='rel', harness='c40_base_config_agrees', timeout=1500, mem_gb=6, fn='Market / MarketModel :: usd_to_amount_divisor, max_pool_amount, pnl_factor_config, reserve_factor, open_interest_reserve_factor, max_open_interest, ignore_open_interest_for_usage_factor, max_pool_value_for_deposit, total_supply, is_pure, funding_factor_per_second, funding_amount_per_size_adjustment, min_collateral_factor_for_open_interest_multiplier, Bank::balance'),
    dict(mode='rel', harness='c40_params_agree', timeout=900, mem_gb=6, fn='Market / MarketModel :: swap_impact_params, swap_fee_params, position_impact_params, position_impact_distribution_params, funding_fee_params, liquidation_fee_params'),
    dict(mode='rel', harness='c40_closed_market_params_agree', timeout=900, mem_gb=6, fn='Market / MarketModel :: borrowing_fee_params, borrowing_fee_kink_model_params, position_params + both MarketConfig closed-market helpers and flag readers'),
    dict(mode='rel', harness='c40_order_fee_discount_agrees', timeout=900, mem_gb=6, fn='MarketModel::set_order_fee_discount_factor + order_fee_params vs Market::order_fee_params().with_discount_factor'),
    dict(mode='rel', harness='c40_pool_twin_agrees', timeout=900, mem_gb=4, fn='both Pool :: long_amount, short_amount, apply_delta_to_long_amount, apply_delta_to_short_amount'),
    dict(mode='rel', harness='c40_position_state_agrees', timeout=900, mem_gb=6, fn='both Position::try_is_long, PositionState / PositionStateMut impls, Position field layout'),
    dict(mode='rel', harness='c40_token_side_agrees', timeout=900, mem_gb=6, fn='MarketMeta::to_token_side (program) vs MarketMeta::token_side (SDK)'),
    dict(mode='rel', harness='c40_config_keys_and_clocks_agree', timeout=2400, mem_gb=6, fn='both MarketConfig::get (66 keys), config flags, both Clocks::get, market flags'),
    dict(mode='rel', harness='c40_store_discount_factor_agrees', timeout=2400, mem_gb=9, stubs=_ST, fn='both Store::order_fee_discount_factor + GtState::order_fee_discount_factor + Store::get_factor_by_key'),
]
TRUSTED = [
    'Kani harness crate kani/rel links gmsol-store (program, feature cpi) and gmsol-programs (SDK, features model, utils, gmsol-utils - what gmsol-sdk enables) by path; both account types are built from ONE symbolic byte image via bytemuck (the zero-copy route both crates use), each side working on its own typed copy',
    'hook (f244e3d, feature `verif` of gmsol-model, off by default): PartialEq/Eq derived on the nine params structs so that two parameter groups can be compared; nothing else changes',
    'c40_store_discount_factor_agrees: gmsol_model::utils::apply_factor (under contract in C01) is stubbed by an UNINTERPRETED function (same arguments -> same result; result <= value when factor <= 1 and <= factor when value <= 1); alloc::fmt::format and anchor Error::with_values (error texts) are stubbed away',
    'Verus half: carriers RM (RevertibleMarket: market config + purity, the buffered OtherState behind other()/other_mut(), discount factor, pricing kind) and MM (MarketModel; `Deref` to the market and `Arc::make_mut` are the market itself for a uniquely owned model); FeeParams and its typed-builder are a carrier (derive macro of a dependency); unit rewrites logged',
]
UNVERIFIED = [
    'SIMULATION: "simulating a deposit, withdrawal, swap or position change produces the same results and resulting state" is NOT machine-checked as such. Both sides run the SAME generic gmsol_model actions (C02-C14 put those under contract) over their own trait implementations; what is proved here is that every trait method those actions can call returns the same value on the same state and that the mutable accessors address the same fields. The step from "all views and writes agree" to "the generic action agrees" is parametricity of Rust generics - an argument, not an obligation',
    'CLOCKS: passed_in_seconds_for_* / just_passed_in_seconds_for_* read the chain clock (program) and the wall clock (SDK: time::OffsetDateTime::now_utc); that both see the same time needs the clock-override hook the property names - not added; the clock VALUES stored in the account are compared (c40_config_keys_and_clocks_agree)',
    'VIRTUAL INVENTORIES differ by design (the program attaches them through RevertibleVirtualInventories, the SDK through with_vi_models); virtual_inventory_for_*_pool are not compared',
    'the mutable pool accessors of RevertibleMarket go through the revertible buffer (C16); compared are the immutable views of the committed state and, for positions, the mutable field accessors',
    'layout agreement is proved for every byte some compared view reads (all pools, all 66 config keys, flags, clocks, balances, funding factor, meta tokens, position fields, the store\'s rank table and referred-user factor) plus total sizes and alignments; reserved / padding bytes and fields no view exposes (name, store address, indexer, buffers) are compared only by total size',
    'debug assertions: a pure pool keeps its short slot at zero (assumed in c40_pool_twin_agrees: both sides carry the same debug assertion); discount factors are at most 1 and the stored max rank lies within the table (assumed in c40_store_discount_factor_agrees; established where they are set)',
]
ASSUMPTIONS = ['64-bit little-endian target for both sides (the harness target); the SDK is used with the feature set gmsol-sdk enables']
MANIFEST = dict(engine='kani',
    technique='relational Kani/CBMC harnesses on the two compiled crates: the program\'s zero-copy Market / Position / Pool / Store and the SDK\'s declare_program! types are built from ONE fully symbolic byte image and every gmsol_model trait view, the 66-key config table, flags, clocks, balances and the order-fee discount are compared (loop-free = complete); Verus twin contracts (both implementations against one spec function) for the methods that on the program side live behind RevertibleMarket',
    text='Complete proofs over all account contents (every byte of a 9168-byte market, of a position, of a pool, of the store symbolic): the SDK MarketModel and the program\'s Market return the same pool for every pool kind, the same value for every configuration parameter group (including the closed-market switch), the same flags, balances (pure markets included), clock values and funding factor; the two hand-written 66-key config tables agree key by key; the SDK twin of the pool arithmetic and of the position state (side, fields, mutable accessors) agrees with the program\'s on the same bytes; account sizes and alignments are equal; Store::order_fee_discount_factor agrees for every rank and referral status. Deductive (Verus) for all inputs: the program\'s RevertibleMarket and the SDK\'s MarketModel compute the same recorded balance, the same swap fee parameters for every pricing kind, the same discounted order fee parameters, and record transfers with the same result and the same resulting balances.',
    note='Partial: simulation agreement is an argument from per-method agreement (stated), clocks and virtual inventories are not compared. One cargo feature hook in gmsol-model (off by default).')


def extra(res, repo, tier, seed):
    """Fail closed if the config-key enum drifted from the committed key table the harness unrolls."""
    import re, os
    src = open(os.path.join(repo, 'crates/utils/src/market.rs')).read()
    blk = src[src.index('pub enum MarketConfigKey {'):]
    blk = blk[:blk.index('\n}')]
    keys = re.findall(r'^\s{4}(\w+),', blk, re.M)
    table = open(os.path.join(os.path.dirname(os.path.dirname(os.path.abspath(__file__))), 'kani/inc/store/keys.rs')).read()
    rows = re.findall(r'^\s+(\w+) => (DEFAULT_\w+),', table, re.M)
    if [k for k, _ in rows] != keys:
        res.undecided.append('MarketConfigKey set changed: table in kani/inc/store/keys.rs no longer matches the enum (lost anchor)')
    for f, names in (('crates/programs/src/model/market.rs', ['enum MarketFlag', 'enum MarketConfigFlag']),):
        t = open(os.path.join(repo, f)).read()
        for n in names:
            if n not in t:
                res.undecided.append(f'anchor lost: {f}: {n}')
