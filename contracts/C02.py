PROPERTY = 'C02'
LEVEL = 'proof'
VERUS = ['verus/C02.rs']
TRUSTED = [
    'prelude / monomorphisation / U256 contract as in C01 (instance u128, 20 decimals)',
    'data carriers (FeeParams, Fees, OrderFees, LiquidationFeeParams, LiquidationFees, BorrowingFees, Price, BalanceChange): hand-transcribed with public fields; field lists are compared with the repo structs on every run (R11), drift => exit 2',
    'Verus 0.2026.09.13 + bundled Z3; vstd',
]
UNVERIFIED = [
    'PositionFees::{for_receiver, for_pool, total_cost_excluding_funding}: sums whose values flow through unannotated closures (and_then with if-let); not extracted (out of Verus\' reach); their parts (fee_amount_for_pool of each kind) are under contract',
    'deposit / withdrawal / swap call sites of apply_fees: covered by the whole-action contracts of C04 / C05 (swap) and C06 (Deposit::charge_fees with the impact\'s balance change, Withdrawal::charge_fees with Worsened; verus/C06_deposit.rs), not repeated here',
]
ASSUMPTIONS = ['u128 instance only (the on-chain instance)']
MANIFEST = dict(engine='verus',
    technique='Verus contracts on FeeParams::{factor,discount_factor,fee,receiver_fee,apply_fees,order_fees}, LiquidationFeeParams::fee, *Fees::fee_amount_for_pool extracted from /repo each run, plus lemmas (discount monotone, valid config succeeds)',
    text='Deductive proof, unbounded, for ALL factors and amounts: apply_fees returning Some implies net + pool + receiver == amount, pool + receiver == fee, fee <= amount (so an invalid factor can only make it fail); fee equals floor(a*F/U) - floor(floor(a*F/U)*D/U) with F chosen by the balance change; factors <= 100% always succeed; a larger discount never raises the fee (lemma); order fee amount = floor(fee value / min price) split exactly; liquidation fee amount rounds up.',
    note='Trusted: Verus+Z3, prelude, assumed U256 contract. Unverified: PositionFees aggregate sums through closures; deposit/withdraw call sites.')


def replay(ob, repo, seed):
    from engine import replay as R
    import random
    if not any(k in ob['id'] for k in ('apply_fees', 'FeeParams.fee', 'order_fees', 'receiver_fee', 'FeeParams.factor', 'discount_factor')):
        return None
    U = 10 ** 20
    umax = (1 << 128) - 1
    rng = random.Random(seed)
    facs = [0, 1, U // 1000, U // 2, U - 1, U, U + 1, 2 * U, umax]
    amts = [0, 1, 2, 999, 10 ** 9, 10 ** 20, 10 ** 27 + 7, umax // U, umax]
    cases = []
    for _ in range(3000):
        pick = lambda xs: rng.choice(xs) if rng.random() < 0.7 else rng.getrandbits(rng.randint(1, 128))
        cases.append((pick(facs), pick(facs), pick(facs), rng.choice(['none', None]), rng.choice(['improved', 'worsened', 'unchanged']), pick(amts), pick([0, 1, 3, 10 ** 8, 10 ** 12]), 0))
    lines, exp = [], []
    for pos, neg, rcv, d, bc, amt, pmin, _ in cases:
        dd = 'none' if d == 'none' else str(rng.choice(facs))
        F = pos if bc == 'improved' else neg
        g = amt * F // U
        D = 0 if dd == 'none' else int(dd)
        want_fee = None
        if g <= umax:
            disc = g * D // U
            if disc <= g:
                want_fee = g - disc
        # apply_fees
        lines.append(f'u128.apply_fees {pos} {neg} {rcv} {dd} {bc} {amt}')
        if want_fee is None:
            exp.append('None')
        else:
            r = want_fee * rcv // U
            if r > umax or r > want_fee or want_fee > amt:
                exp.append('None')
            else:
                exp.append(f'Some({amt - want_fee},{want_fee - r},{r})')
    outs = R.call_native(repo, lines)
    for l, got, want in zip(lines, outs, exp):
        if got != want:
            return dict(failing_input=dict(call=l, observed=got, expected=want), note='native execution of the real FeeParams::apply_fees disagrees with the statement')
    return dict(failing_input=None, note=f'{len(lines)} native executions of apply_fees agreed with the big-integer oracle (seed {seed})')

FALLBACK_OBS = ['C02.FeeParams.apply_fees']
