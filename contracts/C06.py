PROPERTY = 'C06'
LEVEL = 'proof'
VERUS = ['verus/C06.rs']
TRUSTED = [
    'prelude / monomorphisation / U256 contract as in C01 (instance u128, 20 decimals); usd_to_market_token_amount, market_token_amount_to_usd, checked_mul_div are called through their C01 contracts, re-proved in this same run',
    'carrier Withdrawal{market: WMarket, params: WithdrawParams} for `Self`: market.pool_value(prices, kind, maximize) as a fallible table by (kind, maximize), total_supply() and liquidity_pool() as field reads; carrier LPool (Balance: long/short amount) with the extracted BalanceExt::{long_usd_value, short_usd_value}; WithdrawParams / Prices / Price carriers compared with the repo each run (R11)',
    'unit rewrites (logged): `utils::market_token_amount_to_usd(` => `market_token_amount_to_usd(`; the two closures `.and_then(|a| a.checked_div(<price>))` annotated with the exact specification of checked_div (checked by Verus against the closure body); the two repository debug_assert!(!price.has_zero()) kept as proved assertions under the call-site precondition of validated (non-zero) prices',
]
UNVERIFIED = [
    'THE DEPOSIT ACTION IS NOT UNDER CONTRACT: Deposit::execute / execute_deposit (fees, price impact, pool deltas, validations) -- only located by text on every run: the pool is valued with (MaxAfterDeposit, maximize = true), the deposited amount with price.pick_price(false), minted tokens by usd_to_market_token_amount (C01 contract: rounded down; first deposit at one USD per token / divisor)',
    'LiquidityMarketExt::pool_value is under contract as an exact formula over its reads (both sides\' token value with `maximize`, + the pool share of pending borrowing fees, - both sides\' pnl at the OPPOSITE extreme capped with the given kind, - the pending impact pool at the OPPOSITE index price); its reads (pool_value_without_pnl_for_one_side, total_pending_borrowing_fees (C13), pnl (C11), pending_position_impact_pool_distribution_amount (C14)) are fallible tables here. The hypothesis "w2 <= v1 + u" of lemma_round_trip (minimised withdrawal value after the deposit is at most the maximised deposit value before it plus the deposited value at min prices, with unchanged prices and no other activity) is NOT derived from that formula; the round-trip clause is proved from that hypothesis',
    'Withdrawal::execute (burn, fees on the outputs, pool deltas): not under contract; output_amounts, which fixes the amounts, is',
    '"all pool states reachable by deposits, withdrawals, swaps and positions": the lemmas hold for every supply, pool value and amount; reachability is not used',
    'no native replay registered for output_amounts (private method of the action); a failed obligation is reported with the verifier output and no-failing-input-found',
]
ASSUMPTIONS = ['output_amounts is called with validated (non-zero) prices (the repository asserts it in debug builds)']
MANIFEST = dict(engine='verus',
    technique='Verus contracts on Withdrawal::output_amounts and LiquidityMarketExt::pool_value (+ MarketUtils::cap_pnl) on carriers for Self, BalanceExt::{long,short}_usd_value, WithdrawParams accessors and the C01 units usd_to_market_token_amount / market_token_amount_to_usd, extracted from /repo each run; the statement as lemmas over those contracts',
    text='PARTIAL (pricing core + withdrawal amounts; the deposit action is located, not proved). Deductive proof, unbounded: a withdrawal values the pool with the MaxAfterWithdrawal kind MINIMISED, requires it positive, and whatever it pays out, valued at the max token prices, never exceeds floor(pool value x burnt tokens / supply); minted tokens are floor(supply x usd / pool value), and usd / divisor for the first deposit (one USD per token); pool_value equals the token value of both sides + the pool share of pending borrowing fees - the capped pnl of both sides taken at the opposite extreme - the pending impact pool at the opposite index price. Lemmas: round trip -- depositing usd value u at pool value v1 and supply s and burning all minted tokens at a pool value w2 <= v1 + u is worth at most u; neither leg dilutes the others: (v1 + u) s >= v1 (s + m) after a deposit and (v - out) s >= v (s - m) after a withdrawal.',
    note='Partial claim. Deposit::execute, LiquidityMarketExt::pool_value and the hypothesis linking the two pool values are listed as unverified.')


def extra(res, repo, tier, seed):
    import os, re
    s = open(os.path.join(repo, 'crates/model/src/action/deposit.rs')).read()
    for pat, what in [(r'self\.market\.pool_value\(\s*&self\.params\.prices,\s*PnlFactorKind::MaxAfterDeposit,\s*true,\s*\)\?', 'deposit values the pool with (MaxAfterDeposit, maximize = true)'),
                      (r'amount\s*\.checked_mul\(price\.pick_price\(false\)\)', 'deposited amount valued at the minimum price'),
                      (r'utils::usd_to_market_token_amount\(', 'minted tokens by usd_to_market_token_amount'),
                      (r'pool_value\.is_zero\(\) && !supply\.is_zero\(\)', 'zero pool value with existing supply is rejected')]:
        if not re.search(pat, s):
            res.undecided.append(f'anchor lost: deposit.rs: {what} (/{pat}/ not found)')
