PROPERTY = 'C18'
LEVEL = 'proof'
VERUS = ['verus/C18.rs']
TRUSTED = [
    'Verus 0.2026.09.13 + bundled Z3; vstd (incl. its support for functions returning `&mut` with final()-prophecy specifications, usize -> u8 try_into)',
    'type substitution: `&str` role names are carried as `&Name` (an abstract value with equality); `RoleKey::RESTART_ADMIN` is one fixed Name; Pubkey as two u128 words (only equality is used)',
    'carriers RoleMetadata{name, enabled, index}, RoleStore{roles, members} (field lists compared with the repo on every run, R11), Store{authority, role, last_restarted_slot} (the fields Store::{has_role, has_admin_role, is_authority, has_restarted} read)',
    'constants ROLE_ENABLED = u8::MAX, MAX_ROLES = 32, MAX_MEMBERS = 64: compared with /repo on every run',
    'anchor require*!/error!/err! macros per R5/R6 (err!(e) => Err(e), logged unit rewrite); `LastRestartSlot::get()?` => a fallible read of one uninterpreted sysvar value (logged unit rewrite; no source change)',
]
UNVERIFIED = [
    'ASSUMED CALLEE CONTRACT (statement of C34, no check built for it yet): the two fixed_map! instances RoleMap (key = sha256 of the name, NOT assumed injective; capacity 32) and Members (key = the address; capacity 64) behave as finite maps: get / get_mut / insert_with_options(new = true) / remove / len as specified on the external_body carriers in verus/C18.rs',
    'ASSUMED CALLEE CONTRACT (statement of C35, proved there by Kani at capacity 32): RoleMetadata::name_to_bytes accepts exactly the storable names and an accepted name reads back unchanged through bytes_to_name',
    'ASSUMED DEPENDENCY CONTRACT: bitmaps::Bitmap<32>::{new, from_value, into_value, get, set, is_empty} = bit i of a u32 (the consequences "a value with a set bit is non-zero / a zero value has no set bit" are stated in the contract and follow from lemma_zero_iff_no_bit, proved by bit_vector)',
    'the induction over operation sequences is by the representation invariant store_wf (established for the zeroed store by lemma_empty_store_wf, preserved by every operation) and the per-operation frame conditions; its composition over an unbounded history is not mechanised',
    'the instruction handlers that call these operations (enable_role, grant_role, ... with their #[access_control]) and Store::update_last_restarted_slot: not under contract',
    'no native replay: items of an Anchor program crate; a failed obligation is reported with the verifier output and no-failing-input-found',
]
ASSUMPTIONS = ['the LastRestartSlot sysvar is one arbitrary u64 per call; if it cannot be read the call fails (nobody is authorised by a failed call)']
MANIFEST = dict(engine='verus',
    technique='Verus contracts on RoleMetadata::*, RoleStore::{enable_role, disable_role, role_index, enabled_role_index, has_role, grant, revoke} and Store::{has_role, has_admin_role, is_authority, has_restarted} extracted from /repo each run, over assumed abstract-map (C34), stored-name (C35) and Bitmap contracts; representation invariant + per-operation frame conditions',
    text='Deductive proof, unbounded over all role stores satisfying the representation invariant (finite maps up to the 32/64 capacities, distinct role indexes below the role count, members have a grant, no grant bit beyond the role count), all addresses and names (hash collisions of names allowed): has_role answers Ok(true) exactly when the role is enabled and the address is granted it; grant adds exactly that grant, fails for an already-held or not-enabled role; revoke removes exactly that grant, fails for an absent one, and an address left without grants stops being a member; enable_role fails on an enabled role, otherwise enables it (a new role gets a fresh index nobody is granted); disable_role disables; every failed call changes nothing; every operation preserves the invariant, which the empty store satisfies. Restart rule: Store::has_role with a pending restart authorises exactly the restart admins, for every role; Store::has_admin_role is always true for the store authority, and for anyone else exactly for restart admins while a restart is pending.',
    note='Modular proof: the fixed-capacity maps, the stored-name round trip and the Bitmap crate are assumed callee contracts (listed); the composition over histories is by the invariant, not mechanised.')
