PROPERTY = 'C21'
LEVEL = 'proof'
VERUS = ['verus/C21.rs', 'verus/C21_market.rs']
TRUSTED = [
    'Verus 0.2026.09.13 + bundled Z3; vstd (FnOnce closures with requires/ensures, `&mut`-returning functions with final(), core::mem::swap, Option::expect)',
    'carriers Clocks{rev, t}, OtherState{rev, d}, PoolStorage{rev, pool}: the revision field plus an opaque payload (the buffer code only copies payloads); field lists of the repo structs compared on every run (R11). StateC{clocks, other} for `State` without the pool table',
    'the default methods of trait Cache and the bodies of the macro impl_cache! (is_dirty, set_rev, rev) are extracted by text and verified once per cached type (the macro is instantiated for exactly Clocks, PoolStorage, OtherState: compared by text on every run)',
    'rule R19 (logged per use): a zero-argument closure `|| EXPR` passed as the last argument is annotated with its return type and its own body as Verus-checked postcondition; the generic `f: impl FnOnce() -> T` is written as a named type parameter',
]
UNVERIFIED = [
    'market buffer pool table (verus/C21_market.rs): RevertibleBuffer::{pool, pool_mut, commit_to_storage} ARE under contract with the 16-arm table `Pools::get / get_mut` as an ASSUMED finite map from pool kind to PoolStorage (the kind -> field mapping itself: C17 / C40), `PoolKind::iter()` ASSUMED to visit every kind exactly once (strum EnumIter), and the MarketStateUpdated event built and emitted at the end of the commit CUT (it reads the buffer and writes nothing to the state; a failed emission panics, i.e. the transaction fails)',
    'RevertibleLiquidityMarket deferring mint and burn to commit, and the wiring "every operation begins with start_revertible_operation and ends with commit or is dropped": located by text, not proved',
    'the composition over interleavings is by the invariant (cached revisions never exceed the buffer revision: established by set_rev, preserved by begin) and the view function; the induction over an unbounded history is not mechanised',
    'revision overflow (u64) panics by construction (`expect("rev overflow")`): stated as a precondition of begin',
    'no native replay: pub(super)/pub(crate) items of an Anchor program crate; a failed obligation is reported with the verifier output and no-failing-input-found',
]
ASSUMPTIONS = []
MANIFEST = dict(engine='verus',
    technique='(market buffer pool table: Verus contracts on RevertibleBuffer::{pool, pool_mut, commit_to_storage} over a spec map of pool kinds, loop over the kinds with an invariant) Verus contracts on trait Cache::{cache_get_with, cache_get_mut_with}, the impl_cache! bodies, RevertiblePoolBuffer::{start_revertible_operation, commit_to_storage, pool, pool_mut}, RevertibleBuffer::{clocks, clocks_mut, other, other_mut, rev, start_revertible_operation} and PoolStorage::{pool, pool_mut}, extracted from /repo each run; reads and writes specified through a view function (own write of the current revision, else the stored value)',
    text='Market buffer: for every pool kind an operation reads its own write of the current revision, else the STORED pool; a write handle starts from what the operation observes and what is written through it is what it observes afterwards (other kinds, clocks, other state untouched); after commit_to_storage every stored pool, the clocks and the other state are the operation\'s write where it wrote and the old stored value where it did not, and the buffer is unchanged. Deductive proof, unbounded over all revisions and payloads: a read returns the value written during the current operation if there is one and the stored value otherwise; the first write of an operation starts from the stored value and marks the entry with the current revision, later writes continue from the operation\'s own value; writing never touches the stored state (it is only borrowed shared); beginning an operation increments the revision, after which every read returns the stored value again -- so an operation never reads what an abandoned one left behind; committing the single-pool buffer stores exactly what the operation observed and leaves the storage untouched if it wrote nothing.',
    note='Partial claim: the enum-keyed pool table and RevertibleBuffer::commit_to_storage are not covered (listed).')


def extra(res, repo, tier, seed):
    import os, re
    s = open(os.path.join(repo, 'programs/store/src/states/market/revertible/buffer.rs')).read()
    got = re.findall(r'impl_cache!\((\w+)\);', s)
    if sorted(got) != ['Clocks', 'OtherState', 'PoolStorage']:
        res.undecided.append(f'anchor drift: impl_cache! is instantiated for {got}, the check was written for Clocks, OtherState, PoolStorage')
    # the three text anchors of the market commit are gone: RevertibleBuffer::commit_to_storage is a unit now (verus/C21_market.rs)
