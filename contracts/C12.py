PROPERTY = 'C12'
LEVEL = 'proof'
VERUS = ['verus/C12.rs', 'verus/C12_deltas.rs']
TRUSTED = [
    'prelude / monomorphisation / U256 contract as in C01 (instance u128, 20 decimals); bound_magnitude, apply_factor, apply_exponent_factor, div_to_factor, to_signed, to_opposite_signed, checked_mul_div{,_ceil}, checked_round_up_div are called through their C01 contracts, re-proved in this same run',
    'carrier UpdateFundingState{market: FundingMarket{params, factor_per_second}} for `Self`: `self.market.funding_fee_params()` (fallible) and `self.market.funding_factor_per_second()` as field reads -- the method reads nothing else; carrier FundingFeeParams (field list compared each run, R11), its accessors and change() extracted and proved',
    'glue N::from_u64 (num_traits::FromPrimitive on u128); unit rewrites (logged): `use ...;` lines dropped, `utils::f(` => `f(`, `M::Num::from_u64` => `N::from_u64`, `Unsigned::bound_magnitude` => `N::bound_magnitude`, the closure of `.and_then(|v| v.checked_mul(&duration_value))` annotated with the exact specification of checked_mul (checked by Verus against the closure body)',
    'the repository debug_assert!(!price.is_zero()) in pack_to_funding_amount_per_size is kept as a proved assertion (R7) under the call-site precondition price != 0',
]
UNVERIFIED = [
    'the action UpdateFundingState::execute is under contract with next_funding_amount_per_size as an ASSUMED call returning an arbitrary report (the rate inside it: unit C12.next_funding_factor_per_second; the deltas: UpdateFundingState::set_deltas is a unit here too, verus/C12_deltas.rs over verus/inc/funding_deltas.rs shared with C08) - the index clause needs only that its eight deltas are unsigned, which is their type; Pool::apply_delta_to_long_amount / _short_amount are assumed trait contracts (store-side pool C15); the funding clock is a ghost log. "A position\'s pending funding fee is never negative" is the unsigned result of unpack_to_funding_amount_delta (which FAILS when an index moved backwards) - proved here; the position-side call is C08',
    'non-unit exponents of apply_exponent_factor (rust_decimal branch): the exact non-adaptive formula is stated for whole-unit exponents only; the bounds hold for every exponent',
    'store-side implementation of funding_fee_params() (config reads: C16) and of the clock (just_passed_in_seconds_for_funding)',
]
ASSUMPTIONS = ['pack_to_funding_amount_per_size is called with a non-zero price (Prices::validate at the action entry; the repository asserts it in debug builds)']
MANIFEST = dict(engine='verus',
    technique='(deltas: Verus contract on UpdateFundingState::set_deltas - loop over the two collateral tokens - with lemmas never-negative / receivers-never-above-payers, verus/C12_deltas.rs) Verus contracts on the action UpdateFundingState::execute (loop over the (side, collateral) walk with a count-based invariant, market carrier with the four index pools and a ghost clock log), apply_delta_to_funding_amount_per_size / apply_delta_to_claimable_funding_amount_per_size, the report accessors, on UpdateFundingState::next_funding_factor_per_second (on a carrier for Self), FundingFeeParams::change and accessors, pack_to_funding_amount_per_size and unpack_to_funding_amount_delta, extracted from /repo each run, over the C01 contracts; native replay on TestMarket<u128,20> with a big-integer oracle',
    text='The deltas of one update: for each collateral token the payers index delta is the funding value packed over the paying side open interest in that token at the token MAX price with both divisions rounded UP, stored in the slot of (paying side, token); the receivers claimable delta is the same value at the same price over the receiver interest rounded DOWN, stored in the slot of (receiving side, token); a delta is never negative and over the same interest the receivers delta never exceeds the payers. The action: each of the eight per-size indices (funding / claimable x side x collateral token) moves UP by exactly its unsigned delta, once, whatever the order of the walk - none ever decreases; the stored rate becomes the reported next rate; the funding clock is read and restarted exactly once. '
         + 'Deductive proof, unbounded over all open interests, durations, stored rates and parameter sets: with adaptive funding the rate used for the next period has a magnitude within [min, max] and the stored next rate within [0, max] (or the call fails, e.g. when min > max); without adaptive funding the rate is exactly min(raw, max) with raw = funding factor x |long - short|^e / (long + short) (whole-unit exponents), nothing is stored, and the larger side pays; no rate is produced without open interest; change() follows the two thresholds and increases against the skew. Funding amounts: pack = value x adjustment x UNIT / open interest / price with both divisions rounded the requested way (payer up, receiver down; lemma: payer >= receiver), unpack = size x (latest index - position index) / (adjustment x UNIT), computed only when the index did not go backwards and never negative. ONE KNOWN FINDING: the lower bound does not hold in the non-adaptive mode (listed with a concrete input).',
    note='Known finding C12::finding_non_adaptive_rate_below_minimum (by design, not repaired). The action loop that adds the deltas to the index pools is located, not proved (listed).')


def _oracle(dur, lo, so, stored, exp, ff, inc, dec, mx, mn, ts, td, got):
    U = 10 ** 20
    if got == 'Err':
        return None          # failing is allowed (overflow, min > max, empty open interest)
    import re
    m = re.match(r'Ok\((\d+),(true|false),(-?\d+)\)', got)
    if not m:
        return f'unparsable result {got}'
    mag, pays, nxt = int(m.group(1)), m.group(2) == 'true', int(m.group(3))
    if inc != 0:
        if not (mn <= mag <= mx):
            return f'adaptive: magnitude {mag} outside [{mn}, {mx}]'
        if abs(nxt) > mx:
            return f'adaptive: stored next rate {nxt} above the maximum {mx}'
    else:
        if mag > mx:
            return f'non-adaptive: magnitude {mag} above the maximum {mx}'
        if nxt != 0:
            return 'non-adaptive: a next rate is stored'
        if lo != so and pays != (lo > so):
            return 'non-adaptive: the smaller side pays'
        if exp == U and lo != so:
            d = abs(lo - so)
            a = 0 if d < U else d
            raw = ((a * U) // (lo + so)) * ff // U
            if mag != min(raw, mx):
                return f'non-adaptive: magnitude {mag}, expected min(raw, max) = {min(raw, mx)}'
    return None


def replay(ob, repo, seed):
    from engine import replay as R
    import random
    if 'next_funding_factor_per_second' not in ob['id']:
        return None
    rng = random.Random(seed)
    U = 10 ** 20
    cases = []
    for _ in range(4000):
        lo = rng.choice([1, U, 2 * U, 10 ** 6 * U, 10 ** 6 * U + U, rng.getrandbits(rng.randint(1, 100))]) or 1
        so = rng.choice([1, U, 3 * U, 10 ** 6 * U, lo, rng.getrandbits(rng.randint(1, 100))]) or 1
        stored = rng.choice([0, 1, -1, 10 ** 11, -10 ** 11, 5 * 10 ** 12, -5 * 10 ** 12, rng.getrandbits(50) - (1 << 49)])
        inc = rng.choice([0, 0, 1, 10 ** 9, 10 ** 12])
        dec = rng.choice([0, 1, 10 ** 9])
        mx = rng.choice([0, 10 ** 9, 10 ** 12, 10 ** 13])
        mn = rng.choice([0, 1, 3 * 10 ** 10, mx, mx + 1])
        cases.append((rng.choice([0, 1, 60, 3600, 10 ** 9]), lo, so, stored, U, rng.choice([0, 20, 2 * 10 ** 12, 10 ** 20]), inc, dec, mx, mn,
                      rng.choice([0, 10 ** 18, 5 * 10 ** 19]), rng.choice([0, 10 ** 17, 10 ** 19])))
    lines = ['funding.next ' + ' '.join(str(x) for x in c) for c in cases]
    outs = R.call_native(repo, lines)
    for c, l, got in zip(cases, lines, outs):
        why = _oracle(*c, got)
        if why:
            return dict(failing_input=dict(call=l, observed=got, violated=why),
                        note='native execution of the real next_funding_factor_per_second (TestMarket<u128,20>); arguments: duration, long OI, short OI, stored rate, exponent, funding factor, increase, decrease, max, min, threshold stable, threshold decrease')
    return dict(failing_input=None, note=f'{len(lines)} native executions satisfied the bounds (seed {seed})')


FALLBACK_OBS = ['C12.next_funding_factor_per_second']


def extra(res, repo, tier, seed):
    # no text anchors left: UpdateFundingState::set_deltas is a unit (verus/inc/funding_deltas.rs, run by verus/C12_deltas.rs)
    return
