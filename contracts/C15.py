PROPERTY = 'C15'
LEVEL = 'proof'
_H = ['c15_pure_views_add_up', 'c15_impure_views_are_the_fields', 'c15_pure_delta_changes_total_exactly',
      'c15_impure_delta_touches_one_side', 'c15_cancel_leaves_parity_remainder', 'c15_checked_apply_delta_is_sequential_application']
KANI = [dict(mode='ws:gmsol-store', harness=h, timeout=300, fn='gmsol_store::states::market::pool::Pool (Balance/Pool impls)') for h in _H]
ASSUMPTIONS = ['wf(pure pool): the unused short slot is zero (the code\'s own debug_assert; established by Pools::init on a zeroed market and preserved by every operation, checked as a postcondition here)']
UNVERIFIED = ['SDK twin crates/programs/src/model/pool.rs: see C40']
MANIFEST = dict(engine='kani',
    technique='Kani/CBMC loop-free harnesses over the full u128/i128 domain on the real gmsol_store Pool (in-crate harness via cfg(kani) hook)',
    text='Complete proof per operation (loop-free, all bits symbolic): for a pure pool long_amount()+short_amount() equals the stored total and differ by at most one; a delta on either side changes the total by exactly that amount or fails leaving the pool bit-identical; netting leaves total & 1; impure pools keep the two sides independent; checked_apply_delta equals sequential application. Histories follow by induction (each operation re-establishes wf).',
    note='Trusted: Kani 0.68/CBMC 6.11. Pool built from symbolic words via bytemuck (zero-copy layout).')
