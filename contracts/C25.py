PROPERTY = 'C25'
LEVEL = 'proof'
_ST = ['Sysvar>::get', 'with_values']
KANI = [
    dict(mode='ws:gmsol-store', harness='c25_update_contract', timeout=900, stubs=_ST, fn='gmsol_store::states::oracle::feed::PriceFeed::update'),
    dict(mode='ws:gmsol-store', harness='c25_strict_mode_rejects_older', timeout=900, stubs=_ST, fn='gmsol_store::states::oracle::feed::PriceFeed::update'),
    dict(mode='ws:gmsol-store', harness='c25_initial_feed_satisfies_invariant', timeout=300, fn='PriceFeed::default'),
]
ASSUMPTIONS = ['Clock sysvar replaced by a fully symbolic Clock (Kani stub)', 'anchor_lang::error::Error::with_values stubbed as identity (error message values are not part of the contract)']
UNVERIFIED = ['the instruction handler that calls PriceFeed::update (account loading, authority check) is outside the contract']
MANIFEST = dict(engine='kani',
    technique='Kani/CBMC loop-free harness, PriceFeed and PriceFeedPrice fully symbolic (zero-copy words), Clock sysvar stubbed symbolic',
    text='Complete proof per update over every feed state, price, slot, clock and both modes: Ok(true) implies timestamp non-decreasing, min<=price<=max stored, slot/publish time non-decreasing, only those fields change; Ok(false) only in idempotent mode for an older price with state bit-identical; Err leaves state bit-identical; strict mode never skips. The zeroed initial feed satisfies the invariant, so it holds after any sequence by induction.',
    note='Trusted: Kani/CBMC; Clock stub = arbitrary clock; error-value formatting stubbed away.')
