PROPERTY = 'C14'
LEVEL = 'proof'
VERUS = ['verus/C14.rs']
TRUSTED = [
    'prelude / monomorphisation / U256 contract as in C01 (instance u128, 20 decimals); apply_factor is called through its C01 contract, re-proved in this same run',
    'carrier ImpactMarket{pool_amount, params} for `Self`: `position_impact_pool_amount()` and `position_impact_distribution_params()` are modelled as fallible field reads (the method reads nothing else from the market)',
    'carrier PositionImpactDistributionParams{distribute_factor, min_position_impact_pool_amount}: field list compared with the repo struct on every run (R11); its two accessors are extracted and proved',
    'glue N::from_u64: <u128 as num_traits::FromPrimitive>::from_u64 is Some(n as u128)',
    'unit rewrites (logged): `use crate::utils;` dropped, `utils::apply_factor(` => `apply_factor(`, `Self::Num::from_u64` => `N::from_u64`',
]
UNVERIFIED = [
    'the action: ASSUMED callee contracts - Pool::apply_delta_to_long_amount (required trait method: checked signed addition on the long slot; store-side pool C15) and just_passed_in_seconds_for_position_impact_distribution (hands out the seconds since the last call and restarts the clock; a ghost log of the durations handed out); what elapsed time the clock reports is store-side / wall-clock behaviour',
    'the store-side implementation of the two accessors (programs/store Market as PositionImpactMarket): config-key reads are C16',
    'u64 instance (model tests only): not instantiated here',
]
ASSUMPTIONS = []
MANIFEST = dict(engine='verus',
    technique='Verus contracts on the action DistributePositionImpact::execute and PositionImpactMarketMutExt::apply_delta_to_position_impact_pool (market carrier with ghost clock log) and on the trait-default method PositionImpactMarketExt::pending_position_impact_pool_distribution_amount, extracted from /repo each run and placed on a carrier for Self (two field reads), over the proved contract of apply_factor',
    text='Deductive proof, unbounded over all pool amounts, minimum amounts, distribution rates and elapsed seconds (u64): Ok((d, next)) implies d == min(floor(secs * rate / 10^20), current - min) when rate != 0 and current > min, else d == 0; next == current - d, so the pool never increases, and never drops below the configured minimum if it started above it; a readable market with representable secs * rate always succeeds. The action reads and restarts the clock exactly once, computes the distribution for exactly the seconds the clock handed out, and shrinks the long slot of the impact pool by exactly the distributed amount (the reported next amount is the new pool amount; nothing else moves).',
    note='Trusted: Verus+Z3, prelude, carriers for Self; the pool slot write and the clock are assumed callee contracts (listed).')


def replay(ob, repo, seed):
    from engine import replay as R
    import random
    if 'pending_position_impact_pool_distribution_amount' not in ob['id']:
        return None
    rng = random.Random(seed)
    U = 10 ** 20
    umax = (1 << 128) - 1
    imax = (1 << 127) - 1
    cases = []
    for _ in range(4000):
        cur = rng.choice([0, 1, 2, 10 ** 9, 10 ** 9 + 1, 10 ** 18, rng.getrandbits(rng.randint(1, 126))])
        mn = rng.choice([0, 1, cur, max(0, cur - 1), cur + 1, cur // 2, rng.getrandbits(rng.randint(1, 127))])
        rate = rng.choice([0, 1, U // 1000, U, 3 * U, U * 10 ** 6, rng.getrandbits(rng.randint(1, 100))])
        secs = rng.choice([0, 1, 2, 59, 3600, 86400 * 365, (1 << 64) - 1, rng.getrandbits(rng.randint(1, 64))])
        cases.append((cur, mn, rate, secs))
    lines = [f'impact.pending {c} {m} {r} {s}' for c, m, r, s in cases]
    outs = R.call_native(repo, lines)
    for (cur, mn, rate, secs), l, got in zip(cases, lines, outs):
        acc = secs * rate // U
        d = 0 if (rate == 0 or cur <= mn) else min(acc, cur - mn)
        want = f'Ok({d},{cur - d})'
        if acc > umax and got == 'Err':
            continue   # rate x seconds not representable: failing is allowed (not pinned by the statement)
        if got != want:
            return dict(failing_input=dict(call=l, observed=got, expected=want),
                        note='native execution of the real pending_position_impact_pool_distribution_amount (TestMarket<u128,20>) disagrees with the statement; arguments: current pool amount, minimum, rate, seconds')
    return dict(failing_input=None, note=f'{len(lines)} native executions agreed with the big-integer oracle (seed {seed})')


FALLBACK_OBS = ['C14.pending_position_impact_pool_distribution_amount']


def extra(res, repo, tier, seed):
    pass
