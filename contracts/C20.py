PROPERTY = 'C20'
LEVEL = 'proof'
VERUS = ['verus/C20.rs']
TRUSTED = [
    'carriers: config keys / flags / factors are opaque codes; parsing a key name and the key -> factor conversion (strum / num_enum derives) are uninterpreted deterministic functions; the two permission bitmaps (gmsol_utils::flags!) and the MarketConfig table are external types with set / table contracts (single-slot read-modify-write; under contract in C16); role names are distinct ids',
    'AccountLoader::load()? / load_mut()? are dropped (unit rewrites, logged): the context is taken by `&mut` and its accounts are plain fields - a loader that fails makes the instruction fail before anything is written; `msg!` dropped (R16); `require_gt!` per R6; `Clock::get()?` is an arbitrary fallible read of the transaction time',
    '`for entry in buffer.iter()` and `for role in roles` are written as indexed while loops (unit rewrites) with the stated invariants; `roles` is the two-element array the only caller passes',
]
UNVERIFIED = [
    'ASSUMED: Authenticate::only_market_keeper(ctx) succeeds exactly when the authority holds MARKET_KEEPER, and Store::has_role is a deterministic read (its meaning - enabled role granted and not revoked - is C18)',
    'that the three instructions run behind #[access_control(ensure_can_update_market_config(&ctx))], and that the buffer belongs to the store and the authority (Anchor `has_one` constraints), are located by text anchors, not proved',
    'signer checks and account ownership are Anchor constraints (outside both verifiers)',
]
ASSUMPTIONS = ['Store::has_role is deterministic within one instruction']
MANIFEST = dict(engine='verus',
    technique='Verus contracts on unchecked_update_market_config / _flag / _with_buffer (whole bodies), MarketConfigPermissions::{is_flag_updatable, set_flag_updatable, to_factor, is_factor_updatable, set_factor_updatable}, Market::{get_config_by_key_mut, set_config_flag_by_key, update_config_with_buffer}, Authentication::ensure_has_any_role, Authenticate::ensure_can_update_market_config, extracted from /repo each run onto carriers',
    text='Deductive proof, unbounded over all keys, flags, permission tables, role assignments and buffers of any length: a value or flag is written only for a valid key that is currently marked updatable, or by a market keeper, and exactly that slot changes (a rejected update writes nothing); a buffer is applied only if it has not expired and either the authority is a market keeper or EVERY entry names a valid key marked updatable (one other entry rejects the whole buffer), and then every entry is written, in order, to the slot of its own key; the gate in front of the three instructions passes only for a market keeper or a market-config keeper and rejects an authority holding neither; changing a permission changes exactly that key or flag.',
    note='Role semantics (C18), the config table (C16) and the Anchor account constraints are assumed / located by text.')


def extra(res, repo, tier, seed):
    import os, re
    s = open(os.path.join(repo, 'programs/store/src/lib.rs')).read()
    for fn in ('update_market_config', 'update_market_config_flag', 'update_market_config_with_buffer'):
        if not re.search(r'#\[access_control\(internal::Authenticate::ensure_can_update_market_config\(&ctx\)\)\]\s*pub fn %s\(' % fn, s):
            res.undecided.append(f'anchor lost: lib.rs: `{fn}` is no longer guarded by #[access_control(internal::Authenticate::ensure_can_update_market_config(&ctx))]')
    for fn, callee in (('update_market_config', 'unchecked_update_market_config'), ('update_market_config_flag', 'unchecked_update_market_config_flag'), ('update_market_config_with_buffer', 'unchecked_update_market_config_with_buffer')):
        if not re.search(r'pub fn %s\([^)]*\)\s*->\s*Result<\(\)>\s*\{\s*instructions::%s\(ctx' % (fn, callee), s):
            res.undecided.append(f'anchor lost: lib.rs: `{fn}` no longer just calls instructions::{callee}')
    m = open(os.path.join(repo, 'programs/store/src/instructions/market.rs')).read()
    if not re.search(r'has_one = store,\s*(?:///[^\n]*\n\s*)*has_one = authority', m) and not re.search(r'pub struct UpdateMarketConfigWithBuffer<.info>.*?has_one = store.*?has_one = authority', m, re.S):
        res.undecided.append('anchor lost: UpdateMarketConfigWithBuffer: the buffer account is no longer constrained by has_one = store / has_one = authority')
