PROPERTY = 'C27'
LEVEL = 'proof'
KANI = [
    dict(mode='ext', harness='c27_is_market_open_matches_statement', timeout=300,
         fn='gmsol_utils::price::feed_price::PriceFeedPrice::is_market_open'),
    dict(mode='ext', harness='c27_openness_table', timeout=120,
         fn='gmsol_utils::price::market_status::MarketStatus::openness'),
]
ASSUMPTIONS = [
    'Kani 0.68 / CBMC 6.11 bit-precise semantics of the compiled crate gmsol-utils',
    'price flag byte restricted to the three defined flags (bits 0..2); the bitmap type masks the others',
]

MANIFEST = {'engine': 'kani', 'technique': 'Kani/CBMC loop-free harness over the full bit domain of every input, real gmsol-utils crate, spec evaluated in i128', 'text': 'Complete proof (loop-free, every input bit symbolic): PriceFeedPrice::is_market_open on the real zero-copy struct equals the statement evaluated in 128-bit arithmetic for all i64 timestamps, u32 diffs/timeouts, all status bytes and policy bytes; MarketStatus::openness table exhaustive.', 'note': 'Trusted: Kani 0.68/CBMC 6.11 and rustc MIR semantics. Price flag byte restricted to the three defined flag bits.'}
