PROPERTY = 'C39'
LEVEL = 'proof'
VERUS = ['verus/C39.rs', 'verus/C39_invoke.rs']
TRUSTED = [
    'Verus 0.2026.09.13 + bundled Z3; vstd (incl. its specs of Ord::min/max on i64, Vec::{remove, insert, truncate, len}, Option::{map, unwrap_or})',
    'assumed std contract (vstd has none): i64::saturating_add',
    'carriers Competition / Participant / LeaderEntry: the fields the functions touch; full field lists of the repo structs compared on every run (R11); Pubkey as two u128 words (only equality is used)',
    'Clock::get() replaced by a fallible read of one uninterpreted clock value now_spec() (logged unit rewrite); msg! dropped (R16); debug_assert! kept as a proved assertion (R7)',
    'rules R17/R18 (logged per use): `<vec>.iter().position(|v| P)` / `.rposition(|v| P)` become calls of slice_position / slice_rposition -- ordinary loops over the vector, verified in the template -- with the closure kept and given its own body as its Verus-checked postcondition; `.map(|v| EXPR)` on the resulting Option likewise. Trusted: slice::Iter::position / rposition visit front-to-back / back-to-front and return the index from the front of the first match',
    'MAX_LEADERBOARD_LEN = 5: compared with /repo on every run',
]
UNVERIFIED = [
    'the induction over histories is by the per-step contract plus lemma_left_off_preserved and lemma_empty_board_wf; the quantification over ALL participants (one bystander at a time) and the link "shown volume == that participant\'s stored volume" are carried by the step contract, the composition over an unbounded sequence of trades is not mechanised',
    'the call site OnExecuted::invoke IS under contract as a whole handler (verus/C39_invoke.rs): `with_participant(|comp, part| BODY)` (rebuilds the participant account, checks it belongs to this trader and competition, runs BODY, writes it back) is replaced by BODY on the two carrier fields, the trade-event loader is a projection, the Clock sysvar one uninterpreted value; the link "what the board shows for a trader is at most their stored cumulative volume" is a precondition of the handler (it is an equality after every counted trade, by step_post); signer / PDA checks are Anchor constraints',
    'native replay of update_leaderboard runs the function TEXT (verbatim) on plain-Rust carriers over a small domain (7 addresses, volumes 0..=4, every well-formed board): a bounded search used only to find a failing input / as fallback when the function leaves the Verus subset; never counted as discharged',
]
ASSUMPTIONS = ['wf(Competition): end_time >= 0, extension_duration > 0, extension_cap >= extension_duration (enforced by initialize_competition; proved to be preserved by extend_competition_time)',
               'update_leaderboard is called with the trader\'s cumulative volume, which is at least the volume they are currently shown with (saturating_add at the call site; located by text)']
MANIFEST = dict(engine='verus',
    technique='(call site: Verus contract on the whole handler OnExecuted::invoke and Competition::is_ongoing) Verus contracts on the private associated functions OnExecuted::{update_leaderboard, extend_competition_time} extracted by text from /repo each run; Vec remove/insert/truncate through vstd, iterator position/rposition through verified loop helpers (rules R17/R18); sequence lemmas for the removal, insertion and truncation steps; bounded native run of the extracted text for replay',
    text='The handler: only a successful order callback during the competition with a non-zero-volume trade event OF THIS TRADER is counted (anything else changes nothing; somebody else\'s event is an error); a counted trade adds its volume (size increase only, or absolute size change) to the trader\'s cumulative volume, saturating, BEFORE the board is updated with exactly that volume; the end time never moves earlier nor past the later of the old end time and now + cap. Deductive proof, unbounded. Leaderboard step (any well-formed board of up to five entries, any trader, any cumulative volume not below the shown one): afterwards the board has at most five pairwise distinct traders in non-increasing order of volume; the trader is shown with the latest volume or is left off a full board whose last entry has at least as much; every other shown trader keeps their volume or is pushed off a full board whose last entry has at least as much; nobody else appears; the board never loses a place and the last volume of a full board never drops; lemma: a bystander who was left off stays left off with no more volume than the last entry; the empty initial board is well formed. Extension (all i64 clocks, saturating sums included): never earlier, never past the later of the old end time and now + cap; a failed call changes nothing; the competition invariant is preserved.',
    note='The composition of steps over an unbounded history is by induction on the per-step contract (not mechanised). Call sites in OnExecuted::invoke are located, not proved.')


def _native(repo):
    from engine import native
    return native.run('native/C39.rs', repo)


def replay(ob, repo, seed):
    if 'update_leaderboard' not in ob['id']:
        return None
    r = _native(repo)
    if r['error']:
        return dict(failing_input=None, note='native run of the extracted text not possible: ' + r['error'])
    if r['fails']:
        return dict(failing_input=dict(function='OnExecuted::update_leaderboard (text verbatim from /repo on plain-Rust carriers)', cases=r['fails']),
                    note=f"bounded native search over every well-formed board of <= 5 entries with 7 addresses and volumes 0..=3; first failing cases listed; {r['log']}")
    return dict(failing_input=None, note=f"{r['executions']} native executions of the extracted text (every well-formed board, 7 addresses, volumes 0..=3) satisfied the step postcondition")


FALLBACK_OBS = ['C39.update_leaderboard']


def extra(res, repo, tier, seed):
    import os, re
    # the two text anchors of the call site are gone: OnExecuted::invoke is a unit now (verus/C39_invoke.rs)
    if tier == 'thorough':
        r = _native(repo)
        res.bounded.append(dict(id='C39.native.update_leaderboard', bound='every well-formed board of <= 5 entries over 7 addresses and volumes 0..=3, every trader and new volume up to 4', status='bounded-ok' if r['ok'] else 'bounded-failed', checks=r['executions'], time_s=None))
