PROPERTY = 'C39'
LEVEL = 'proof'
VERUS = ['verus/C39.rs']
TRUSTED = [
    'Verus 0.2026.09.13 + bundled Z3; vstd (incl. its specs of Ord::min/max on i64)',
    'assumed std contract (vstd has none): i64::saturating_add',
    'carriers Competition / Participant: the fields the function touches; full field lists of the repo structs compared on every run (R11); Pubkey as two u128 words',
    'Clock::get() replaced by a fallible read of one uninterpreted clock value now_spec() (logged unit rewrite); msg! dropped (R16); debug_assert! kept as a proved assertion (R7)',
]
UNVERIFIED = [
    'THE LEADERBOARD HALF OF THE PROPERTY IS NOT COVERED: OnExecuted::update_leaderboard (at most five distinct traders, non-increasing order, latest volume, left-off participants not above the last entry) works on Vec::remove / insert / truncate with iterator closures (position / rposition), outside Verus\' subset; the planned Kani harness is not built. A change to update_leaderboard is NOT detected by this check.',
    'the call site in OnExecuted::invoke (extension only when the volume threshold is exceeded and the competition is ongoing): not under contract',
    'no native replay: private fn of an Anchor program crate; a failed obligation is reported with the verifier output and no-failing-input-found',
]
ASSUMPTIONS = ['wf(Competition): end_time >= 0, extension_duration > 0, extension_cap >= extension_duration (enforced by initialize_competition; proved to be preserved by extend_competition_time)']
MANIFEST = dict(engine='verus',
    technique='Verus contract on the private associated function OnExecuted::extend_competition_time extracted by text from /repo each run',
    text='PARTIAL (extension clause only). Deductive proof, unbounded over all end times, durations, caps and clock values (full i64, saturating sums included): an extension never moves the end time earlier and never past the later of the old end time and now + cap; a failed call changes nothing; no arithmetic overflow in the logged difference; the competition invariant is preserved. The leaderboard clauses are not covered by any check (listed as unverified).',
    note='Partial claim: only the time-extension clause of C39. update_leaderboard (Vec + iterator closures) is outside Verus and no Kani harness is built for it.')
