PROPERTY = 'C04'
LEVEL = 'proof'
VERUS = ['verus/C04.rs']
TRUSTED = [
    'prelude / monomorphisation / U256 contract as in C01 (instance u128, 20 decimals); FeeParams::{apply_fees, fee, receiver_fee, factor, discount_factor} are the C02 units, re-proved in this same run; to_signed / to_opposite_signed / checked_mul_div through their C01 contracts',
    'carrier Swap{market: SMarket, params} for `Self`; SMarket holds the three pools a swap touches (liquidity, swap impact, claimable fee) and the optional virtual inventory as two-sided amounts, with real (verified) `&`/`&mut` accessors; Delta<&Signed> carrier with all five constructors extracted and proved; SwapParams / SwapResult / SwapReport / PriceImpact / Prices carriers compared with the repo each run (R11)',
    'type bridging (logged): Swap::execute takes `mut self` in the repository; the unit is verified with `&mut self` so that the market after the call can be named in the postcondition (the body is unchanged; `self.params` is Copy); the `market: &self.market` field of Cache is dropped (a back-reference used only by the validations); `virtual_inventory_for_swaps_pool_mut` returns Option<&mut Pool> instead of Option<impl DerefMut>',
    'the repository\'s three debug_assert!s on the sign of the impact amounts are kept as proved assertions (R7), discharged from the assumed sign contract of swap_impact_amount_with_cap',
]
UNVERIFIED = [
    'ASSUMED CALLEE CONTRACTS (external_body carriers, listed by the mechanical scan): Pool::checked_apply_delta (required trait method: both sides move by their delta or the call fails; store-side pool: C15), BaseMarketExt::checked_apply_delta (the liquidity pool moves by the delta), SwapMarketExt::swap_impact_value, Swap::reassign_values, Balance::pool_delta_with_values and Price::mid (arbitrary results: they only feed the impact VALUE, which conservation does not depend on), the three validations on the cache (fallible, no state change)',
    'the virtual inventory for swaps is written by execute when present; its own conservation is not part of the statement and not stated',
    '"all market states reachable by deposits, withdrawals and swaps": the contract holds for EVERY pool state, reachability is not used',
    'the store-side wrappers (RevertibleSwapMarket, swap along a path: C44) are not covered here',
    'no native replay registered; a failed obligation is reported with the verifier output and no-failing-input-found',
]
ASSUMPTIONS = []
MANIFEST = dict(engine='verus',
    technique='Verus contracts on the whole Swap::{try_execute, charge_fees, execute} and the Delta constructors, extracted from /repo each run onto carriers for Self and the market (with `&mut`-returning pool accessors), over the C02 fee-split contract, the proved contract of swap_impact_amount_with_cap (same unit as C05) and assumed pool-delta contracts; the conservation statement is the postcondition of execute',
    text='Deductive proof, unbounded over all pool states, input amounts and sides, fee parameters and impact outcomes (positive with and without cap, negative, zero): Swap::try_execute computes new pools that hold exactly the input amount more of the input token (liquidity + swap impact pool + claimable fees) and exactly the paid-out amount less of the output token; Swap::execute writes exactly those pools, so a successful swap increases the market\'s holdings of the input token by exactly the input amount and decreases the holdings of the output token by exactly token_out_amount; a failed swap leaves every pool of the market unchanged (the only fallible step precedes every write).',
    note='The callee contracts listed as assumed (pool delta application, impact value) are not proved here; swap_impact_amount_with_cap is proved in this run.')
