PROPERTY = 'C33'
LEVEL = 'proof'
VERUS = ['verus/C33.rs']
TRUSTED = [
    'Verus 0.2026.09.13 + bundled Z3; vstd',
    'carrier Pubkey{hi, lo: u128}: a faithful 32-byte value with structural equality; DEFAULT_PUBKEY = all zero; ReferralCodeBytes ([u8; 8]) carried as one u64, default = 0 (logged unit rewrite of `ReferralCodeBytes::default()`)',
    'carriers Referral / UserHeader / ReferralCodeV2: the fields these functions touch; the full field lists of the repo structs are compared on every run (R11); UserFlagContainer{initialized} for the flags!-generated container',
    'anchor require*!/error! macros per R5/R6',
]
UNVERIFIED = [
    'never mutual: the set_referrer instruction HANDLER is under contract (unit C33.set_referrer_handler: a user whose would-be referrer was referred by that user is rejected; a success is exactly Referral::set_referrer on the two accounts); never self-referential: enforced by the SetReferrer account constraint `referrer_user.key() != user.key() @ SelfReferral` (an Anchor attribute, outside the verifier): located by text',
    'accept_referral_code: the proposed owner must sign (`next_owner: Signer`, `receiver_user.owner == next_owner.key()`): Anchor constraints located by text, not proved; the state function it calls (unchecked_complete_code_transfer) is proved to move ownership only to `code.next_owner`',
    'uniqueness of the code account per code bytes (PDA seeds) is runtime/Anchor behaviour',
    'no native replay: pub(crate) items of an Anchor program crate; a failed obligation is reported with the verifier output and no-failing-input-found',
]
ASSUMPTIONS = []
MANIFEST = dict(engine='verus',
    technique='(handler: Verus contract on the set_referrer instruction handler) Verus contracts on Referral::{set_referrer, set_code, referrer, code}, ReferralCodeV2::{set_next_owner, next_owner}, UserHeader::{unchecked_transfer_code, unchecked_complete_code_transfer, is_initialized} and optional_address, extracted from /repo each run',
    text='Deductive proof, unbounded over all account states: a referrer (and a code) once set is never replaced and a rejected call changes nothing; the recorded referrer is the non-default owner of the referrer account; proposing a code transfer never moves the ownership; completing it succeeds only towards the recorded next owner and a user that holds no code, after which exactly the receiver holds the code (owner field, receiver code set, previous holder cleared); referrer relations are untouched by code transfers. Self/mutual-referral exclusion and the signer requirement live in Anchor account constraints: located, not proved.',
    note='Trusted: Verus+Z3, carriers. Handler/Anchor-constraint clauses (self, mutual, signer) are listed as unverified.')


def extra(res, repo, tier, seed):
    import os, re
    s = open(os.path.join(repo, 'programs/store/src/instructions/user.rs')).read()
    for pat, what in [(r'constraint = referrer_user\.key\(\) != user\.key\(\) @ CoreError::SelfReferral', 'SetReferrer self-referral constraint'),
                      (r'unchecked_complete_code_transfer\(', 'accept_referral_code calls unchecked_complete_code_transfer'),
                      (r'pub next_owner: Signer<', 'accept_referral_code requires the next owner to sign')]:
        if not re.search(pat, s):
            res.undecided.append(f'anchor lost: instructions/user.rs: {what} (/{pat}/ not found)')
