PROPERTY = 'C03'
LEVEL = 'proof'
VERUS = ['verus/C03.rs', 'verus/C03_worse.rs']
TRUSTED = [
    'prelude / monomorphisation / U256 contract as in C01 (instance u128, 20 decimals); apply_factors (and through it apply_exponent_factor, apply_factor, checked_pow_fixed) is called through its C01 contract, re-proved in this same run',
    'carriers PriceImpactParams, PoolValue, PoolDelta{current, next}, PriceImpact, BalanceChange: field / variant lists compared with the repo on every run (R11); the other PoolDelta fields (delta, prices) are not read by these functions',
    'unit rewrites (logged): `utils::apply_factors(` => `apply_factors(`; `x.diff(y).try_into()` with the type ascription `let delta: T::Signed` => `S::try_from(x.diff(y))` (same conversion, the target type spelled out)',
]
UNVERIFIED = [
    'non-unit exponents (rust_decimal branch of apply_exponent_factor): every contract here requires a whole-unit exponent, as the quantifier of the property does',
    '"take the worse of real and virtual impact": SwapMarketExt::swap_impact_value AND PositionExt::position_price_impact (with its nested ReassignedValues::new) ARE under contract (verus/C03_worse.rs); there PoolDelta::price_impact, the pool delta a balance builds for given usd deltas (BalanceExt::pool_delta_with_values), Pool::checked_cancel_amounts and Pool::checked_apply_delta are deterministic uninterpreted functions - the impact formula is proved in verus/C03.rs; the construction of the PoolDelta from pool amounts and prices (PoolDelta::try_new / try_from_delta_amounts) is not under contract',
    'deposits: the same PoolDelta::price_impact is used; the deposit action that calls it is not covered',
]
ASSUMPTIONS = []
MANIFEST = dict(engine='verus',
    technique='Verus contracts on SwapMarketExt::swap_impact_value and PositionExt::position_price_impact (which of the real and the virtual impact is charged) and on PriceImpactParams::adjusted_factors and PoolDelta::{price_impact, price_impact_for_same_side_rebalance, price_impact_for_cross_over_rebalance, is_same_side_rebalance, diff values} extracted from /repo each run, over the C01 contract of apply_factors; monotonicity of the impact value by induction over pow_fixed; round-trip lemmas; native replay with a big-integer oracle',
    text='Which impact a swap / deposit is charged: the real pool\'s impact, replaced by the virtual inventory\'s (same usd deltas, prices and parameters) exactly when the real one is negative, the caller did not opt out, a virtual inventory exists and its impact is MORE negative - never better than the real pool\'s; positions: the same rule over the open interest, with the virtual inventory netted and, for a decrease, both its sides shifted up by |size delta|. '
         + 'Deductive proof, unbounded over all pool values, factors and whole-unit exponents: the positive factor used never exceeds the negative one; price_impact returns exactly the same-side or the cross-over formula and tags the change Improved / Worsened / Unchanged by the imbalance; a change that worsens (or keeps) the imbalance never receives a positive impact (both formulas; the cross-over case by monotonicity of floor(v^e f / UNIT) in v and f); an improving change that keeps the heavy side never receives a negative impact; a change that flips the heavy side followed by its exact reverse totals <= 0 exactly; on one side the total is <= 1 unit (10^-20 USD). TWO KNOWN FINDINGS, each with a witness proved by computation and reproduced natively: an improving change that flips the heavy side can receive a negative impact; a same-side round trip can total +1 unit.',
    note='Known findings C03::finding_improved_cross_over_is_negative and C03::finding_same_side_round_trip_gains_one_unit (by design / rounding, not repaired). The worse-of-real-and-virtual selection is not covered.')


def _pow_fixed(b, k, U):
    r = U
    for _ in range(k):
        r = r * b // U
    return r


def _aef(v, e, U):
    if v < U:
        return 0
    if v == U:
        return U
    if e == 0:
        return U
    if e == U:
        return v
    return _pow_fixed(v, e // U, U)


def _oracle(lv, sv, dl, ds, e, pf, nf, got):
    import re
    U = 10 ** 20
    if got in ('Err', 'ErrDelta'):
        return None
    m = re.match(r'Ok\((-?\d+),(\w+)\)', got)
    if not m:
        return f'unparsable {got}'
    val, tag = int(m.group(1)), m.group(2)
    nl, ns = lv + dl, sv + ds
    ini, nxt = abs(lv - sv), abs(nl - ns)
    want_tag = 'Unchanged' if nxt == ini else ('Worsened' if nxt > ini else 'Improved')
    if tag != want_tag:
        return f'balance change {tag}, expected {want_tag}'
    p = min(pf, nf)
    af = lambda v, f: _aef(v, e, U) * f // U
    same = (lv <= sv) == (nl <= ns)
    if same:
        want = abs(af(ini, p) - af(nxt, p)) if nxt < ini else -abs(af(ini, nf) - af(nxt, nf))
    else:
        want = af(ini, p) - af(nxt, nf)
    if val != want:
        return f'impact {val}, expected {want}'
    if nxt >= ini and val > 0:
        return 'a worsening change received a positive impact'
    if nxt < ini and same and val < 0:
        return 'an improving same-side change received a negative impact'
    return None


def replay(ob, repo, seed):
    from engine import replay as R
    import random
    if not any(k in ob['id'] for k in ('price_impact', 'adjusted_factors', 'is_same_side', 'diff_value')):
        return None
    rng = random.Random(seed)
    U = 10 ** 20
    cases = []
    for _ in range(4000):
        lv = rng.choice([0, U, 10 * U, 16 * U // 10, rng.getrandbits(rng.randint(1, 90))])
        sv = rng.choice([0, U, 3 * U, lv, rng.getrandbits(rng.randint(1, 90))])
        dl = rng.choice([0, -lv, -(lv // 2), U // 10, -(7 * lv // 10), rng.getrandbits(rng.randint(1, 88))])
        ds = rng.choice([0, -sv, U, 8 * U, -(sv // 3), rng.getrandbits(rng.randint(1, 88))])
        if lv + dl < 0 or sv + ds < 0:
            continue
        e = rng.choice([U, U, 2 * U, 3 * U, 0])
        pf = rng.choice([0, 5, 10 ** 12, 10 ** 18, 2 * 10 ** 18])
        nf = rng.choice([0, 6, 10 ** 12, 10 ** 18, 3 * 10 ** 18])
        cases.append((lv, sv, dl, ds, e, pf, nf))
    lines = ['pimpact.price ' + ' '.join(str(x) for x in c) for c in cases]
    outs = R.call_native(repo, lines)
    for c, l, got in zip(cases, lines, outs):
        why = _oracle(*c, got)
        if why:
            return dict(failing_input=dict(call=l, observed=got, violated=why),
                        note='native execution of the real PoolDelta::try_new(..).price_impact::<20>(..) with unit token prices; arguments: long value, short value, delta long, delta short, exponent, positive factor, negative factor')
    return dict(failing_input=None, note=f'{len(lines)} native executions agreed with the big-integer oracle (seed {seed})')


FALLBACK_OBS = ['C03.PoolDelta.price_impact']
