PROPERTY = 'C01'
LEVEL = 'proof'
VERUS = ['verus/C01_u128.rs', 'verus/C01_u64.rs']
TRUSTED = [
    'prelude: num_traits Checked{Add,Sub,Mul,Div,Neg}/Zero/One/Signed impls for u64/i64/u128/i128 are the primitive checked ops (num-traits 0.2 macro impls); each N/S method is proved against vstd\'s spec of the primitive',
    'monomorphisation (R1-R3): generic T / T::Signed instantiated at (u128,i128,20 decimals) = the instance the programs use, and (u64,i64,9) = the instance the model tests use',
    'assumed dependency contract: ruint::U256 from/mul/div/div_ceil/try_into are exact 256-bit arithmetic (inc/u256.rs)',
    'assumed std contract: u128::div_ceil is ceiling division (no vstd spec)',
    'Verus 0.2026.09.13 + bundled Z3; vstd integer specs',
]
UNVERIFIED = [
    'checked_pow_fixed for exponents that are not whole units (rust_decimal powd / U64D9 conversion closures): out of reach, cut and left unspecified; the code documents that branch as inconsistent and to be avoided',
    'signed checked_div by a negative divisor: value unspecified in the prelude (never used by the verified functions)',
]
ASSUMPTIONS = ['machine arithmetic is NOT treated as mathematical: every contract carries the u64/u128/i64/i128 ranges']


# ---- replay oracles (Python big integers; written from the property statement) -----------------
def _cdiv(a, d):
    return -((-a) // d)


def _oracles(umax, imax, unit):
    imin = -imax - 1
    U = lambda v: f'Some({v})' if 0 <= v <= umax else 'None'
    Sg = lambda v: f'Some({v})' if imin <= v <= imax else 'None'
    sgn = lambda x: -1 if x < 0 else 1

    def pow_fixed(b, k):
        a = unit
        for _ in range(k):
            a = a * b // unit
            if a > umax:
                return None
        return a

    def aef(v, e):
        if v < unit:
            return 0
        if v == unit:
            return unit
        if e == 0:
            return unit
        if e == unit:
            return v
        return pow_fixed(v, e // unit)

    def apply_factors(v, f, e):
        a = aef(v, e)
        if a is None:
            return 'Err'
        r = a * f // unit
        return f'Ok({r})' if r <= umax else 'Err'

    def bound_magnitude(v, lo, hi):
        if lo > hi:
            return 'Err'
        m = abs(v)
        t = lo if m < lo else (hi if m > hi else None)
        if t is None:
            return f'Ok({v})'
        if t > imax:
            return 'Err'
        return f'Ok({sgn(v) * t})'

    def rumd(d, x):
        if d == 0 or d > imax:
            return 'None'
        if x < 0:
            if x - d < imin:
                return 'None'
        elif x + d > imax:
            return 'None'
        return f'Some({sgn(x) * _cdiv(abs(x), d)})'

    def mdsn(x, n, d):
        if d == 0:
            return 'None'
        m = x * abs(n) // d
        if m > imax:
            return 'None'
        return f'Some({-m if n < 0 else m})'

    def usd2mt(usd, pv, supply, div):
        if div == 0:
            return 'None'
        if supply == 0 and pv == 0:
            return f'Some({usd // div})'
        if supply == 0:
            return f'Some({(pv + usd) // div})' if pv + usd <= umax else 'None'
        if pv == 0:
            return 'None'
        return U(supply * usd // pv)

    return {
        'checked_mul_div': ('uuu', lambda x, n, d: 'None' if d == 0 else U(x * n // d)),
        'checked_mul_div_ceil': ('uuu', lambda x, n, d: 'None' if d == 0 else U(_cdiv(x * n, d))),
        'checked_mul_div_with_signed_numerator': ('usu', mdsn),
        'to_signed': ('u', lambda x: f'Ok({x})' if x <= imax else 'Err'),
        'to_signed_with_sign': ('ub', lambda x, n: (f'Ok({-x if n else x})' if x <= imax else 'Err')),
        'to_opposite_signed': ('u', lambda x: f'Ok({-x})' if x <= imax else 'Err'),
        'checked_signed_sub': ('uu', lambda a, b: f'Ok({a - b})' if -imax <= a - b <= imax else 'Err'),
        'checked_add_with_signed': ('us', lambda a, b: U(a + b)),
        'checked_sub_with_signed': ('us', lambda a, b: U(a - b)),
        'checked_mul_with_signed': ('us', lambda a, b: f'Some({a * b})' if a * abs(b) <= imax else 'None'),
        'as_divisor_to_round_up_magnitude_div': ('us', rumd),
        'checked_round_up_div': ('uu', lambda a, d: f'Some({_cdiv(a, d)})' if d != 0 and a + d <= umax else 'None'),
        'bound_magnitude': ('suu', bound_magnitude),
        'usd_to_market_token_amount': ('uuuu', usd2mt),
        'market_token_amount_to_usd': ('uuu', lambda a, pv, s: 'None' if s == 0 else U(pv * a // s)),
        'apply_factor': ('uu', lambda v, f: U(v * f // unit)),
        'div_to_factor': ('uub', lambda v, d, up: 'Some(0)' if d == 0 else U(_cdiv(v * unit, d) if up else v * unit // d)),
        'div_to_factor_signed': ('su', lambda v, d: 'Some(0)' if d == 0 else mdsn(unit, v, d)),
        'apply_exponent_factor': ('ue', lambda v, e: (lambda a: 'None' if a is None else f'Some({a})')(aef(v, e))),
        'apply_factors': ('uue', apply_factors),
        'checked_pow_fixed': ('ue', lambda b, e: (lambda a: 'None' if a is None else f'Some({a})')(pow_fixed(b, e // unit))),
        'Fixed.checked_mul': ('uu', lambda a, b: U(a * b // unit)),
        'Fixed.checked_pow': ('ue', lambda b, e: (lambda a: 'None' if a is None else f'Some({a})')(pow_fixed(b, e // unit))),
    }


def replay(ob, repo, seed):
    from engine import replay as R
    import re
    m = re.match(r'C01\.(u128|u64)\.(.+)$', ob['id']) or re.match(r'C01_(u128|u64)::(.+)$', ob['id'])
    if not m:
        return None
    w, fn = m.group(1), m.group(2)
    umax, imax, unit = ((1 << 128) - 1, (1 << 127) - 1, 10 ** 20) if w == 'u128' else ((1 << 64) - 1, (1 << 63) - 1, 10 ** 9)
    orc = _oracles(umax, imax, unit)
    if fn not in orc:
        return None
    kinds, f = orc[fn]
    return R.search(repo, f'{w}.{fn}', list(kinds), f, umax, imax, unit, seed)

MANIFEST = {'engine': 'verus', 'technique': 'Verus (SMT) contracts on function bodies extracted from /repo each run; result == integer spec function, failure set pinned by iff', 'text': 'Deductive proof, unbounded: every fixed-point helper of gmsol-model (num.rs, utils.rs, fixed.rs) is extracted from the current tree and verified by Verus against a contract written from the statement: result equals floor/ceil/magnitude-ceil/clamp of the exact integer expression, and None/Err exactly on the stated failure set. Both instantiations (u128/20 decimals used on-chain, u64/9 used by the model tests). A failed obligation is replayed by a native search on the real function with a big-integer oracle.', 'note': 'Trusted: Verus+Z3, vstd integer specs, the num_traits-shaped prelude (proved against vstd), assumed ruint::U256 and u128::div_ceil contracts. Not verified: non-unit exponents of checked_pow_fixed (rust_decimal branch, cut).'}

FALLBACK_OBS = ['C01.u128.' + f for f in ('checked_mul_div','checked_mul_div_ceil','checked_mul_div_with_signed_numerator','to_signed','to_opposite_signed','checked_signed_sub','checked_add_with_signed','checked_sub_with_signed','checked_mul_with_signed','as_divisor_to_round_up_magnitude_div','checked_round_up_div','bound_magnitude','usd_to_market_token_amount','market_token_amount_to_usd','apply_factor','div_to_factor','div_to_factor_signed','apply_exponent_factor','apply_factors','checked_pow_fixed','Fixed.checked_mul')] + ['C01.u64.' + f for f in ('checked_mul_div','checked_mul_div_ceil','checked_round_up_div','bound_magnitude','apply_factors')]
