PROPERTY = 'C16'
LEVEL = 'proof'
_B = [f'c16_config_keys_block{i}' for i in range(6)]
KANI = [dict(mode='ws:gmsol-store', harness=h, timeout=1500, mem_gb=10, fn='MarketConfig::get / get_mut (keys block)') for h in _B] + [
    dict(mode='ws:gmsol-store', harness='c16_config_keys_distinct_storage', timeout=900, fn='MarketConfig::get_mut (slot per key)'),
    dict(mode='ws:gmsol-store', harness='c16_key_count_guard', timeout=300, fn='MarketConfigKey::try_from'),
    dict(mode='ws:gmsol-store', harness='c16_config_flags_write_read_frame', timeout=600, fn='MarketConfig::flag / set_flag'),
    dict(mode='ws:gmsol-store', harness='c16_market_flags_write_read_frame', timeout=600, fn='Market::flag / set_flag and named accessors'),
    dict(mode='ws:gmsol-store', harness='c16_market_wrappers_delegate', timeout=900, fn='Market::get_config_by_key(_mut)'),
]
ASSUMPTIONS = []
UNVERIFIED = []
MANIFEST = dict(engine='kani',
    technique='Kani/CBMC: write-one-key/read-every-key with frame on an arbitrary (all words symbolic) MarketConfig, all 66 keys by concrete unrolled loops; flags bit-exact; discriminant guard',
    text='Exhaustive over keys, symbolic over values and over the whole background config: writing v through key k is read back through k, every other key reads its old value, at most one storage word changes and never the flag word; each key owns its own slot; config flags and market flags likewise (bit-exact); key discriminants beyond the table are rejected.',
    note='Trusted: Kani/CBMC. Model-parameter accessors and Store amount/factor/address keys: see unverified clauses.')
