PROPERTY = 'C16'
LEVEL = 'proof'
_B = [f'c16_config_keys_block{i}' for i in range(6)]
KANI = [dict(mode='ws:gmsol-store', harness=h, timeout=1500, mem_gb=10, fn='MarketConfig::get / get_mut (keys block)') for h in _B] + [
    dict(mode='ws:gmsol-store', harness='c16_config_keys_distinct_storage', timeout=900, fn='MarketConfig::get_mut (slot per key)'),
    dict(mode='ws:gmsol-store', harness='c16_key_count_guard', timeout=300, fn='MarketConfigKey::try_from'),
    dict(mode='ws:gmsol-store', harness='c16_config_flags_write_read_frame', timeout=600, fn='MarketConfig::flag / set_flag'),
    dict(mode='ws:gmsol-store', harness='c16_market_flags_write_read_frame', timeout=600, fn='Market::flag / set_flag and named accessors'),
    dict(mode='ws:gmsol-store', harness='c16_market_wrappers_delegate', timeout=900, fn='Market::get_config_by_key(_mut)'),
    dict(mode='ws:gmsol-store', harness='c16_model_params_swap_position_fees', timeout=900, fn='impl SwapMarket/PerpMarket/PositionImpactMarket for Market (parameter accessors)'),
    dict(mode='ws:gmsol-store', harness='c16_model_params_borrowing_funding', timeout=900, fn='impl BorrowingFeeMarket/PerpMarket for Market (parameter accessors)'),
    dict(mode='ws:gmsol-store', harness='c16_model_params_limits', timeout=900, fn='impl BaseMarket for Market (pnl factors, pool/oi limits, reserve factors)'),
    dict(mode='ws:gmsol-store', harness='c16_model_params_closed_market_switch', timeout=900, fn='MarketConfig closed-market parameter switch'),
]
ASSUMPTIONS = []
UNVERIFIED = [
    'model accessor of the 6 keys Swap/OrderFeeFactorFor{Positive,Negative}Impact and LiquidationFee{Factor,ReceiverFactor}: FeeParams / LiquidationFeeParams expose no getter for these fields (only computed fees); covered indirectly by the frame proof on MarketConfig::get/get_mut',
    'MinTokensForFirstDeposit / MinCollateralFactorForLiquidation model accessors: the latter is covered by the closed-market switch harness; the former has no model accessor in model.rs',
    'Store::get_amount/get_factor/get_address(_mut) keys: not yet under contract here',
    'SDK side (crates/programs): see C40',
]
MANIFEST = dict(engine='kani',
    technique='Kani/CBMC: write-one-key/read-every-key with frame on an arbitrary (all words symbolic) MarketConfig, all 66 keys by concrete unrolled loops; flags bit-exact; discriminant guard',
    text='Exhaustive over keys, symbolic over values and over the whole background config: writing v through key k is read back through k, every other key reads its old value, at most one storage word changes and never the flag word; each key owns its own slot; config flags and market flags likewise (bit-exact); key discriminants beyond the table are rejected.',
    note='Trusted: Kani/CBMC. Model-parameter accessors and Store amount/factor/address keys: see unverified clauses.')
