PROPERTY = 'C16'
LEVEL = 'proof'
_B = [f'c16_config_keys_block{i}' for i in range(6)]
KANI = [dict(mode='ws:gmsol-store', harness=h, timeout=1500, mem_gb=10, fn='MarketConfig::get / get_mut (keys block)') for h in _B] + [
    dict(mode='ws:gmsol-store', harness='c16_config_keys_distinct_storage', timeout=900, fn='MarketConfig::get_mut (slot per key)'),
    dict(mode='ws:gmsol-store', harness='c16_key_count_guard', timeout=300, fn='MarketConfigKey::try_from'),
    dict(mode='ws:gmsol-store', harness='c16_config_flags_write_read_frame', timeout=600, fn='MarketConfig::flag / set_flag'),
    dict(mode='ws:gmsol-store', harness='c16_market_flags_write_read_frame', timeout=600, fn='Market::flag / set_flag and named accessors'),
    dict(mode='ws:gmsol-store', harness='c16_market_wrappers_delegate', timeout=900, fn='Market::get_config_by_key(_mut)'),
    dict(mode='ws:gmsol-store', harness='c16_model_params_swap_position_fees', timeout=900, fn='impl SwapMarket/PerpMarket/PositionImpactMarket for Market (parameter accessors)'),
    dict(mode='ws:gmsol-store', harness='c16_model_params_borrowing_funding', timeout=900, fn='impl BorrowingFeeMarket/PerpMarket for Market (parameter accessors)'),
    dict(mode='ws:gmsol-store', harness='c16_model_params_limits', timeout=900, fn='impl BaseMarket for Market (pnl factors, pool/oi limits, reserve factors)'),
    dict(mode='ws:gmsol-store', harness='c16_model_params_closed_market_switch', timeout=900, fn='MarketConfig closed-market parameter switch'),
    dict(mode='ws:gmsol-store', harness='c16_store_keys_read_their_named_field', timeout=900, fn='Store::get_amount_by_key / get_factor_by_key / get_address_by_key (+ Amounts / Factors / Addresses ::get)'),
    dict(mode='ws:gmsol-store', harness='c16_store_amount_keys_write_their_named_field_only', timeout=1500, stubs=['Error::with_values'], fn='Store::get_amount_mut (+ Amounts::get_mut, AmountKey::from_str)'),
    dict(mode='ws:gmsol-store', harness='c16_store_factor_keys_write_their_named_field_only', timeout=1500, fn='Store::get_factor_mut (+ Factors::get_mut, FactorKey::from_str)'),
]
ASSUMPTIONS = []
UNVERIFIED = [
    'model accessor of the 6 keys Swap/OrderFeeFactorFor{Positive,Negative}Impact and LiquidationFee{Factor,ReceiverFactor}: FeeParams / LiquidationFeeParams expose no getter for these fields (only computed fees); covered indirectly by the frame proof on MarketConfig::get/get_mut',
    'MinTokensForFirstDeposit / MinCollateralFactorForLiquidation model accessors: the latter is covered by the closed-market switch harness; the former has no model accessor in model.rs',
    'Store keys: the 9 amount keys, 3 factor keys and the address key READ the field named after them (pointer identity) on a fully symbolic store; the amount and factor keys WRITE exactly their own word through the string-keyed accessors (claimable_time_window is write-protected) - the key strings are constants per branch (a symbolic key string makes from_str unbounded for CBMC); get_address_mut is not under a harness',
    'SDK side (crates/programs): see C40',
]
MANIFEST = dict(engine='kani',
    technique='Kani/CBMC: write-one-key/read-every-key with frame on an arbitrary (all words symbolic) MarketConfig, all 66 keys by concrete unrolled loops; flags bit-exact; discriminant guard; Store amount / factor / address keys: pointer identity with the named field on a fully symbolic store, writes through the string-keyed accessors change exactly their own word',
    text='Exhaustive over keys, symbolic over values and over the whole background config: writing v through key k is read back through k, every other key reads its old value, at most one storage word changes and never the flag word; each key owns its own slot; config flags and market flags likewise (bit-exact); key discriminants beyond the table are rejected. Store: every amount / factor / address key reads the field named after it, and a write through an amount or factor key changes exactly that word (claimable_time_window cannot be written).',
    note='Trusted: Kani/CBMC. Model-parameter accessors: see unverified clauses.')
