PROPERTY = 'C09'
LEVEL = 'proof'
VERUS = ['verus/C09.rs', 'verus/C09_store.rs']
TRUSTED = [
    'prelude / monomorphisation (Num = u128 newtype N on the model side, raw u128 on the store side) and checked-arithmetic contracts as in C01; carriers of C07 (verus/inc/perp_tracked.rs, increase_position.rs, decrease_position.rs), re-verified here together with the helper units they contain',
    '"liquidatable" is DEFINED in the template (liq_spec), written from the statement: remaining collateral value = collateral at the min price + pnl of the whole size + the negative part of the capped price impact of closing - costs at the min collateral price; liquidatable iff that value is negative / zero / below the minimum collateral value (when checked) / below size x min collateral factor (the liquidation factor for liquidations). check_collateral and check_liquidatable are proved to compute exactly this',
    'the reads inside check_liquidatable (pnl_value, position_price_impact, cap_negative_position_price_impact, position_fees, total_cost_amount, position_params) are deterministic uninterpreted functions of (position, market, prices): ASSUMED pure (they take &self); their arithmetic is C02 / C03 / C11 material',
    'unit rewrites (logged): `b.then(|| x)` -> `if b { Some(x) } else { None }`; the closure of `.and_then(|v| { v.checked_add(..)?.checked_sub(..) })` annotated with its own meaning (checked by Verus against its body); `E::Liquidatable(reason)` payload dropped; on the store side `.map_err(ModelError::from)?` -> `?`, `.map(|exceeded| exceeded.pnl_factor)` annotated with its body, `pnl_factor_config(..).and_then(|f| f.to_signed())` -> one assumed read, and the chain `position.decrease(..).map(|a| a.set_swap(t)).and_then(|a| a.execute())` -> one call with the assumed contract below',
    'cuts (stated): DecreasePosition::execute after `self.position.on_decreased()?;` (report building and output-token swap); execute_decrease_position after `event.update_with_decrease_report(&report, &prices)?; report };` (output swaps and transfers)',
]
UNVERIFIED = [
    'the validation runs on the state the action has at that point (all position and tracked-pool updates done); the tail of DecreasePosition::execute may still swap collateral to the pnl token, which moves liquidity pools that the pnl cap reads - "not liquidatable" is claimed at the validation point, at the execution prices',
    'ASSUMED CONTRACT on the store side: the decrease action rejects a size above the position size unless capping is allowed (proved for DecreasePositionFlags::init / try_new in C07) and removes the position when the effective size is the whole size (proved for DecreasePosition::execute here); the store never allows capping for a liquidation (OrderKind::Liquidation is neither LimitDecrease nor StopLossDecrease), so a liquidation always closes the whole position',
    'ADL: pnl_factor_exceeded(ForAdl) / pnl_factor(maximize) / pnl_factor_config(MinAfterAdl) are uninterpreted reads of the market; the claim is that the order is executed only if exceeded(before) = Some(f0) and f0 > factor(after) >= configured minimum. That the secondary order type comes from the order kind is pinned by a text anchor on the call sites',
    'IncreasePosition::execute: get_execution_params / initialize_position_if_empty / process_collateral are havoc here (they run before the validation; proved in C07); on_increased / on_decreased are assumed not to touch position or market state',
    'liquidation fee, insolvent-close handling and the keeper-side choice of orders are not covered',
]
ASSUMPTIONS = ['reads of the market and position through &self are deterministic', 'actions are created through try_new']
MANIFEST = dict(engine='verus',
    technique='Verus contracts on check_collateral, PositionExt::{check_liquidatable, validate, collateral_value, collateral_price}, DecreasePosition::{check_liquidation, execute (to the report)}, the whole IncreasePosition::execute, and the first half of programs/store execute_decrease_position (liquidation size check, ADL pre- and post-conditions), extracted from /repo each run onto carriers; "liquidatable" is a spec function written from the statement',
    text='Deductive proof, unbounded over all position / market states, prices, sizes, flags and parameters: check_liquidatable returns exactly the definition of "liquidatable" (remaining collateral value against zero, the minimum collateral value and size x the (liquidation) collateral factor); a successful increase ends with a position that is not liquidatable (minimum collateral value included) and at least of the minimum size; a decrease that leaves the position open ends with a position that is not liquidatable; a liquidation order passes only for a position that is liquidatable under the liquidation factor, the store accepts it only for a size covering the whole position, and it then removes the position with zero size and collateral; an ADL order is executed only if the pnl factor exceeded the ADL limit before and is strictly lower and not below the configured minimum afterwards.',
    note='The component values (pnl, impact, fees) are uninterpreted deterministic reads; listed.')


def extra(res, repo, tier, seed):
    import os, re
    s = open(os.path.join(repo, 'programs/store/src/ops/order.rs')).read()
    for kind, sec in (('Liquidation', 'Liquidation'), ('AutoDeleveraging', 'AutoDeleveraging')):
        if not re.search(r'OrderKind::%s => execute_decrease_position\((?:[^;]*?)true,\s*Some\(SecondaryOrderType::%s\),' % (kind, sec), s, re.S):
            res.undecided.append(f'anchor lost: ops/order.rs no longer calls execute_decrease_position(.., true, Some(SecondaryOrderType::{sec}), ..) for OrderKind::{kind}')
    m = re.search(r'OrderKind::MarketDecrease\s*\|\s*OrderKind::LimitDecrease\s*\|\s*OrderKind::StopLossDecrease => execute_decrease_position\((?:[^;]*?)false,\s*None,', s, re.S)
    if not m:
        res.undecided.append('anchor lost: ops/order.rs: ordinary decrease orders no longer call execute_decrease_position(.., false, None, ..)')
