PROPERTY = 'C35'
LEVEL = 'proof'
DISABLED = 'check being built (Kani harness timing under measurement); nothing is claimed yet'
KANI = [
    dict(mode='ext', harness='c35_round_trip_cap32_ascii', timeout=1500, mem_gb=12,
         fn='gmsol_utils::fixed_str::{fixed_str_to_bytes, bytes_to_fixed_str} at MAX_LEN = 32'),
    dict(mode='ext', harness='c35_round_trip_cap3_utf8', timeout=900, mem_gb=12,
         bounded='capacity 3 (names of 0..=4 bytes), every valid UTF-8 string including multi-byte sequences; same generic code as the capacities the programs use',
         fn='gmsol_utils::fixed_str::{fixed_str_to_bytes, bytes_to_fixed_str} at MAX_LEN = 3'),
]
ASSUMPTIONS = [
    'Kani 0.68 / CBMC 6.11 bit-precise semantics of the compiled crate gmsol-utils; loops (copy, NUL search, UTF-8 validation) fully unwound with unwinding assertions on',
    'the capacity-32 harness draws every byte below 128 (ASCII, NUL included) so that the symbolic bytes form a valid &str without running the UTF-8 validator in the harness; multi-byte names are covered only by the bounded capacity-3 harness. Multi-byte UTF-8 sequences contain no 0x00 byte, so the code paths are the same',
    'capacities other than 32 (market / token names: 64, store key: 32) instantiate the same generic functions; they are not separately run',
]
UNVERIFIED = [
    'the program-side wrappers (programs/store/src/utils/fixed_str.rs) only map the error type; RoleMetadata::{new, name}, Store::key, Market::name, TokenConfig::name, Executor::role_name call the two functions on their own buffers: located by text on every run, not separately proved',
    '"an accepted role can be used, granted and disabled" follows from the round trip because RoleStore compares metadata.name()? with the requested role; RoleStore itself is C18 material (no check built)',
]
MANIFEST = dict(engine='kani',
    technique='Kani/CBMC harness on the real gmsol_utils::fixed_str functions: one symbolic name of up to capacity+1 bytes, write then read back, loops fully unwound (unwinding assertions on)',
    text='Proof over every ASCII/NUL name of 0..=33 bytes at capacity 32: if fixed_str_to_bytes accepts the name, bytes_to_fixed_str reads back exactly the same bytes (in particular it can be read back at all, including names that exactly fill the field, and names containing NUL are not accepted); covers show the empty, a shorter, and an exactly-filling name are accepted and an over-long one rejected. Bounded stand-in for multi-byte UTF-8 at capacity 3.',
    note='Both defects this check found on the pinned tree are repaired in /repo (fix: e3bc565, recorded in known_findings.txt). ASCII restriction at capacity 32 is stated as an assumption.')


def extra(res, repo, tier, seed):
    import os, re
    for f, pats in [('programs/store/src/utils/fixed_str.rs', [r'fixed_str::fixed_str_to_bytes\(name\)', r'fixed_str::bytes_to_fixed_str\(bytes\)']),
                    ('programs/store/src/states/roles.rs', [r'crate::utils::fixed_str::fixed_str_to_bytes\(name\)', r'crate::utils::fixed_str::bytes_to_fixed_str\(bytes\)'])]:
        s = open(os.path.join(repo, f)).read()
        for p in pats:
            if not re.search(p, s):
                res.undecided.append(f'anchor lost: {f}: /{p}/ not found')
