PROPERTY = 'C35'
LEVEL = 'other'
EXPLANATION = 'BOUNDED STAND-IN, not a proof of the property at the real capacities: complete Kani/CBMC proofs of the const-generic functions instantiated at capacity 8 (every ASCII/NUL name of up to 9 bytes) and capacity 3 (every valid UTF-8 name of up to 4 bytes), capacity 16 in the thorough tier. At the real capacity 32 the same harness found both defects of the pinned tree in 7 min (CBMC counterexamples: a 32-byte name, a name containing NUL) but did not finish proving the repaired tree in 25 min, so it is not registered.'
KANI = [
    dict(mode='ext', harness='c35_round_trip_cap8_ascii', timeout=900, mem_gb=8,
         bounded='capacity 8 instead of the real 32/64 (same const-generic code); every ASCII/NUL name of 0..=9 bytes; complete for that instance (loops fully unwound, unwinding assertions on)',
         fn='gmsol_utils::fixed_str::{fixed_str_to_bytes, bytes_to_fixed_str} at MAX_LEN = 8'),
    dict(mode='ext', harness='c35_round_trip_cap3_utf8', timeout=900, mem_gb=8,
         bounded='capacity 3; EVERY valid UTF-8 name of 0..=4 bytes, multi-byte sequences included; complete for that instance',
         fn='gmsol_utils::fixed_str::{fixed_str_to_bytes, bytes_to_fixed_str} at MAX_LEN = 3'),
]
KANI_THOROUGH = [
    dict(mode='ext', harness='c35_round_trip_cap16_ascii', timeout=3000, mem_gb=12,
         bounded='capacity 16; every ASCII/NUL name of 0..=17 bytes; complete for that instance (measured 13 min)',
         fn='gmsol_utils::fixed_str::{fixed_str_to_bytes, bytes_to_fixed_str} at MAX_LEN = 16'),
]
ASSUMPTIONS = [
    'Kani 0.68 / CBMC 6.11 bit-precise semantics of the compiled crate gmsol-utils; loops (copy, NUL search, UTF-8 validation) fully unwound with unwinding assertions on',
    'the ASCII harnesses draw every byte below 128 (NUL included) so that the symbolic bytes form a valid &str without running the UTF-8 validator in the harness; multi-byte UTF-8 sequences contain no 0x00 byte, so the code paths are the same',
    'the real capacities (role / executor names and store key: 32, market and token names: 64) instantiate the same const-generic functions; they are NOT run (capacity 32 measured: > 25 min)',
]
UNVERIFIED = [
    'the program-side wrappers (programs/store/src/utils/fixed_str.rs) only map the error type; RoleMetadata::{new, name}, Store::key, Market::name, TokenConfig::name, Executor::role_name call the two functions on their own buffers: located by text on every run, not separately proved',
    '"an accepted role can be used, granted and disabled" follows from the round trip because RoleStore compares metadata.name()? with the requested role; RoleStore itself is C18 material (no check built)',
]
MANIFEST = dict(engine='kani',
    technique='Kani/CBMC harnesses on the real gmsol_utils::fixed_str functions instantiated at small capacities: one symbolic name of up to capacity+1 bytes, write then read back, loops fully unwound (unwinding assertions on); bounded stand-in in the capacity',
    text='BOUNDED (in the capacity; complete per instance): at capacity 8 for every ASCII/NUL name of 0..=9 bytes, and at capacity 3 for every valid UTF-8 name of 0..=4 bytes (capacity 16 in the thorough tier): if fixed_str_to_bytes accepts the name, bytes_to_fixed_str reads back exactly the same bytes -- in particular a name that exactly fills the field reads back, and a name containing NUL is not accepted; covers show the empty, a shorter and an exactly-filling name are accepted and an over-long one is rejected. The real capacities 32/64 instantiate the same const-generic code and are not run.',
    note='Bounded stand-in, never counted as proved. Both defects this check found on the pinned tree (at capacity 32, with CBMC counterexamples) are repaired in /repo (fix: e3bc565, recorded in known_findings.txt).')


def extra(res, repo, tier, seed):
    import os, re
    for f, pats in [('programs/store/src/utils/fixed_str.rs', [r'fixed_str::fixed_str_to_bytes\(name\)', r'fixed_str::bytes_to_fixed_str\(bytes\)']),
                    ('programs/store/src/states/roles.rs', [r'crate::utils::fixed_str::fixed_str_to_bytes\(name\)', r'crate::utils::fixed_str::bytes_to_fixed_str\(bytes\)'])]:
        s = open(os.path.join(repo, f)).read()
        for p in pats:
            if not re.search(p, s):
                res.undecided.append(f'anchor lost: {f}: /{p}/ not found')
