PROPERTY = 'C05'
LEVEL = 'proof'
VERUS = ['verus/C05.rs']
TRUSTED = [
    'prelude / monomorphisation / U256 contract as in C01; carriers and type bridging as in C04 (same template family: Swap{market, params}, SMarket with the three pools, Delta<&Signed>, Cache without its back-reference)',
    'unit rewrites (logged): the three closures of swap_impact_amount_with_cap (`.map(|d| d.unsigned_abs())`, `.and_then(|d| d.checked_mul(price.pick_price(true)))`, `.and_then(|a| a.checked_add(&one)?.checked_div(&price))`) annotated with exact specifications checked by Verus against their bodies; in reassign_values `x.try_into()` with the ascription `M::Signed` => `S::try_from(x)`',
    'proof hints anchored on two statements of try_execute (`token_out_amount = pool_amount_out.checked_add` and `pool_amount_out = token_out_amount.clone();`): a change that removes an anchor makes the run UNDECIDED unless the native replay finds a failing input',
]
UNVERIFIED = [
    'ASSUMED CALLEE CONTRACTS as in C04, minus swap_impact_amount_with_cap and reassign_values, which are under contract here: Pool::checked_apply_delta, BaseMarketExt::checked_apply_delta, swap_impact_value (arbitrary impact value), pool_delta_with_values, Price::mid, the three cache validations',
    'the price impact VALUE (how large the positive impact may be: C03 and the impact factors) is an input here; the statement bounds the output by input value + that impact, and shows only what the output-side impact pool holds is paid in output tokens (the input-side pool funds the rest through swap_impact_amount_with_cap, proved to be capped by that pool)',
    'validated prices (min <= max on both tokens; Prices::validate at Swap::try_new) are a precondition of try_execute',
    'native replay exists for swap_impact_amount_with_cap only (TestMarket<u128,20>); a failed try_execute / reassign_values obligation is reported with the verifier output and no-failing-input-found',
]
ASSUMPTIONS = ['Swap::try_execute is reached with validated prices (min <= max)']
MANIFEST = dict(engine='verus',
    technique='Verus contracts on the whole Swap::try_execute, Swap::reassign_values, Swap::charge_fees and SwapMarketExt::swap_impact_amount_with_cap, extracted from /repo each run onto carriers; value-bound lemmas (floor bound, positive-impact composition); native replay of swap_impact_amount_with_cap',
    text='Deductive proof, unbounded over all pool states, amounts, price spreads, fee parameters and impact values: swap_impact_amount_with_cap pays a positive impact in tokens at the MAX price, rounded down, never more than the impact pool of that token holds, and returns the unpaid rest as a value (amount x max price + rest <= impact); charges a negative impact at the MIN price with the magnitude rounded up. For the whole swap: output amount x MAX output price <= (input - fees) x MIN input price + the positive price impact (nothing added when the impact is not positive); the part paid from the output-side impact pool never exceeds that pool; with zero fees and zero impact the output is exactly floor(input x min input price / max output price).',
    note='The impact value itself and the pool-delta callee contracts are assumed (listed).')


def replay(ob, repo, seed):
    from engine import replay as R
    import random, re
    if 'swap_impact_amount_with_cap' not in ob['id']:
        return None
    rng = random.Random(seed)
    cases = []
    for _ in range(4000):
        pl = rng.choice([0, 1, 10, 10 ** 9, rng.getrandbits(rng.randint(1, 100))])
        ps = rng.choice([0, 1, 5, 10 ** 9, rng.getrandbits(rng.randint(1, 100))])
        pmin = rng.choice([1, 3, 10 ** 6, rng.getrandbits(rng.randint(1, 60)) + 1])
        pmax = pmin + rng.choice([0, 1, 7, rng.getrandbits(rng.randint(1, 50))])
        usd = rng.choice([0, 1, -1, 41, -10, pmax, -pmin, pmax * 11, -(pmin * 7 + 1), rng.getrandbits(rng.randint(1, 110)), -rng.getrandbits(rng.randint(1, 110))])
        cases.append((pl, ps, rng.random() < 0.5, pmin, pmax, usd))
    lines = [f'swapcap.amount {pl} {ps} {"true" if il else "false"} {pmin} {pmax} {usd}' for pl, ps, il, pmin, pmax, usd in cases]
    outs = R.call_native(repo, lines)
    for (pl, ps, il, pmin, pmax, usd), l, got in zip(cases, lines, outs):
        if got == 'Err':
            continue
        m = re.match(r'Ok\((-?\d+),(\d+)\)', got)
        if not m:
            return dict(failing_input=dict(call=l, observed=got, violated='unparsable'), note='')
        amt, capped = int(m.group(1)), int(m.group(2))
        pool = pl if il else ps
        why = None
        if usd > 0 and not (0 <= amt <= pool and amt * pmax + capped <= usd):
            why = 'positive impact: amount not within [0, impact pool] or amount x max price + unpaid rest exceeds the impact'
        if usd < 0 and not (amt < 0 and capped == 0 and (-amt) * pmin >= -usd):
            why = 'negative impact: magnitude not rounded up at the min price'
        if usd == 0 and (amt, capped) != (0, 0):
            why = 'zero impact must give (0, 0)'
        if why:
            return dict(failing_input=dict(call=l, observed=got, violated=why), note='native execution of the real swap_impact_amount_with_cap (TestMarket<u128,20>); arguments: impact pool long, short, is_long_token, price min, price max, usd impact')
    return dict(failing_input=None, note=f'{len(lines)} native executions satisfied the contract (seed {seed})')


FALLBACK_OBS = ['C05.SwapMarketExt.swap_impact_amount_with_cap']
