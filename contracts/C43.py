PROPERTY = 'C43'
LEVEL = 'proof'
VERUS = ['verus/C43.rs']
TRUSTED = [
    'rust_decimal::Decimal is an ASSUMED dependency contract: a mantissa of at most 96 bits with a scale of at most 28; from_i128_with_scale PANICS outside that range (its precondition here), try_from_i128_with_scale returns Err; negation flips the mantissa; `rescale(s)` is assumed only to change nothing when s is already the scale. The assumed contract is cross-checked by the native run below (the real rust_decimal 1.37.2)',
    'assumed std specs: u128::ilog10 (10^r <= x < 10^(r+1)), u64::pow / u128::pow (exact when it fits), i64 / i128 is_negative and unsigned_abs; TARGET_SCALE = ilog10(2^96 - 1) - 1 = 27 is recomputed numerically on every run',
    'unit rewrites (logged): the nested fn convert_by_change_the_scale is extracted as its own unit (and removed from the text of its parent); `-d` -> d.neg_(); `Decimal::ZERO` -> Decimal::zero(); `.expect("must be `Some`")` -> `.unwrap()` (whose precondition is proved); the `match scale.cmp(&decimals)` with its `10i128.checked_pow(..).and_then(|m| ..)` closure is written as an if-chain over a checked power-of-ten helper; `u32::from(u8)` -> `as`',
]
UNVERIFIED = [
    'the statement "values that cannot be represented are reported as errors instead of being silently scaled or truncated" is FALSE on this tree in three ways (known findings, each with concrete inputs from the native run); what IS proved: a number that fits 96 bits with decimals <= 28 converts exactly, the reverse conversion of a Decimal that already has `decimals` fractional digits returns its mantissa (so the round trip is the identity), negative values are refused by the unsigned conversions, and no conversion panics',
    'how `rescale` behaves when the scale changes (rounding, stopping short) is not part of the assumed contract: rescale_to_mantissa is proved only for the round-trip case; its compensation branch is exercised natively',
]
ASSUMPTIONS = ['rust_decimal 1.37.2 behaves as its documentation says for the operations listed']
MANIFEST = dict(engine='verus',
    technique='Verus contracts on all ten conversion functions of crates/sdk/src/utils/fixed.rs (the nested helper included) with rust_decimal as an assumed dependency contract; native run of the same TEXT against the real rust_decimal crate (replay commands sdkfixed.*) with an exact-rational oracle, in both tiers',
    text='Deductive proof for every u64 / u128 / i64 / i128 and every decimals 0..=255: no conversion panics (the two `expect`s are reached only with Some; the Decimal constructor that panics is never reached out of range - this is the property that found the defect repaired by fix b2e9137); a value that fits 96 bits converts exactly iff decimals <= 28; converting such a Decimal back with the same decimals returns the original integer; negative Decimals are refused by decimal_to_value / decimal_to_amount; a number above 2^96 - 1 is either refused or accepted with its k low digits dropped (k = digits - 28).',
    note='One defect found and repaired (fix b2e9137: panic for large numbers with decimals above 28); three known findings about silent truncation / rounding (listed).')


def _exact(num, dec):
    from fractions import Fraction
    return Fraction(num, 10 ** dec)


def _native_cases(repo, seed):
    """returns dict category -> first failing case"""
    from fractions import Fraction
    import random
    from engine import replay as R
    rng = random.Random(seed)
    MAXR = (1 << 96) - 1
    lines, meta = [], []
    nums = [0, 1, 9, 10, 429663361044608151, 100451723195, MAXR - 1, MAXR, MAXR + 1, 10 ** 29 + 1, 10 ** 38, (1 << 127), (1 << 128) - 1]
    for _ in range(60):
        nums.append(rng.getrandbits(rng.randint(1, 128)))
    for n in nums:
        for d in (0, 1, 6, 11, 20, 27, 28, 29, 30, 38, 40, 47, 48, 255):
            lines.append(f'sdkfixed.u2d {n} {d}'); meta.append(('u2d', n, d))
            sn = n if n < (1 << 127) else n - (1 << 128)
            lines.append(f'sdkfixed.s2d {sn} {d}'); meta.append(('s2d', sn, d))
            if n < (1 << 64):
                lines.append(f'sdkfixed.ua2d {n} {d}'); meta.append(('ua2d', n, d))
                sa = n if n < (1 << 63) else n - (1 << 64)
                lines.append(f'sdkfixed.sa2d {sa} {d}'); meta.append(('sa2d', sa, d))
    decs = [(129, 3), (125, 3), (15, 1), (1, 0), (0, 0), (-15, 1), (1234567891, 0), (MAXR, 0), (MAXR, 28), (5, 1), (-125, 3), (10 ** 20, 20)]
    for _ in range(60):
        decs.append((rng.getrandbits(rng.randint(1, 96)) * rng.choice((1, -1)), rng.randint(0, 28)))
    for m, s in decs:
        for d in (0, 2, 6, 18, 20, 28, 30, 40, 255):
            for fn in ('d2a', 'd2sv', 'd2v'):
                lines.append(f'sdkfixed.{fn} {m} {s} {d}'); meta.append((fn, (m, s), d))
    outs = R.call_native(repo, lines)
    found = {}

    def put(cat, line, got, why):
        found.setdefault(cat, dict(call=line, observed=got, violated=why))
    for line, (fn, x, d), got in zip(lines, meta, outs):
        if got in ('PANIC', 'UNKNOWN-FN'):
            put('other', line, got, 'the conversion panicked' if got == 'PANIC' else 'native harness broken')
            continue
        if fn in ('u2d', 's2d', 'ua2d', 'sa2d'):
            want = _exact(x, d)
            if got == 'None':
                if abs(x) <= MAXR and d <= 28:
                    put('other', line, got, 'a representable value with supported decimals was refused')
                continue
            m, s = (int(v) for v in got.split('/'))
            if Fraction(m, 10 ** s) != want:
                if fn in ('u2d', 's2d') and abs(x) > MAXR:
                    put('C43.native.fixed_to_decimal_drops_low_digits_of_large_numbers', line, got, f'returned {m}e-{s}, the exact value is {x}e-{d}')
                elif fn in ('ua2d', 'sa2d') and d > 28:
                    put('C43.native.amount_to_decimal_truncates_beyond_28_decimals', line, got, f'returned {m}e-{s}, the exact value is {x}e-{d}')
                else:
                    put('other', line, got, f'returned {m}e-{s}, the exact value is {x}e-{d}')
        else:
            m, s = x
            exact = Fraction(m, 10 ** s) * 10 ** d
            lo, hi = {'d2a': (0, (1 << 64) - 1), 'd2sv': (-(1 << 127), (1 << 127) - 1), 'd2v': (0, (1 << 128) - 1)}[fn]
            if got == 'BadDecimal':
                continue
            if got == 'Err':
                continue        # a refusal is always allowed by the statement
            n = int(got[3:-1])
            if exact != n:
                if s > d:
                    put('C43.native.decimal_to_fixed_rounds_extra_fractional_digits', line, got, f'returned {n}, the exact value {m}e-{s} x 10^{d} is not that integer (rounded half away from zero instead of an error)')
                else:
                    put('other', line, got, f'returned {n}, the exact value is {exact}')
            elif not (lo <= n <= hi):
                put('other', line, got, 'result outside the target type')
    # round trip
    rt_lines, rt_meta = [], []
    for n in nums:
        if n <= MAXR:
            for d in (0, 6, 20, 28):
                rt_lines.append(f'sdkfixed.d2v {n} {d} {d}'); rt_meta.append((n, d))
    for line, (n, d), got in zip(rt_lines, rt_meta, R.call_native(repo, rt_lines)):
        if got != f'Ok({n})':
            put('other', line, got, f'round trip of {n} at {d} decimals did not return the original integer')
    return found, len(lines) + len(rt_lines)


def replay(ob, repo, seed):
    found, n = _native_cases(repo, seed)
    key = 'other' if ob['id'] == 'C43.native.other' else ob['id']
    if key in found:
        return dict(failing_input=found[key], note='native run of the text of crates/sdk/src/utils/fixed.rs against the real rust_decimal crate, exact rational oracle')
    if 'other' in found and not ob['id'].startswith('C43.native.'):
        return dict(failing_input=found['other'], note='native run of the text of crates/sdk/src/utils/fixed.rs against the real rust_decimal crate, exact rational oracle')
    return dict(failing_input=None, note=f'{n} native conversions agree with the exact values apart from the listed known findings')


def extra(res, repo, tier, seed):
    # TARGET_SCALE is a compile-time expression in the source: recompute it
    import math
    if len(str((1 << 96) - 1)) - 1 - 1 != 27:
        res.undecided.append('TARGET_SCALE is not 27')
    found, n = _native_cases(repo, seed)
    res.bounded.append(dict(id='C43.native.conversions', bound='73 numbers x 14 decimals through the four fixed/amount -> Decimal functions, 72 Decimals x 9 decimals through the three Decimal -> fixed functions, round trips at 0 / 6 / 20 / 28 decimals; exact rational oracle', status='bounded-ok' if set(found) <= {k for k in found if k.startswith('C43.native.')} and 'other' not in found else 'bounded-failed', checks=n, time_s=None))
    for cat, case in found.items():
        oid = cat if cat != 'other' else 'C43.native.other'
        res.obligations.append(dict(id=oid, engine='native-replay', status='failed', bounded=True, detail=f"{case['call']} -> {case['observed']}: {case['violated']}"))
