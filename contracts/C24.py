PROPERTY = 'C24'
LEVEL = 'proof'
VERUS = ['verus/C24.rs', 'verus/C24_setprices.rs']
TRUSTED = [
    'prelude / monomorphisation / U256 contract as in C01; glue_u128 forwarding wrappers (apply_factor_p, PriceP::checked_mid); Decimal units re-proved here (C26)',
    'assumed std contracts (vstd has none): i64::saturating_add_unsigned, u128::abs_diff, u128::pow, u128::div_ceil',
    'carriers PriceValidator (field list compared each run), Clock{unix_timestamp}, SmallPrices (field list compared each run), UPrice/Decimal',
    'carrier TokenConfig{timestamp_adjustment, max_deviation_factor}: the two per-provider reads as fallible field reads; the `.map_err(CoreError::from)` chains are dropped by logged unit rewrites (error values carry no contract)',
    'carrier OraclePriceFlagContainer{synthetic, open} for the flags!-generated bit container (bit semantics are C16 material)',
    'anchor require*!/error! macros per R5/R6, msg! dropped (R16), closure annotation on `.map(|slot| ...)` in finish (logged)',
]
UNVERIFIED = [
    'expected provider and feed id (OraclePrice::parse per provider: Pyth / Switchboard / custom feed account checks, Anchor account parsing): not under contract',
    'the wiring IS under contract (verus/C24_setprices.rs): Oracle::set_prices_from_remaining_accounts (loop over the tokens), update_oracle_ts_and_slot, min_oracle_slot, is_cleared - with the token map as a spec map, OraclePrice::parse_from_feed_account as an ASSUMED deterministic partial function yielding well-formed decimals, PriceMap::set as a log entry in the wiring unit AND as its own unit (real text; the fixed_map! insert as a log of (token, SmallPrices): the map is the contract of C34), with the read-back accessors SmallPrices::{min, max, is_synthetic, is_open, to_price} and the round-trip lemma; Oracle::with_prices_opts clearing the prices on both paths (closure over Anchor accounts) is not under contract',
    'PriceValidator::try_from(&Store) reading the three limits from the store and the Clock sysvar: not under contract (keys are C16)',
    'no native replay: private items of an Anchor program crate; a failed obligation is reported with the verifier output and no-failing-input-found',
]
ASSUMPTIONS = ['wf(Decimal) of the feed price and of the reference price: decimal_multiplier <= 20 (C26 postcondition)']
MANIFEST = dict(engine='verus',
    technique='(wiring: Verus contracts on Oracle::set_prices_from_remaining_accounts with a loop invariant over the tokens, update_oracle_ts_and_slot; storage: PriceMap::set and the SmallPrices read-back accessors with a round-trip lemma) Verus contracts on PriceValidator::{validate_one, merge_range, finish} and SmallPrices::from_price extracted from /repo each run, over the proved contracts of Decimal, apply_factor, Price::checked_mid',
    text='The wiring, for token lists of any length: prices are set only on a cleared, empty oracle; EVERY stored price belongs to a configured and ENABLED token, was parsed from the feed account at the token\'s position, PASSED validate_one (not older than the maximum age after the per-feed adjustment, not too far in the future) BEFORE it was stored, and is stored exactly as parsed, in order, nothing else; the oracle becomes usable only if the spread of all adjusted timestamps (merged with what the oracle already held) is within the allowed range. Deductive proof, unbounded over all timestamps, limits, prices, reference prices and factors: validate_one returning Ok implies the price (after the per-feed timestamp adjustment) is no older than max_age, not further in the future than the allowed excess, comes from a configured provider, and with a configured deviation factor both sides are within the deviation -- rounded up to the price step -- of the explicit or mid reference; the adjusted timestamp is merged as min/max; finish returning Ok implies the timestamp spread is within the allowed range; SmallPrices::from_price accepts exactly 0 < min <= max with equal multipliers; PriceMap::set stores exactly one entry for the token, only through that gate (a rejected price stores nothing and is an error), and the entry reads back through to_price as exactly the price and flags that were set. The literal "within the configured deviation" clause is a listed KNOWN FINDING (tolerance is rounded up to the price step).',
    note='Trusted: Verus+Z3, carriers, assumed std contracts. Provider/feed identity and the clearing of the oracle after use are not covered (listed).')


def extra(res, repo, tier, seed):
    # no text anchors left: PriceMap::set, the read-back accessors of SmallPrices and the validator wiring are units now
    return
