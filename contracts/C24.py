PROPERTY = 'C24'
LEVEL = 'proof'
VERUS = ['verus/C24.rs']
TRUSTED = [
    'prelude / monomorphisation / U256 contract as in C01; glue_u128 forwarding wrappers (apply_factor_p, PriceP::checked_mid); Decimal units re-proved here (C26)',
    'assumed std contracts (vstd has none): i64::saturating_add_unsigned, u128::abs_diff, u128::pow, u128::div_ceil',
    'carriers PriceValidator (field list compared each run), Clock{unix_timestamp}, SmallPrices (field list compared each run), UPrice/Decimal',
    'carrier TokenConfig{timestamp_adjustment, max_deviation_factor}: the two per-provider reads as fallible field reads; the `.map_err(CoreError::from)` chains are dropped by logged unit rewrites (error values carry no contract)',
    'carrier OraclePriceFlagContainer{synthetic, open} for the flags!-generated bit container (bit semantics are C16 material)',
    'anchor require*!/error! macros per R5/R6, msg! dropped (R16), closure annotation on `.map(|slot| ...)` in finish (logged)',
]
UNVERIFIED = [
    'expected provider and feed id (OraclePrice::parse per provider: Pyth / Switchboard / custom feed account checks, Anchor account parsing): not under contract',
    'Oracle::with_prices_opts clearing the prices on both paths (closure over Anchor accounts): not under contract; Oracle::set_prices_from_remaining_accounts wiring validate_one/finish/from_price together: located by text on every run (lost => exit 2), not proved',
    'PriceValidator::try_from(&Store) reading the three limits from the store and the Clock sysvar: not under contract (keys are C16)',
    'no native replay: private items of an Anchor program crate; a failed obligation is reported with the verifier output and no-failing-input-found',
]
ASSUMPTIONS = ['wf(Decimal) of the feed price and of the reference price: decimal_multiplier <= 20 (C26 postcondition)']
MANIFEST = dict(engine='verus',
    technique='Verus contracts on PriceValidator::{validate_one, merge_range, finish} and SmallPrices::from_price extracted from /repo each run, over the proved contracts of Decimal, apply_factor, Price::checked_mid',
    text='Deductive proof, unbounded over all timestamps, limits, prices, reference prices and factors: validate_one returning Ok implies the price (after the per-feed timestamp adjustment) is no older than max_age, not further in the future than the allowed excess, comes from a configured provider, and with a configured deviation factor both sides are within the deviation -- rounded up to the price step -- of the explicit or mid reference; the adjusted timestamp is merged as min/max; finish returning Ok implies the timestamp spread is within the allowed range; SmallPrices::from_price accepts exactly 0 < min <= max with equal multipliers. The literal "within the configured deviation" clause is a listed KNOWN FINDING (tolerance is rounded up to the price step).',
    note='Trusted: Verus+Z3, carriers, assumed std contracts. Provider/feed identity and the clearing of the oracle after use are not covered (listed).')


def extra(res, repo, tier, seed):
    import os, re
    s = open(os.path.join(repo, 'programs/store/src/states/oracle/mod.rs')).read()
    pm = open(os.path.join(repo, 'programs/store/src/states/oracle/price_map.rs')).read()
    if not re.search(r'SmallPrices::from_price\(&price, is_synthetic, is_open\)\?', pm):
        res.undecided.append('anchor lost: PriceMap::set no longer stores prices through SmallPrices::from_price(&price, is_synthetic, is_open)?')
    need = [r'validator\s*\.validate_one\(', r'validator\.finish\(\)']
    for pat in need:
        if not re.search(pat, s):
            res.undecided.append(f'anchor lost: oracle/mod.rs no longer matches /{pat}/ (the validator is not wired into set_prices the way this check assumes)')
