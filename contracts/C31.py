PROPERTY = 'C31'
LEVEL = 'proof'
VERUS = ['verus/C31.rs']
TRUSTED = [
    'prelude / monomorphisation / U256 contract as in C01',
    'glue_u128: u128-typed forwarding wrappers to the N-level verified functions (u128 IS the T of the generic code)',
    'carriers Store{gt_state, referred} / GtState{max_rank, order_fee_discount_factors}: Store::gt() and get_factor_by_key(OrderFeeDiscountForReferredUser) modelled as field reads',
    'constants MARKET_USD_UNIT / MARKET_DECIMALS / MAX_DECIMALS / MAX_RANK compared with /repo on every run',
]
UNVERIFIED = [
    'GtState::set_order_fee_discount_factors IS under contract (rule R23, logged: `factors.iter().all(|f| *f <= UNIT)` as an indexed loop with early exit; the array-prefix copy `&mut a[0..n]` + copy_from_slice as one glue call whose precondition is the slicing\'s panic condition): it accepts exactly one factor per rank with every factor <= 100% and preserves `factors_valid`; that `factors_valid` holds initially (zeroed table) is immediate',
    'referral discount B <= 100% is NOT enforced by any setter in the anchored code (plain store factor): it is a hypothesis of the bounds clause; for B > 100% the function is proved to fail',
    'SDK equality (crates/programs/src/utils/store.rs): see C40',
]
ASSUMPTIONS = ['wf(GtState): max_rank <= 15 (established by GtState::init)']
MANIFEST = dict(engine='verus',
    technique='(setter: Verus contract on GtState::set_order_fee_discount_factors) Verus contract on Store::order_fee_discount_factor and GtState::order_fee_discount_factor extracted from /repo each run + nonlinear lemma for 1-(1-A)(1-B)',
    text='Deductive proof, unbounded over rank tables with factors <= 100%, ranks and referral discounts: rank > max_rank is rejected; unreferred result is the rank factor; referred result is B + floor(A(U-B)/U), proved to lie in [max(A-1,B), U] and to equal U - (U-A)(U-B)/U rounded down by less than one unit; B > 100% makes the computation fail.',
    note='Trusted: Verus+Z3, prelude, glue wrappers, carriers as field reads. Setter-side bound and SDK equality are listed as unverified here.')
