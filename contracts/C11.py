PROPERTY = 'C11'
LEVEL = 'proof'
VERUS = ['verus/C11.rs']
TRUSTED = [
    'prelude / monomorphisation / U256 contract as in C01 (instance u128, 20 decimals); checked_mul_div{,_ceil}, checked_mul_div_with_signed_numerator, apply_factor, to_signed are called through their C01 contracts, re-proved in this same run',
    'carrier Pos{long, usd, tokens, mkt} for `Self: Position` (is_long(), size_in_usd(), size_in_tokens(), market() as field reads) and carrier PnlMarket for `Self::Market`: open_interest() / open_interest_in_tokens() as fallible reads of a two-sided amount (Balance::amount(is_long) = long/short amount), pool_value_without_pnl_for_one_side(prices, is_long, maximize) as a fallible table by (is_long, maximize), pnl_factor_config(kind, is_long) as a fallible table by (kind, is_long); the four methods read nothing else',
    'carriers Price{min,max}, Prices{index,long,short}, PnlFactorKind: field / variant lists compared with the repo on every run (R11)',
    'unit rewrites (logged): `use num_traits::...;` lines dropped, `crate::utils::apply_factor(` => `apply_factor(`',
]
UNVERIFIED = [
    'MONOTONICITY OF THE CREDITED (CAPPED) PNL IS PROVED FOR ONE AND THE SAME POOL READ: lemma_capped_pnl_monotone holds the pool pnl and its capped value fixed while the close price moves. When the pool pnl is recomputed at the new index price as well (BaseMarketExt::pnl, proved here to be oi_tokens*price - oi_usd), the scaling factor capped/pool_pnl shrinks as the price rises and the credited pnl of a position opened below the pool average entry price can DECREASE in the capped regime (e.g. pool 100 tokens / 1000 usd, position 10 tokens / 50 usd, cap 100: price 12 -> 35, price 20 -> 15). This is the GMX trader-pnl cap; it is not claimed, and not recorded as a finding because it has not been reproduced through the real code natively',
    'pool_value_without_pnl_for_one_side itself (pool amount x token price at the requested extreme) is under contract in C06 (verus/C06.rs), not repeated here; which (is_long, maximize=false) entry is read IS pinned here',
    'the decrease action applying the realised pnl to the pools (DecreasePosition::execute / process_collateral): C07/C08 material, not built',
    'store-side implementations of the accessors (Market as BaseMarket/PerpMarket, Position state): config reads are C16',
    'no native replay registered: a failed obligation is reported with the verifier output and no-failing-input-found',
]
ASSUMPTIONS = []
MANIFEST = dict(engine='verus',
    technique='Verus contracts on the trait-default methods PositionExt::{pnl_value, size_delta_in_tokens}, MarketUtils::cap_pnl, BaseMarketExt::pnl and Price::pick_price_for_pnl, extracted from /repo each run onto carriers for Self; the statement as lemmas over those contracts',
    text='Deductive proof, unbounded over all sizes, prices, open interests, pool values and cap factors (u128/i128 ranges): pnl_value returns exactly (share of capped total pnl, share of uncapped total pnl, closed tokens) where total pnl = tokens x worse-side index price - size (long) or size - tokens x price (short), the cap scales a positive total by (pool pnl capped with the MaxForTrader factor at pool value x factor) / (pool pnl), the closed tokens are delta/size of the tokens rounded up for longs and down for shorts (all of them on a full close), and shares truncate toward zero. Lemmas over these contracts: the uncapped realised pnl is monotone non-decreasing in the price for a long and non-increasing for a short; so is the credited pnl for one and the same pool read; the credited pnl never exceeds the uncapped pnl; a partial close realises closed/tokens of the total pnl within one unit toward zero, and closed tokens are within one token of delta/size.',
    note='Credited-pnl monotonicity is for a fixed pool read (pool pnl and cap held fixed); co-variation of the pool pnl with the price is not claimed (listed). The actions that apply the pnl are not covered.')
