PROPERTY = 'C32'
LEVEL = 'proof'
VERUS = ['verus/C32.rs', 'verus/C32_settle.rs', 'verus/C32_decrease.rs']
TRUSTED = [
    'prelude / monomorphisation / U256 contract as in C01; glue_u128 forwarding wrappers',
    'carrier Order{builder_fee_amount}: record_builder_fee touches only that field',
    'anchor require*!/error! macros rewritten per R5/R6 (error payloads dropped)',
]
UNVERIFIED = [
    'decrease path: the statement `if builder_fee_factor != 0 { .. }` of execute_decrease_position IS under contract as a BLOCK unit (verus/C32_decrease.rs; `//@ block`: only that statement of the ~250-line function is kept, its free variables are the unit\'s parameters, so the contract holds for arbitrary values of them); Oracle::get_primary_price is an assumed deterministic read, the BuilderFeeCharged event CPI an assumed fallible call; that `output_amount` at that point is what the order pays out (transfer_out two statements later) is not proved',
    'settlement handler: the SPL transfer_checked CPI is one ghost-ledger entry (assumed: it fails or moves exactly the amount), AccountLoader::load()/load_mut() are projections, the event CPI is an arbitrary fallible call; account constraints (escrow / claim vault ATAs, signer seeds) are Anchor attributes outside both verifiers',
]
ASSUMPTIONS = []
MANIFEST = dict(engine='verus',
    technique='(decrease path: Verus contract on the builder-fee block of execute_decrease_position, extracted as one statement) Verus contracts on the private free functions compute/clamp/charge/estimate builder fee, Order::record_builder_fee and the whole SettleBuilderFee::invoke handler (SPL transfer as a ghost-ledger entry), extracted by text from /repo each run',
    text='Deductive proof, unbounded over sizes, factors, prices, increments: fee == ceil(floor(size*f/U) / min price) (rounded up, never under-collected), zero factor => zero fee without reading the price; increase: Ok implies fee + remaining == increment, shortfall is an error; estimate: bypass swap type rejected for any non-zero factor; clamp == min; record accumulates with overflow failing and leaving the record unchanged. Settlement (whole handler): a zero record is a no-op without any transfer; otherwise exactly one transfer from the escrow to the claim vault of the recorded builder, of min(recorded amount, escrow balance), after which the record is zero - so repeating the settlement is the no-op.',
    note='Trusted: Verus+Z3, prelude, glue. The decrease-path clamp call is only located, not proved (listed); the settlement handler is proved on carriers (SPL transfer assumed atomic).')


def extra(res, repo, tier, seed):
    # both text anchors are gone: the decrease-path block (verus/C32_decrease.rs) and the settlement handler (verus/C32_settle.rs) are units
    pass
