PROPERTY = 'C32'
LEVEL = 'proof'
VERUS = ['verus/C32.rs', 'verus/C32_settle.rs']
TRUSTED = [
    'prelude / monomorphisation / U256 contract as in C01; glue_u128 forwarding wrappers',
    'carrier Order{builder_fee_amount}: record_builder_fee touches only that field',
    'anchor require*!/error! macros rewritten per R5/R6 (error payloads dropped)',
]
UNVERIFIED = [
    'decrease path: `paid = clamp_builder_fee_amount(payable, output_amount)` then `record_builder_fee(paid)` inside execute_decrease_position (private, over Anchor account wrappers): the two expressions are located by text on every run (lost => exit 2) but the surrounding function is not proved; clamp itself (min) is proved',
    'settlement handler: the SPL transfer_checked CPI is one ghost-ledger entry (assumed: it fails or moves exactly the amount), AccountLoader::load()/load_mut() are projections, the event CPI is an arbitrary fallible call; account constraints (escrow / claim vault ATAs, signer seeds) are Anchor attributes outside both verifiers',
]
ASSUMPTIONS = []
MANIFEST = dict(engine='verus',
    technique='Verus contracts on the private free functions compute/clamp/charge/estimate builder fee, Order::record_builder_fee and the whole SettleBuilderFee::invoke handler (SPL transfer as a ghost-ledger entry), extracted by text from /repo each run',
    text='Deductive proof, unbounded over sizes, factors, prices, increments: fee == ceil(floor(size*f/U) / min price) (rounded up, never under-collected), zero factor => zero fee without reading the price; increase: Ok implies fee + remaining == increment, shortfall is an error; estimate: bypass swap type rejected for any non-zero factor; clamp == min; record accumulates with overflow failing and leaving the record unchanged. Settlement (whole handler): a zero record is a no-op without any transfer; otherwise exactly one transfer from the escrow to the claim vault of the recorded builder, of min(recorded amount, escrow balance), after which the record is zero - so repeating the settlement is the no-op.',
    note='Trusted: Verus+Z3, prelude, glue. The decrease-path clamp call is only located, not proved (listed); the settlement handler is proved on carriers (SPL transfer assumed atomic).')


def extra(res, repo, tier, seed):
    import os, re
    s = open(os.path.join(repo, 'programs/store/src/ops/order.rs')).read()
    if not re.search(r'clamp_builder_fee_amount\(\s*payable_amount\s*,\s*output_amount\.into\(\)\s*\)', s):
        res.undecided.append('anchor lost: decrease-path clamp `clamp_builder_fee_amount(payable_amount, output_amount.into())` not found in ops/order.rs')
    b = open(os.path.join(repo, 'programs/store/src/instructions/builder_fee.rs')).read()
    if not re.search(r'recorded_amount\.min\(\s*ctx\.accounts\.escrow\.amount\s*\)', b) or 'builder_fee_amount = 0' not in b:
        res.undecided.append('anchor lost: settlement expressions (`recorded_amount.min(ctx.accounts.escrow.amount)`, `builder_fee_amount = 0`) not found in instructions/builder_fee.rs')
