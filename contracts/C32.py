PROPERTY = 'C32'
LEVEL = 'proof'
VERUS = ['verus/C32.rs']
TRUSTED = [
    'prelude / monomorphisation / U256 contract as in C01; glue_u128 forwarding wrappers',
    'carrier Order{builder_fee_amount}: record_builder_fee touches only that field',
    'anchor require*!/error! macros rewritten per R5/R6 (error payloads dropped)',
]
UNVERIFIED = [
    'decrease path: `paid = clamp_builder_fee_amount(payable, output_amount)` then `record_builder_fee(paid)` inside execute_decrease_position (private, over Anchor account wrappers): the two expressions are located by text on every run (lost => exit 2) but the surrounding function is not proved; clamp itself (min) is proved',
    'settlement `settled = recorded.min(escrow.amount)`, transfer, `builder_fee_amount = 0` in instructions/builder_fee.rs (Context handler, SPL transfer CPI): located by text on every run, not proved',
]
ASSUMPTIONS = []
MANIFEST = dict(engine='verus',
    technique='Verus contracts on the private free functions compute/clamp/charge/estimate builder fee and Order::record_builder_fee, extracted by text from /repo each run',
    text='Deductive proof, unbounded over sizes, factors, prices, increments: fee == ceil(floor(size*f/U) / min price) (rounded up, never under-collected), zero factor => zero fee without reading the price; increase: Ok implies fee + remaining == increment, shortfall is an error; estimate: bypass swap type rejected for any non-zero factor; clamp == min; record accumulates with overflow failing and leaving the record unchanged.',
    note='Trusted: Verus+Z3, prelude, glue. The decrease-path clamp call and the settlement handler are only located, not proved (listed).')


def extra(res, repo, tier, seed):
    import os, re
    s = open(os.path.join(repo, 'programs/store/src/ops/order.rs')).read()
    if not re.search(r'clamp_builder_fee_amount\(\s*payable_amount\s*,\s*output_amount\.into\(\)\s*\)', s):
        res.undecided.append('anchor lost: decrease-path clamp `clamp_builder_fee_amount(payable_amount, output_amount.into())` not found in ops/order.rs')
    b = open(os.path.join(repo, 'programs/store/src/instructions/builder_fee.rs')).read()
    if not re.search(r'recorded_amount\.min\(\s*ctx\.accounts\.escrow\.amount\s*\)', b) or 'builder_fee_amount = 0' not in b:
        res.undecided.append('anchor lost: settlement expressions (`recorded_amount.min(ctx.accounts.escrow.amount)`, `builder_fee_amount = 0`) not found in instructions/builder_fee.rs')
