PROPERTY = 'C36'
LEVEL = 'proof'
VERUS = ['verus/C36.rs', 'verus/C36_handlers.rs']
TRUSTED = [
    'Verus 0.2026.09.13 + bundled Z3; vstd (incl. its specs of i64::checked_add_unsigned, u32::checked_add)',
    'carrier Pubkey{hi, lo: u128}: a faithful 32-byte value with structural equality; DEFAULT_PUBKEY = all zero (Pubkey::new_from_array([0; 32]))',
    'carriers InstructionHeader / TimelockConfig: the fields these functions touch; the full field lists of the repo structs are compared on every run (R11)',
    'carrier InstructionFlagContainer{approved} for the flags!-generated bit container (single flag Approved)',
    'Clock::get() replaced by a fallible read of one uninterpreted clock value now_spec() (logged unit rewrite); `bool::then_some(x)` rewritten to `if b { Some(x) } else { None }` (logged unit rewrite)',
    'anchor require*!/error! macros per R5/R6',
]
UNVERIFIED = [
    'handlers (verus/C36_handlers.rs): loaders are projections, the store-program `check_role` CPI is assumed to answer Store::has_role (C18) and to fail unless it is true, `invoke_signed` of the buffered instruction is one ghost-ledger entry, `roles::timelocked_role` is an uninterpreted string function; the `for` loops are written as indexed while loops (unit rewrites); in load_and_init_instruction the header initialisation and the zero-copy split of the account data (load_init / exit / RefMut::map_split / bytemuck / copy_from_slice) are ONE assumed call that hands out the header and the accounts area',
    'executed / cancelled buffers cannot run again (account is closed by Anchor `close = ...`): runtime/Anchor behaviour, not expressible as a function contract here',
    'InstructionAccess::to_instruction (the executed instruction is rebuilt from the buffer: program, accounts with flags, data) is not under contract; that the role given to approve_instruction is the executor\'s role is an Anchor account constraint',
    'no native replay: items of an Anchor program crate; a failed obligation is reported with the verifier output and no-failing-input-found',
]
ASSUMPTIONS = ['one clock value per call (now_spec): the Clock sysvar does not change within one instruction']
MANIFEST = dict(engine='verus',
    technique='Verus contracts on InstructionHeader::{approve, is_approved, approved_at, apporver, is_executable}, TimelockConfig::{increase_delay, delay} and optional_address, extracted from /repo each run; plus the whole handlers approve_instruction, approve_instructions, validate_timelocked_role, unchecked_execute_instruction and InstructionLoader::load_and_init_instruction (signer marking) on carriers',
    text='Deductive proof, unbounded over all header states, timestamps (full i64) and delays: approve succeeds at most once (an approved header rejects; the default address is rejected; rejection changes nothing), records approver and approval together and preserves flag <=> recorded approver; is_executable returns true exactly when the header is approved and now - approved_at >= delay, for every i64 clock value; increase_delay only increases the delay and fails without change on overflow. The saturating-add defect found by this contract was repaired (fix: commit, known_findings.txt). Handlers (whole bodies): an approval is recorded only for a signer holding the TIMELOCKED counterpart of the role, records that signer and the current time, and never re-approves; a batch approval touches only buffers of this executor; execution invokes exactly this buffer, once, and only if it is approved, its approver STILL holds the timelocked role of the executor and the configured delay has passed since the approval; when a buffer is created every account is stored with its own address and writable flag, is marked as a signer exactly when its index is listed, and an account marked as a signer IS the executor wallet.',
    note='Trusted: Verus+Z3, carriers, clock as one uninterpreted value per call, the role CPI and invoke_signed as assumed calls. Buffer closing (Anchor `close`) and the reconstruction of the instruction from the buffer are not covered (listed).')


def extra(res, repo, tier, seed):
    # the handler expressions that used to be located by text are under contract now (verus/C36_handlers.rs)
    pass
