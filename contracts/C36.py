PROPERTY = 'C36'
LEVEL = 'proof'
VERUS = ['verus/C36.rs']
TRUSTED = [
    'Verus 0.2026.09.13 + bundled Z3; vstd (incl. its specs of i64::checked_add_unsigned, u32::checked_add)',
    'carrier Pubkey{hi, lo: u128}: a faithful 32-byte value with structural equality; DEFAULT_PUBKEY = all zero (Pubkey::new_from_array([0; 32]))',
    'carriers InstructionHeader / TimelockConfig: the fields these functions touch; the full field lists of the repo structs are compared on every run (R11)',
    'carrier InstructionFlagContainer{approved} for the flags!-generated bit container (single flag Approved)',
    'Clock::get() replaced by a fallible read of one uninterpreted clock value now_spec() (logged unit rewrite); `bool::then_some(x)` rewritten to `if b { Some(x) } else { None }` (logged unit rewrite)',
    'anchor require*!/error! macros per R5/R6',
]
UNVERIFIED = [
    'unchecked_execute_instruction (Context handler): the re-check that the approver still holds the timelocked role (store.has_role) and `require!(instruction.header().is_executable(delay)?)` are located by text on every run (lost => exit 2) but the handler is not proved; role membership is C18',
    'approve_instruction handlers checking that the signer holds the timelocked role before calling approve: located by text, not proved',
    'executed / cancelled buffers cannot run again (account is closed by Anchor `close = ...`): runtime/Anchor behaviour, not expressible as a function contract here',
    'InstructionLoader::load_and_init_instruction / InstructionAccess::to_instruction (the executed instruction is exactly the buffered program, accounts with flags, data; only the executor wallet may sign): not under contract here',
    'no native replay: items of an Anchor program crate; a failed obligation is reported with the verifier output and no-failing-input-found',
]
ASSUMPTIONS = ['one clock value per call (now_spec): the Clock sysvar does not change within one instruction']
MANIFEST = dict(engine='verus',
    technique='Verus contracts on InstructionHeader::{approve, is_approved, approved_at, apporver, is_executable}, TimelockConfig::{increase_delay, delay} and optional_address, extracted from /repo each run',
    text='Deductive proof, unbounded over all header states, timestamps (full i64) and delays: approve succeeds at most once (an approved header rejects; the default address is rejected; rejection changes nothing), records approver and approval together and preserves flag <=> recorded approver; is_executable returns true exactly when the header is approved and now - approved_at >= delay, for every i64 clock value; increase_delay only increases the delay and fails without change on overflow. The saturating-add defect found by this contract was repaired (fix: commit, known_findings.txt).',
    note='Trusted: Verus+Z3, carriers, clock as one uninterpreted value per call. Handler-level role re-check, buffer closing and instruction reconstruction are not covered (listed).')


def extra(res, repo, tier, seed):
    import os, re
    s = open(os.path.join(repo, 'programs/timelock/src/instructions/instruction_buffer.rs')).read()
    for pat, what in [(r'instruction\.header\(\)\.is_executable\(delay\)\?', 'execute re-checks is_executable(delay)'),
                      (r'store\.has_role\(approver, &timelocked_role\)\?', 'execute re-checks the approver role'),
                      (r'\.approve\(approver\)\?', 'approve handler calls InstructionHeader::approve')]:
        if not re.search(pat, s):
            res.undecided.append(f'anchor lost: instruction_buffer.rs: {what} (/{pat}/ not found)')
