PROPERTY = 'C30'
LEVEL = 'proof'
VERUS = ['verus/C30.rs']
TRUSTED = [
    'prelude / monomorphisation / U256 contract as in C01; glue_u128 forwarding wrappers (apply_factor_p, div_to_factor_p)',
    'carriers GtState / UserGtState / UserHeader{gt}: the fields these functions read or write; the full field lists of the repo structs are compared on every run (R11), and a body touching a field the carrier lacks does not compile (=> exit 2)',
    'Clock::get() and AsClock::passed_in_seconds() replaced by arbitrary fallible reads (external_body clock_get / passed_in_seconds): logged unit rewrites',
    'anchor require*!/error! macros rewritten per R5/R6; msg! log statements dropped (R16)',
]
UNVERIFIED = [
    'the composite `self.ranks().binary_search(&amount)` is used through an ASSUMED std contract (ranks_binary_search: `&self.ranks[0..max_rank]` slicing + `<[u64]>::binary_search` on a strictly increasing slice; vstd has no spec for either); everything else in unchecked_update_rank (Ok(i) => i + 1, Err(i) => i, the u8 cast, the assignment, the debug assertion max_rank < 255) is extracted and proved against rank_spec = number of thresholds at or below the balance',
    'histories: supply == sum of user balances and total_minted monotone follow by induction from the per-operation deltas proved here (each operation changes supply and exactly one balance by the same amount); the induction itself is not mechanised',
    'GtState::init / set_* establishing grow_step_amount != 0, strictly increasing ranks, grow_steps == total_minted / grow_step_amount initially: not under contract here',
    'exchange requests: unchecked_request_exchange = unchecked_burn_from (proved) + vault.add / exchange.add (not under contract here); GtExchangeVault::validate_depositable / validate_confirmable time-window rules: not under contract here',
    'native fallback (native/C30.rs, bounded: five threshold tables, balances < 12, two mints and a burn) for mint_to / unchecked_burn_from / unchecked_update_rank only; otherwise no native replay: these are pub(crate)/private items of an Anchor program crate; a failed obligation is reported with the verifier output and no-failing-input-found',
]
ASSUMPTIONS = ['wf(GtState): max_rank <= 15 and ranks[0..max_rank) strictly increasing (enforced by GtState::init / set ranks; precondition of mint_to / unchecked_burn_from / unchecked_update_rank here)', 'the split-independence of the minting cost is stated for states with grow_steps == total_minted / grow_step_amount (an invariant mint_to is proved to preserve)']
MANIFEST = dict(engine='verus',
    technique='Verus contracts on GtState::{next_minting_cost (loop invariant), get_mint_amount, mint_to, unchecked_burn_from, unchecked_update_rank, update_cumulative_inv_cost_factor} extracted from /repo each run, plus the split lemma cost_after(cost_after(c,a),b) == cost_after(c,a+b)',
    text='Deductive proof, unbounded over all states and amounts, per operation: mint_to adds the same amount to supply, user balance, total minted and user total minted (or fails leaving everything unchanged); burn subtracts the same amount from supply and balance, rejects more than the balance, leaves total minted untouched; the step counter stays total_minted / grow_step_amount and the cost is the old cost grown once per newly reached step, hence a function of the total minted only (split lemma); get_mint_amount returns floor(value / cost) whole units, minted value = units * cost, remainder < cost stays unminted; update_cumulative_inv_cost_factor touches only its two fields. After every mint and burn the user rank equals the number of configured thresholds at or below the new balance (modulo the assumed std contract of slice binary_search on strictly increasing ranks).',
    note='Trusted: Verus+Z3, prelude, carriers, clock stubs. slice::binary_search over the rank prefix is an assumed std contract; histories by (unmechanised) induction; exchange vault windows not covered.')


def _native(repo):
    from engine import native
    return native.run('native/C30.rs', repo)


def replay(ob, repo, seed):
    """bounded native run of the extracted text of mint_to / unchecked_burn_from / unchecked_update_rank (rank and supply clauses)"""
    if not any(k in ob['id'] for k in ('mint_to', 'unchecked_burn_from', 'unchecked_update_rank', 'rank')):
        return None
    r = _native(repo)
    if r['error']:
        return dict(failing_input=None, note='native run of the extracted text not possible: ' + r['error'])
    if r['fails']:
        return dict(failing_input=dict(function='GtState::{mint_to, unchecked_burn_from, unchecked_update_rank, ranks} (text verbatim from /repo on plain-Rust carriers)', cases=r['fails']),
                    note=f"bounded native search; first failing cases listed; {r['log']}")
    return dict(failing_input=None, note=f"{r['executions']} native executions of the extracted text kept rank == number of thresholds reached and supply == balance")


FALLBACK_OBS = ['C30.GtState.mint_to']
