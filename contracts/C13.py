PROPERTY = 'C13'
LEVEL = 'proof'
VERUS = ['verus/C13.rs', 'verus/C07.rs', 'verus/C07_decrease.rs']
TRUSTED = [
    'prelude / monomorphisation / U256 contract as in C01 (instance u128, 20 decimals); apply_factor, checked_signed_sub, checked_add_with_signed, to_signed are called through their C01 contracts, re-proved in this same run',
    'carrier BMarket for `Self: BorrowingFeeMarket(+Mut)`: borrowing_factor_pool{,_mut}(), total_borrowing_pool{,_mut}(), open_interest(), passed_in_seconds_for_borrowing() as fallible field reads / `&mut` projections (real bodies, verified); borrowing_factor_per_second(is_long, prices) is read as a fallible table by side (NOT under contract here); carrier Sides{long, short} for `Self::Pool` with the Pool-trait contract (checked signed addition per side; the store-side pool is C15); carriers Pos / UpdateBorrowingState for `Self` of the two `&mut self` methods',
    'glue N::from_u64; unit rewrites (logged): `use ...;` dropped, `crate::utils::apply_factor(` => `apply_factor(`, `Self::Num::from_u64` => `N::from_u64`, the closure of `.and_then(|total| total.checked_sub(&total_borrowing))` annotated with the exact specification of checked_sub (checked by Verus against the closure body)',
]
UNVERIFIED = [
    'BorrowingFeeMarketExt::borrowing_factor_per_second (reserved value, skip-for-smaller-side, kink model or exponent model): only its type (an unsigned rate) is used; its formula is not under contract in this check',
    'the ORDER at the two call sites is now PROVED (units C07.IncreasePosition.execute / C07.DecreasePosition.execute, run in this check too): update_total_borrowing is called exactly once, while the position still holds its old size and borrowing factor, with exactly the size and factor the position ends with (a ghost log on the position carrier records each call with the values the position held at that moment); update_total_borrowing itself is the unit C13.update_total_borrowing',
    'the aggregate identity over ALL open positions and its preservation over histories: lemma_total_borrowing_le proves sum_i floor(size_i x factor_i) <= floor(open interest x cumulative factor) for settlement factors <= the cumulative factor, and update_total_borrowing replaces exactly one term of that sum; the composition over an unbounded history (and "open interest == sum of sizes", which is C07) is not mechanised',
    'failure atomicity of UpdateBorrowingState::execute_one_side is not stated (Verus limitation on `&mut` temporaries at an inner `?` exit, see DESIGN 8.7)',
    'no native replay registered; a failed obligation is reported with the verifier output and no-failing-input-found',
]
ASSUMPTIONS = []
MANIFEST = dict(engine='verus',
    technique='Verus contracts on IncreasePosition::execute / DecreasePosition::execute (ghost log: total borrowing updated once, before the size and factor writes, with the values the position ends with) and on the trait-default methods BorrowingFeeMarketExt::{cumulative_borrowing_factor, next_cumulative_borrowing_factor, total_pending_borrowing_fees}, PositionMutExt::update_total_borrowing, PoolExt::apply_delta_amount and UpdateBorrowingState::execute_one_side, extracted from /repo each run onto carriers for Self (with `&mut`-returning accessors); sum lemma by induction over positions',
    text='Deductive proof, unbounded over all pool amounts, rates, durations, sizes and factors: the next cumulative borrowing factor is the current one plus rate x seconds (never smaller) and execute_one_side stores exactly that on that side only; update_total_borrowing moves the side total by exactly floor(next size x next factor) - floor(size x last factor) and touches nothing else, failing without change otherwise; total_pending_borrowing_fees == floor(open interest x next cumulative factor) - total borrowing, is never negative, and always computes when the state is readable, the values representable and total borrowing <= floor(open interest x cumulative factor); lemma: the sum over positions of floor(size x settlement factor) with settlement factors <= the cumulative factor is at most floor(sum of sizes x cumulative factor), i.e. the accounting identity of the statement implies that invariant.',
    note='borrowing_factor_per_second itself, the call order at the two call sites and the composition over histories are listed as unverified.')


def extra(res, repo, tier, seed):
    pass
