PROPERTY = 'C22'
LEVEL = 'proof'
VERUS = ['verus/C22.rs', 'verus/C22_ops.rs']
TRUSTED = [
    'Verus 0.2026.09.13 + bundled Z3; vstd (u64/u128 checked ops, u128::from(u64), `&mut`-returning accessor with final()); the num_traits-shaped prelude for the model-generic units (Num = u128 as N)',
    'carrier RM for `RevertibleMarket` and for `Self` of ValidateMarketBalances / BaseMarketExt / Bank: market{meta, pure}, other()/other_mut() = the recorded balances (OtherState field list compared with the repo each run, R11), the five pools the validation reads (liquidity, swap impact, claimable fee, the two collateral-sum pools) as fallible two-sided amounts; MarketMeta carrier compared each run; Pubkey as two u128 words',
    'type bridging, logged per use: the generic `token: &Q, Q: Borrow<Pubkey>` is instantiated at Pubkey (`token.borrow()` => `token`); the model-generic results (N) are unwrapped with `.0` where the store code uses raw u128; in Bank::balance_excluding (generic over num_traits) `.checked_sub(excluded)` / `excluded.is_zero()` are written for u64 (optional rewrites: absent patterns are not anchors); `.map_err(ModelError::from)?` => `?` (error conversion only)',
    'rules R5f (error payload with two formatted values dropped), R16 (msg!/debug_msg! logs dropped), R16c (`#[cfg(feature = "debug-msg")] let ..;` dropped), R6 (require*!): logged per use',
]
UNVERIFIED = [
    '"AFTER EVERY SUCCESSFUL STORE INSTRUCTION" IS NOT PROVED: this check proves what a successful validation GUARANTEES (recorded balance minus the excluded amounts covers liquidity + swap impact + claimable fees, and separately the total collateral, for both pool tokens; both halves for a single-token market) and how the recorded balances MOVE (record_transferred_in/out change exactly one side by exactly the amount, never below zero, failure changes nothing). That every instruction which moves vault tokens records the movement and ends with a validation is located by text (call sites counted per file on every run: instructions/market.rs, ops/market.rs, ops/order.rs, revertible/swap_market.rs), not proved - EXCEPT for the two liquidity operations: the deposit and withdrawal blocks of ops/market.rs are under contract as BLOCK units (verus/C22_ops.rs): after the model action the balances are validated on the very market state the operation goes on with, excluding nothing for a deposit and exactly the two outgoing amounts for a withdrawal; the model action chain is one assumed call there',
    'the shared-vault clause (recorded balances of all markets sharing a vault never exceed the vault token balance) is an induction over token transfers performed by CPI; only its per-step arithmetic is stated (lemma_shared_vault_step_in/out); the actual token accounts are outside any contract here',
    'the implementation of the pool accessors (RevertibleMarket::pool(kind) through the revertible buffer: C21 material) and of Market::is_pure (flag set from long == short at creation: the invariant rm_wf is a precondition of validate_market_balances)',
    'native run of the three validation methods: their TEXT (verbatim) on plain-Rust carriers over a small domain (balances 0..5 / 0..3, reserved 0..2, collateral {0,2}/{0,1}, three tokens, amounts 0..3, both purities): a bounded search used only to find a failing input / as fallback when a method leaves the Verus subset; never counted as discharged. The other units have no native replay',
]
ASSUMPTIONS = ['rm_wf: the market\'s pure flag equals (long token mint == short token mint) (set at market creation; C17 material)']
MANIFEST = dict(engine='verus',
    technique='(call sites: block units on the deposit / withdrawal blocks of ops/market.rs) Verus contracts on ValidateMarketBalances::{validate_market_balance_for_the_given_token, validate_market_balances, validate_market_balances_excluding_the_given_token_amounts (array-literal loop through rule R21)}, RevertibleMarket::{balance_for_token, record_transferred_in, record_transferred_out} and its Bank impl, Bank::balance_excluding, BaseMarketExt::{expected_min_token_balance_..., total_collateral_amount_for_one_token_side} and MarketMeta::to_token_side, extracted from /repo each run onto one carrier',
    text='PARTIAL (the enforcement functions; not the per-instruction wiring). Deductive proof, unbounded over all recorded balances (u64), pool amounts (u128), excluded amounts, tokens and both market purities: a successful validate_market_balances (and validate_market_balances_excluding_the_given_token_amounts, which sets BOTH given amounts aside, each on the side of its token, and rejects a non-zero amount of a non-pool token) means that for each pool token the recorded balance minus the excluded amount covers liquidity + swap impact + claimable fee amounts and, separately, the total position collateral (a single-token market: the sum of both halves against the one recorded balance, with the two excluded amounts added once); record_transferred_in/out and their by-token forms move exactly the recorded balance of that token side by exactly the amount (a single-token market keeps everything on the long side), a transfer out larger than the recorded balance fails, and a failed call changes nothing.',
    note='Partial claim: "after every instruction" and the shared-vault sum are listed as unverified (call sites located by text).')


def _native(repo):
    from engine import native
    return native.run('native/C22.rs', repo)


def replay(ob, repo, seed):
    if 'validate_market_balance' not in ob['id']:
        return None
    r = _native(repo)
    if r['error']:
        return dict(failing_input=None, note='native run of the extracted text not possible: ' + r['error'])
    if r['fails']:
        return dict(failing_input=dict(function='ValidateMarketBalances::validate_market_balances_excluding_the_given_token_amounts -> validate_market_balances -> validate_market_balance_for_the_given_token (text verbatim from /repo on plain-Rust carriers)', cases=r['fails']),
                    note=f"bounded native search; first failing cases listed; {r['log']}")
    return dict(failing_input=None, note=f"{r['executions']} native executions of the extracted text satisfied the coverage condition")


FALLBACK_OBS = ['C22.validate_market_balances_excluding_the_given_token_amounts']


def extra(res, repo, tier, seed):
    import os, re
    want = {'programs/store/src/instructions/market.rs': 1, 'programs/store/src/ops/order.rs': 3,
            'programs/store/src/states/market/revertible/swap_market.rs': 9}
    for f, n in want.items():
        s = open(os.path.join(repo, f)).read()
        got = len(re.findall(r'validate_market_balances|validate_market_balance_for_the_given_token', s))
        if got < n:
            res.undecided.append(f'anchor drift: {f} has {got} balance-validation call sites, the check was written for {n} (a validation may have been removed)')
