PROPERTY = 'C28'
LEVEL = 'proof'
VERUS = ['verus/C28.rs']
KANI = [
    dict(mode='ext', harness='c28_decode_full_report_slice', timeout=900, mem_gb=8,
         bounded='payload of every length 0..=224 with every byte symbolic, on the REAL crate (the function has no loop over the payload; its `for idx in 0..3` is fully unwound)',
         fn='gmsol_chainlink_datastreams::report::decode_full_report'),
    dict(mode='ext', harness='c28_finding_high_order_bytes_of_offset_and_length_ignored', timeout=900, mem_gb=8,
         bounded='same domain; the clause of the known finding',
         fn='gmsol_chainlink_datastreams::report::decode_full_report'),
]
TRUSTED = [
    'decode_full_report: the four slice / byte-order expressions are replaced by carrier calls (unit rewrites, logged): `payload[a..b].try_into()` -> word32(payload, a), `usize::from_be_bytes(payload[w..w+32][24..32]..)` -> be_usize(payload, w + 24), `&payload[a..b]` -> vstd slice_subrange; each carrier has the PANIC CONDITION of the original expression as its precondition, which Verus proves at every call for every byte string; that `usize::from_be_bytes` of 8 bytes is their big-endian value and that a 32-byte slice converts to [u8; 32] is assumed. The same function is run unmodified under Kani (bounded in the payload length) as a cross-check of exactly these rewrites',
    'from_chainlink_report: ruint U192 is an external type with an assumed contract (comparison, division, 10^d for d <= 18); `(x / divisor).try_into().unwrap()` -> div_to_u128(x, divisor) whose precondition is the panic condition (non-zero divisor, quotient fits u128); `i64::from` / `u64::from` of a u32 -> `as`; u64::div_ceil / abs_diff -> verified glue; PriceFeedPrice::new / set_flag / set_market_status as glue on a carrier with the flags as booleans',
]
UNVERIFIED = [
    'ASSUMED: gmsol_utils::price::find_divisor_decimals(n) returns d <= 20 with n / 10^d <= u128::MAX (a binary search in a static table of u128::MAX x 10^i; not under contract)',
    '`decode` / `decode_compressed_full_report` (snap decompression, ABI decoding of the report body by the chainlink-data-streams-report crate, BigInt conversions) are dependency code outside both verifiers: "never panics on any byte string" is claimed for decode_full_report only',
    'report schema versions, timestamps beyond the stated clauses, and the freshness policy (C27) are not covered here',
]
ASSUMPTIONS = ['64-bit target (usize is 8 bytes, as the code assumes when it reads the last 8 bytes of a word)']
MANIFEST = dict(engine='verus',
    technique='Verus contracts on decode_full_report (bounds logic, slicing expressed as carrier calls whose preconditions are the panic conditions) and on PriceFeedPrice::from_chainlink_report (whole body, U192 as an assumed dependency contract), extracted from /repo each run; Kani/CBMC run of the unmodified decode_full_report on the real crate for every payload of up to 224 bytes as a bounded cross-check',
    text='Deductive proof for EVERY byte string of any length: decode_full_report never indexes or slices out of range and never overflows; when it succeeds the payload has at least 128 bytes, the context is its first three words and the blob is exactly payload[off + 32 .. off + 32 + len] where off is the offset word (>= 128) and len the length word found at off, both inside the payload. Converting a report to a feed price never divides by zero or truncates (the quotients are proved to fit u128), rejects a negative price / bid / ask and ask < price or price < bid, divides all three by the same power of ten 10^d (d <= 18, decimals = 18 - d) and so preserves bid <= price <= ask.',
    note='One known finding: the high-order 24 bytes of the offset and length words are ignored. The body decoders are dependency code (not covered).')


def extra(res, repo, tier, seed):
    pass
