PROPERTY = 'C07'
LEVEL = 'proof'
VERUS = ['verus/C07.rs', 'verus/C07_decrease.rs']
TRUSTED = [
    'prelude / monomorphisation (Num = u128 newtype N, Signed = i128 newtype S) and checked-arithmetic contracts as in C01',
    'carriers (verus/inc/perp_tracked.rs): the market is the six tracked pools (open interest, open interest in tokens, collateral sum; one two-sided pool per position side, the two sides of a pool being the two collateral tokens) plus an opaque rest; the position is its state fields plus that market. The `_mut` accessors are written out with their frame (prophecy) contracts; the pool operations apply_delta_to_long_amount / _short_amount carry the exact contract of the store pool (C15)',
    'unit rewrites (logged): R21 (`for x in [true, false]` -> indexed while with the stated invariant), debug_assert! -> Verus assert (proved from the preconditions size_delta_usd <= size_in_usd and withdrawable <= collateral, which try_new / DecreasePositionFlags::init establish - both under contract here), the `.map(|total| total > max)` closure annotated with its own body',
    'cuts (stated): IncreasePosition::get_execution_params after the zero-size early return (the rest is an arbitrary ExecutionParams); apply_delta_to_open_interest after the max-open-interest validation (virtual inventory is not tracked here); DecreasePosition::execute after `self.position.on_decreased()?;` - the tail builds the report from (params, execution, withdrawable, size_delta_usd, should_remove) and swaps output tokens, and never touches the position sizes or the tracked pools; check_partial_close: the collateral-sufficiency estimate in the middle is replaced by one assumed helper that may only zero the withdrawable amount and promote the order to a full close',
    'proof hint (one, anchored before `self.position.update_open_interest(` in DecreasePosition::execute): lemma_sdt_zero - a decrease of zero usd closes zero tokens',
]
UNVERIFIED = [
    'ASSUMED CALLEE CONTRACTS (external_body): position_fees, will_collateral_be_sufficient, collateral_price, validate, validate_reserve, validate_open_interest_reserve, check_liquidation (read-only, arbitrary result); update_total_borrowing, on_increased, on_decreased, apply_delta_to_position_impact_pool, apply_delta_to_claimable_fee_pool, apply_delta (liquidity pool), virtual inventory (write elsewhere: tracked pools and position sizes unchanged); cumulative_borrowing_factor / funding_fee_amount_per_size / claimable_funding_fee_amount_per_size (arbitrary values)',
    'ASSUMED: DecreasePosition::process_collateral returns size_delta_in_tokens == the third component of pnl_value(prices, size_delta_usd) == sdt_spec (that equality is proved in C11; size_delta_in_tokens itself is re-proved here), and neither it nor the collateral processor touches the position sizes / collateral or the tracked pools. Pinned by text anchors (contracts/C07.py extra()) and exercised by the native history replay',
    'pos_wf (size_in_usd == 0 <=> size_in_tokens == 0) is a precondition of both execute contracts and a proved postcondition of the decrease; for the increase it follows from the two size postconditions only when the execution price yields a non-zero token delta (not claimed)',
    'the property is about sums over all positions: each action is proved to move one position and the matching total by identical amounts and to leave every other total alone; the induction over histories and positions is the (two-line) argument of DESIGN 8.7, not a machine-checked lemma. The store-side position account (programs/store) copies the model position through PositionOps - not under contract here',
    'liquidation / ADL run the same DecreasePosition::execute (flags differ); order-level plumbing in programs/store is not covered',
]
ASSUMPTIONS = ['actions are created through try_new (size_delta_usd capped by or rejected against the position size)', 'a failed action is rolled back by the runtime (the model itself is not failure-atomic)']
MANIFEST = dict(engine='verus',
    technique='(plus, for C13: a ghost log of total-borrowing updates on the position carrier - each action updates the total exactly once, before its size / factor writes, with the values it ends with) Verus contracts on the whole IncreasePosition::execute / process_collateral / initialize_position_if_empty and DecreasePosition::execute (up to the report) / check_partial_close / is_remaining_size_too_small / check_close / try_new / DecreasePositionFlags::init, PositionExt::size_delta_in_tokens, PositionMutExt::update_open_interest and PerpMarketMutExt::apply_delta_to_open_interest, extracted from /repo each run onto carriers; native replay: seeded pseudo-random histories of real increases/decreases of eight positions on TestMarket<u128,20>, sums compared after every step',
    text='Deductive proof, unbounded over all position and market states, sizes, prices and flags: an increase adds exactly size_delta_usd / size_delta_in_tokens / the collateral delta to the position AND to the open-interest, open-interest-in-tokens and collateral-sum entries of its side and collateral token, and a decrease subtracts exactly the same amounts from both; no other side or collateral token is touched. A decrease that would round the token size down to zero has been promoted to a full close (check_partial_close / is_remaining_size_too_small), so `should_remove` is reached only when both sizes are closed in full; a position reported as removed has zero size, zero tokens and zero collateral, one that stays has both sizes strictly positive.',
    note='Collateral processing, fees and the pnl estimate are assumed contracts (listed); the per-action statement is lifted to the sum over positions by induction (DESIGN 8.7).')


def _check_history(out):
    """oracle from the property statement: the six totals equal the sums over the positions"""
    for rec in [r for r in out.split(';') if r.strip()]:
        parts = [x.strip() for x in rec.split('|')]
        head = parts[0].split()
        pos = [tuple(int(v) for v in t.split(',')) for t in parts[1].split()]
        pools = [[int(v) for v in parts[i].split()] for i in (2, 3, 4)]
        for which, name in enumerate(['open interest', 'open interest in tokens', 'collateral sum']):
            for b in range(4):
                s = pos[2 * b][which] + pos[2 * b + 1][which]
                if s != pools[which][b]:
                    bucket = ['long/long-collateral', 'long/short-collateral', 'short/long-collateral', 'short/short-collateral'][b]
                    return f'after step {" ".join(head)}: {name} of {bucket} is {pools[which][b]} but the positions sum to {s}'
        if head[-1] == 'true' and head[1] == 'decrease' and pos[int(head[2])] != (0, 0, 0):
            return f'after step {" ".join(head)}: position reported as removed holds {pos[int(head[2])]}'
        for k, p in enumerate(pos):
            if (p[0] == 0) != (p[1] == 0):
                return f'after step {" ".join(head)}: position {k} has size_in_usd {p[0]} but size_in_tokens {p[1]}'
    return None


def replay(ob, repo, seed):
    from engine import replay as R
    lines = []
    # index price per token unit: coarse tokens ($10, $1000 and $1 a unit: a handful of tokens per position) and fine ones
    for i in range(60):
        for ip, tp in ((10 ** 21, 10 ** 14), (10 ** 23, 10 ** 20), (10 ** 20, 10 ** 20), (10 ** 13, 10 ** 14), (3 * 10 ** 21 + 7, 10 ** 14)):
            lines.append(f'position.history {seed * 1000 + i} 400 {ip} {tp}')
    outs = R.call_native(repo, lines)
    steps = 0
    for l, o in zip(lines, outs):
        if o.startswith('SETUP-ERR') or o in ('UNKNOWN-FN', 'PANIC'):
            raise RuntimeError(f'native history harness broken: {l} -> {o[:100]}')
        steps += o.count(';')
        why = _check_history(o)
        if why:
            return dict(failing_input=dict(call=l, violated=why), note='native execution of the real IncreasePosition / DecreasePosition actions on TestMarket<u128,20> (arguments: seed, number of attempted steps, index token price, short token price); the history is regenerated deterministically from the seed')
    return dict(failing_input=None, note=f'{len(lines)} native histories ({steps} successful steps) kept every total equal to the sum over the positions (seed {seed})')


def extra(res, repo, tier, seed):
    """text anchors behind the assumed process_collateral contract; thorough: native histories as a bounded supplement"""
    import os, re
    src = open(os.path.join(repo, 'crates/model/src/action/decrease_position/mod.rs')).read()
    m = re.search(r'fn process_collateral\(&mut self\).*?\n    fn get_execution_params', src, re.S)
    if not m:
        res.undecided.append('anchor lost: DecreasePosition::process_collateral not found between its header and get_execution_params')
        return
    body = m.group(0)
    compact = re.sub(r'\s+', '', re.sub(r'//[^\n]*', '', body))   # layout-insensitive: a re-formatted tree keeps the anchor
    if not ('let(base_pnl_usd,uncapped_base_pnl_usd,size_delta_in_tokens)=self.position.pnl_value(&self.params.prices,&self.size_delta_usd)?;' in compact
            and len(re.findall(r'\bsize_delta_in_tokens\b', body)) == 2 and re.search(r'[,{]size_delta_in_tokens[,}]', compact)):
        res.undecided.append('anchor lost: process_collateral no longer takes size_delta_in_tokens from pnl_value(&self.params.prices, &self.size_delta_usd) and passes it on unchanged (assumed contract of C07 not re-established)')
    bad = re.findall(r'open_interest|collateral_sum|size_in_usd_mut|size_in_tokens_mut|collateral_amount_mut|self\.size_delta_usd\s*=[^=]', body)
    if bad:
        res.undecided.append(f'anchor lost: process_collateral now mentions {sorted(set(bad))} (assumed frame of C07 not re-established)')
    d = os.path.join(repo, 'crates/model/src/action/decrease_position')
    for f in sorted(os.listdir(d)):
        if f.endswith('.rs') and f != 'mod.rs':
            t = open(os.path.join(d, f)).read()
            if re.search(r'open_interest_pool_mut|open_interest_in_tokens_pool_mut|collateral_sum_pool_mut|apply_delta_to_open_interest|update_open_interest', t):
                res.undecided.append(f'anchor lost: decrease_position/{f} now touches a tracked pool (assumed frame of C07 not re-established)')
    if tier == 'thorough':
        r = replay(dict(id='C07.native.history', engine='native-replay'), repo, seed)
        if r.get('failing_input'):
            res.obligations.append(dict(id='C07.native.history', engine='native-replay', status='failed', bounded=True, detail='native history of real actions broke a total: ' + r['failing_input']['violated']))
        res.bounded.append(dict(id='C07.native.history', bound='300 seeded pseudo-random histories of 400 attempted increases / decreases / clock moves of eight positions on TestMarket<u128,20>, five price scales', status='bounded-failed' if r.get('failing_input') else 'bounded-ok', checks=300, time_s=None))
