PROPERTY = 'C44'
LEVEL = 'proof'
VERUS = ['verus/C44.rs']
TRUSTED = [
    'carriers: a market account of the path is its address plus its meta if it passes `validated_meta(store)` (AccountLoader::try_from / load are projections); HashSet / BTreeSet are set carriers with the insert contract; the IndexMap of revertible markets is a spec map with a get_mut prophecy contract; a revertible market is its meta, a ghost LOG of the balance records made on it, and an opaque rest',
    'unit rewrites (logged): the two `for` loops are written as indexed while loops with the stated invariants; `==` / `require_*eq!` on 32-byte keys go through a structural keys_equal; `.map_err(ModelError::from)?` -> `?`; the update-borrowing block and the swap call chain of one hop are each ONE assumed call; event CPIs are arbitrary fallible calls; a ghost trace of the amounts handed from hop to hop is maintained by inserted ghost statements',
]
UNVERIFIED = [
    'PARTIAL: proved are path validation at creation (validate_path: distinct valid markets, every step flips between the two pool tokens of its market, no no-op steps, the walk ends in the declared output token, the stored path is the market tokens in order) and execution of a path (swap_along_the_path: exactly the declared markets in order, each hop converting the previous output token, and the amount recorded OUT of market j being the amount recorded INTO market j+1, same token)',
    'ASSUMED: the swap of one market (C04 / C05) and RevertibleMarket::record_transferred_in / _out (C22) - here a record is a log entry; that the recorded balance moves by exactly that amount is C22',
    'the duplicate check at execution IS under contract: SwapActionParams::validated_primary_swap_path / validated_secondary_swap_path hand the path out exactly when no market token occurs twice in it (rule R23, logged: `p.iter().all(move |t| seen.insert(t))` visits p front to back and stops at the first false - written as an indexed loop with early exit; HashSet<&Pubkey> as the key-set carrier); that revertible_swap takes its paths from these two functions is a text anchor; revertible_swap / revertible_swap_for_one_side (the transfers between the current market and the first / last market of a path, both directions) and validate_and_init (lengths, token set) are not under contract',
]
ASSUMPTIONS = ['the path handed to swap_along_the_path has unique market tokens (checked by validated_*_swap_path at its call sites)']
MANIFEST = dict(engine='verus',
    technique='Verus contracts on SwapActionParams::validated_{primary,secondary}_swap_path (duplicate check at execution), on validate_path and SwapMarkets::swap_along_the_path (whole bodies, loops with invariants over a spec map of markets with ghost record logs and a ghost trace of hop amounts), MarketMeta::{to_token_side, opposite_token}, extracted from /repo each run onto carriers',
    text='Deductive proof, unbounded over paths of any length, all market sets and all amounts: an accepted path consists of distinct valid market accounts, every step turns the current token into the OTHER pool token of its market (a market whose two pool tokens coincide is rejected), the walk from the input token ends in the declared output token, and the stored path is the market tokens in order. Executing a path uses exactly the declared markets in order, hop j converting the token hop j-1 produced; the amount that leaves market j is recorded out of it and the same amount of the same token is recorded into market j+1; nothing is recorded into the first market nor out of the last; an empty path is a no-op. At execution a stored path is handed out exactly when it holds no market token twice.',
    note='Partial: the per-market swap and the balance records are assumed (C04 / C05 / C22); the surrounding revertible_swap plumbing and the duplicate check at execution are listed as not covered.')


def extra(res, repo, tier, seed):
    import os, re
    s = open(os.path.join(repo, 'programs/store/src/states/market/revertible/swap_market.rs')).read()
    if len(re.findall(r'\.validated_primary_swap_path\(\)', s)) < 1 or len(re.findall(r'\.validated_secondary_swap_path\(\)', s)) < 1:
        res.undecided.append('anchor lost: swap_market.rs: revertible_swap no longer takes its paths from validated_primary_swap_path() / validated_secondary_swap_path() (the uniqueness precondition of swap_along_the_path is not re-established)')
    c = open(os.path.join(repo, 'programs/store/src/states/common/swap.rs')).read()
    if len(re.findall(r'validate_path\(\s*&mut tokens,', c)) != 2:
        res.undecided.append('anchor lost: common/swap.rs: validate_and_init no longer validates both the primary and the secondary path with validate_path')
