PROPERTY = 'C38'
LEVEL = 'proof'
VERUS = ['verus/C38.rs']
TRUSTED = [
    'prelude / monomorphisation / U256 contract as in C01; glue_u128 apply_factor_p (apply_factor is re-proved in this same run)',
    'rule R9 (logged): `for &x in a.iter().take(n) {` => `for _i9 in 0..min(n, a.len()) { let x = a[_i9];` (Iterator::take on an array iterator); vstd specs of u128::{saturating_add, saturating_mul, min}, usize::try_from(u128); assumed spec of Result::unwrap_or (listed)',
    'constants APY_BUCKETS = 53, APY_LAST_INDEX = 52, SECONDS_PER_WEEK = 604800: defining expressions compared with /repo on every run',
    'unit rewrites (logged): `apply_factor::<u128, MARKET_DECIMALS>` => apply_factor_p (MARKET_DECIMALS = 20 imported from the store constants, compared each run under C31/C32), `ErrorCode::X` => error value without payload; require! per R6; msg! dropped (R16)',
]
UNVERIFIED = [
    'THE UNSTAKE CLAUSES ARE NOT COVERED: partial unstake returns exactly the requested tokens and keeps a proportional rounded-down value, full exit sweeps the vault, only full exits while claims are disabled -- Anchor handlers with token CPIs (unstake_lp)',
    'compute_reward_with_cpi (CPI refreshing the cumulative inverse cost, choice of the end time): not under contract',
    'no native replay: private fn of an Anchor program crate; a failed obligation is reported with the verifier output and no-failing-input-found',
]
ASSUMPTIONS = ['compute_time_weighted_apy is called with now - stake_start_time representable in i64 (precondition of the contract; both are clock readings at its call sites; with overflow-checks on, a violation would be a panic, not a wrong value)']
MANIFEST = dict(engine='verus',
    technique='Verus contracts on the private free functions compute_time_weighted_apy and calculate_gt_reward_amount extracted by text from /repo each run (the .iter().take(n) loop through rewrite rule R9, loop invariant over a recursive per-week sum), plus schedule and monotonicity lemmas',
    text='PARTIAL (APY schedule and reward amount; not the unstake paths). Deductive proof, unbounded over all start times, current times, gradients, stakes and integrals: compute_time_weighted_apy returns the first bucket when no time has elapsed, and otherwise exactly floor(S / T) where T is the elapsed seconds and S the sum over each elapsed second of the weekly bucket of that second, weeks past the last bucket using the last one (S defined by recursion over seconds; stated whenever S fits in u128 -- beyond that the code saturates); lemma: with every bucket at most a cap the average is at most the cap. The GT reward equals floor(floor(stake * apy / 10^20) * integral / 10^20) saturated at u64::MAX, succeeds whenever both intermediate values fit in u128, and never decreases with a larger stake or a longer cost integral. The unstake clauses are not covered by any check (listed as unverified).',
    note='Partial claim: APY schedule + reward amount. The unstake handlers (token CPIs) and compute_reward_with_cpi are not covered.')
