PROPERTY = 'C38'
LEVEL = 'proof'
VERUS = ['verus/C38.rs']
TRUSTED = [
    'prelude / monomorphisation / U256 contract as in C01; glue_u128 apply_factor_p (apply_factor is re-proved in this same run)',
    'unit rewrites (logged): `apply_factor::<u128, MARKET_DECIMALS>` => apply_factor_p (MARKET_DECIMALS = 20 imported from the store constants, compared each run under C31/C32), `ErrorCode::X` => error value without payload; require! per R6; msg! dropped (R16)',
]
UNVERIFIED = [
    'THE APY SCHEDULE CLAUSE IS NOT COVERED: compute_time_weighted_apy (average over each elapsed second of the weekly bucket, last bucket reused) iterates with `.iter().take(n)` and saturating sums -- outside Verus\' subset without rewriting the loop; no check is built for it. A change to compute_time_weighted_apy is NOT detected by this check.',
    'THE UNSTAKE CLAUSES ARE NOT COVERED: partial unstake returns exactly the requested tokens and keeps a proportional rounded-down value, full exit sweeps the vault, only full exits while claims are disabled -- Anchor handlers with token CPIs (unstake_lp)',
    'compute_reward_with_cpi (CPI refreshing the cumulative inverse cost, choice of the end time): not under contract',
    'no native replay: private fn of an Anchor program crate; a failed obligation is reported with the verifier output and no-failing-input-found',
]
ASSUMPTIONS = []
MANIFEST = dict(engine='verus',
    technique='Verus contract on the private free function calculate_gt_reward_amount extracted by text from /repo each run, plus a monotonicity lemma over its spec function',
    text='PARTIAL (reward amount only). Deductive proof, unbounded over all stakes, per-second APY factors and cost integrals: the GT reward equals floor(floor(stake * apy / 10^20) * integral / 10^20) saturated at u64::MAX, the computation succeeds whenever both intermediate values fit in u128; lemma: the reward never decreases with a larger stake or a longer cost integral. The APY-schedule and unstake clauses are not covered by any check (listed as unverified).',
    note='Partial claim: only the reward-amount clause of C38. compute_time_weighted_apy and the unstake handlers are not covered.')
