PROPERTY = 'C10'
LEVEL = 'proof'
VERUS = ['verus/C10.rs']
TRUSTED = [
    'prelude / monomorphisation and checked-arithmetic contracts as in C01; the C11 template (pnl_value, size_delta_in_tokens, cap_pnl, pnl with their carriers and lemmas) is included and re-verified here',
    'carriers: IncreasePosition{position, params}; the position impact market reduced to the impact pool amount and the position parameters (fallible reads)',
    'unit rewrites (logged): `price_impact: Default::default()` -> an explicit zero impact; the ascription `P::Signed` -> S; debug_assert on the non-zero price proved from the stated precondition; `utils::apply_factor` -> the C01 unit',
    'proof hint: lemma_div_ceil_zero before the base size computation (a zero impact is zero tokens)',
]
UNVERIFIED = [
    'PARTIAL: proved are the two size conversions (tokens credited at open: longs at the max price rounded down, shorts at the min price rounded up, impact amount at the max price rounded down / min price rounded up), the two caps of the price impact (pool amount x min price and size x factor; negative cap and its diff), and the LEMMA that the pnl of an immediate full close at the same prices is at most the impact value credited at open (with C11: also what is credited after the pool cap)',
    'NOT proved: that the impact values of the open and of the close add up to at most zero (C03 material: same-side round trips, with its known one-unit finding), that fees are non-negative and collateral is paid out exactly (C02 / C08), and the composition of the two actions; the end-to-end statement is exercised natively (bounded) by the round-trip replay',
    'the price impact value itself is an uninterpreted deterministic read (open_impact_of)',
]
ASSUMPTIONS = ['index prices are validated: 0 < min <= max']
MANIFEST = dict(engine='verus',
    technique='Verus contracts on IncreasePosition::get_execution_params (whole body), get_execution_price_for_increase, PerpMarketExt::{cap_positive_position_price_impact, cap_negative_position_price_impact}, plus the C11 units; lemmas lemma_open_close_pnl_le_impact / lemma_immediate_full_close; native round-trip replay (open + full close at the same prices on TestMarket<u128,20>)',
    text='Deductive proof, unbounded over all sizes, prices (with spread) and impact values: the tokens credited at open are exactly floor(size / max price) + impact amount for longs and ceil(size / min price) - impact amount for shorts, with a positive impact converted at the max price rounded down and a negative one at the min price with the magnitude rounded up; hence the total pnl of the fresh position at the close price of the same prices is at most the impact value credited at open, and so is what a full close credits after the trader pnl cap. A positive impact is capped by the impact pool amount valued at the min index price and by size x the max positive factor; a negative one at -(size x the max negative factor), the cut-off part being returned as the price impact diff.',
    note='Partial: the impact round trip and the fee / collateral flows are other properties; bounded native round trips in the thorough tier.')


def _roundtrips(repo, seed, n_seeds=40):
    from engine import replay as R
    lines = []
    for i in range(n_seeds):
        for ip, tp in ((10 ** 13, 10 ** 14), (10 ** 21, 10 ** 14), (10 ** 20, 10 ** 20), (3 * 10 ** 15 + 7, 10 ** 14)):
            lines.append(f'roundtrip.run {seed * 1000 + i} 60 {ip} {tp}')
        # a configuration whose positive impact factor EXCEEDS the negative one (the code must cap it): round trips that flip the
        # open-interest imbalance would farm the impact pool otherwise
        lines.append(f'roundtrip.run {seed * 1000 + i} 60 {10 ** 13} {10 ** 14} 30000000000000 20000000000000')
        lines.append(f'roundtrip.run {seed * 1000 + i} 60 {10 ** 13} {10 ** 14} 200000000000000 10000000000000')
    outs = R.call_native(repo, lines)
    trials = 0
    for l, o in zip(lines, outs):
        if o.startswith('SETUP-ERR') or o in ('UNKNOWN-FN', 'PANIC'):
            raise RuntimeError(f'native round-trip harness broken: {l} -> {o[:100]}')
        for rec in [r for r in o.split(';') if r.strip()]:
            parts = [x.split() for x in rec.split('|')]
            is_long, col_long, col, size = parts[0][0] == 'true', parts[0][1] == 'true', int(parts[0][2]), int(parts[0][3])
            out, sec, out_long, sec_long = int(parts[1][0]), int(parts[1][1]), parts[1][2] == 'true', parts[1][3] == 'true'
            fu_out, fu_sec = int(parts[2][0]), int(parts[2][1])
            fl, fs = int(parts[3][0]), int(parts[3][1])
            p_index, p_long, p_short = (int(x) for x in parts[4])
            price = lambda is_l: p_long if is_l else p_short
            trials += 1
            value_in = col * price(col_long)
            value_out = (out + fu_out) * price(out_long) + (sec + fu_sec) * price(sec_long) + fl * p_long + fs * p_short
            slack = 2 * (price(out_long) + price(sec_long))      # one base unit of each token per operation
            if value_out > value_in + slack:
                return trials, dict(call=l, trial=rec.strip(), violated=f'open + immediate full close returned value {value_out} for collateral worth {value_in} (allowed rounding {slack})')
    return trials, None


def replay(ob, repo, seed):
    trials, bad = _roundtrips(repo, seed)
    if bad:
        return dict(failing_input=bad, note='native execution of the real IncreasePosition / DecreasePosition actions on TestMarket<u128,20> (arguments: seed, trials, index token price, short token price); regenerated deterministically from the seed')
    return dict(failing_input=None, note=f'{trials} native open-then-close round trips returned no more value than the collateral put in (seed {seed})')


def extra(res, repo, tier, seed):
    if tier != 'thorough':
        # quick tier: a small bounded native supplement (the end-to-end statement, which the contracts cover only in part)
        trials, bad = _roundtrips(repo, seed, 6)
        res.bounded.append(dict(id='C10.native.roundtrip', bound='36 seeded market states x up to 60 fresh positions each, four price scales and two configurations with positive impact factor > negative impact factor, TestMarket<u128,20>', status='bounded-failed' if bad else 'bounded-ok', checks=trials, time_s=None))
        if bad:
            res.obligations.append(dict(id='C10.native.roundtrip', engine='native-replay', status='failed', bounded=True, detail=bad['violated']))
        return
    if tier == 'thorough':
        trials, bad = _roundtrips(repo, seed, 120)
        res.bounded.append(dict(id='C10.native.roundtrip', bound='720 seeded market states x up to 60 fresh positions each (random side, collateral token, size, leverage), four price scales on the default configuration and two configurations with positive impact factor > negative impact factor, TestMarket<u128,20>', status='bounded-failed' if bad else 'bounded-ok', checks=trials, time_s=None))
        if bad:
            res.obligations.append(dict(id='C10.native.roundtrip', engine='native-replay', status='failed', bounded=True, detail=bad['violated']))
