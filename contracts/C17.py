PROPERTY = 'C17'
LEVEL = 'proof'
_ST = ['Sysvar>::get']
KANI = [
    dict(mode='ws:gmsol-store', harness='c17_init_config_defaults', timeout=900, stubs=_ST, fn='gmsol_store::states::market::Market::init + MarketConfig::init'),
    dict(mode='ws:gmsol-store', harness='c17_init_pools_pure', timeout=900, stubs=_ST, fn='Market::init + Pools::init (long == short)'),
    dict(mode='ws:gmsol-store', harness='c17_init_pools_impure', timeout=900, stubs=_ST, fn='Market::init + Pools::init (long != short)'),
]
ASSUMPTIONS = ['Clock sysvar stubbed symbolic', 'market starts from a zeroed account (Anchor `init`)',
               'the "documented default" of a key is the DEFAULT_* constant named after it (pairing rule and its exceptions in kani/inc/store/keys.rs, re-derived from /repo each run)']
UNVERIFIED = ['market name other than the concrete "m" (names are C35)']
MANIFEST = dict(engine='kani',
    technique='Kani/CBMC harness on the real Market::init (zeroed account, symbolic mints, stubbed clock); all 66 keys unrolled; key/constant table re-derived from /repo each run',
    text='Exhaustive proof over all 66 config keys, 4 config flags, 16 pools, both purities: right after Market::init every get_config_by_key(k) equals the DEFAULT_* constant named after the setting, flags equal their defaults, is_pure == (long == short), position-impact/borrowing-factor/total-borrowing pools always impure, all amounts zero.',
    note='Trusted: Kani/CBMC; Clock stub. Key/constant pairing rule stated in keys.rs and checked against /repo on each run (new key or constant => exit 2).')


def extra(res, repo, tier, seed):
    """Fail closed if the key set or the DEFAULT_* constant set drifted from the committed table."""
    import re, os
    src = open(os.path.join(repo, 'crates/utils/src/market.rs')).read()
    blk = src[src.index('pub enum MarketConfigKey {'):]
    blk = blk[:blk.index('\n}')]
    keys = re.findall(r'^\s{4}(\w+),', blk, re.M)
    table = open(os.path.join(os.path.dirname(os.path.dirname(os.path.abspath(__file__))), 'kani/inc/store/keys.rs')).read()
    rows = re.findall(r'^\s+(\w+) => (DEFAULT_\w+),', table, re.M)
    if [k for k, _ in rows] != keys:
        res.undecided.append('MarketConfigKey set changed: table in kani/inc/store/keys.rs no longer matches the enum (lost anchor)')
    consts = set(re.findall(r'pub const (DEFAULT_\w+): Factor', open(os.path.join(repo, 'programs/store/src/constants/market.rs')).read()))
    used = {c for _, c in rows}
    if consts - used:
        res.undecided.append(f'DEFAULT_* constants with no key in the table: {sorted(consts - used)} (lost anchor)')
    if used - consts:
        res.undecided.append(f'table names constants that no longer exist: {sorted(used - consts)} (lost anchor)')
