PROPERTY = 'C45'
LEVEL = 'proof'
VERUS = ['verus/C45.rs']
TRUSTED = [
    'prelude / monomorphisation / U256 contract as in C01 (instance u128, 20 decimals); market_token_amount_to_usd / usd_to_market_token_amount are called through their C01 contracts, re-proved in this same run',
    'carrier GlvMarket for `M: LiquidityMarket`: pool_value(prices, kind, maximize) as a fallible table lookup by (kind, maximize), total_supply() as a field read; Prices only forwarded',
    'carrier GlvValueForMarket (field list compared each run), enum PnlFactorKind transcribed',
    'unit rewrites (logged): error payload constants dropped, `utils::` path prefix dropped',
]
UNVERIFIED = [
    'THE STORE-SIDE CLAUSES ARE NOT COVERED: Glv::insert_market (every market has the GLV long/short tokens), validate_market_token_balance (max amount / max value after a deposit) in programs/store/src/states/glv.rs; no check is built for them',
    'the CHOICE of the maximize flags in the GLV deposit / withdrawal / shift operations (programs/store/src/ops/glv.rs: deposits valued at the maximised vault value, withdrawals at the minimised one) is not under contract; the round-trip lemma here is for one and the same pool value and supply',
    'LiquidityMarketExt::pool_value itself (C06 material)',
]
ASSUMPTIONS = []
MANIFEST = dict(engine='verus',
    technique='Verus contracts on gmsol_model::glv::{get_glv_value_for_market, get_market_token_amount_for_glv_value, GlvValueForMarket::new} extracted from /repo each run on a carrier for the market, plus a round-trip lemma over the C01 spec functions',
    text='PARTIAL (model-side GLV pricing helpers only). Deductive proof, unbounded over all balances, pool values (any sign), supplies and divisors: get_glv_value_for_market prices a balance with the deposit pool value under the requested maximize flag as floor(pool value * balance / supply), an empty balance is worth zero, a negative pool value never prices a non-empty balance; get_market_token_amount_for_glv_value uses the withdrawal pool value, rejects a negative one, and returns floor(supply * value / pool value) for a live market; lemma: tokens -> value -> tokens at one pool value and supply never returns more tokens than went in. The store-side composition limits and the maximize-flag choice are not covered by any check (listed).',
    note='Partial claim: model-side pricing helpers of C45 only. Glv::insert_market / validate_market_token_balance and the flag choice in ops/glv.rs are not covered.')
