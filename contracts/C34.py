PROPERTY = 'C34'
LEVEL = 'other'
EXPLANATION = 'BOUNDED IN CAPACITY AND KEY WIDTH, unbounded in histories: a real instance of the exported macro gmsol_utils::fixed_map! with capacity 4, 8-byte keys and u64 values (the same macro body as RoleMap, Members and the token maps, reduced through the macro\'s own parameters). Each Kani harness is ONE operation on an ARBITRARY well-formed map (symbolic bytes constrained only by the representation invariant), checked against a linear-scan abstract lookup including the frame (a symbolic probe key), so the harnesses are the inductive steps for operation sequences of any length at this capacity. The real capacities (32 roles, 64 members, 32-byte keys) are not run: 32-byte keys at capacity 4 exceeded 13 GB in the design probe.'
_B = 'capacity 4, 8-byte keys, u64 values (real instances: capacity up to 64, 32-byte keys); complete for this instance: every well-formed state, every key, value and flag; loops fully unwound with unwinding assertions on'
KANI = [
    dict(mode='ext', harness='c34_get_len', timeout=900, mem_gb=8, bounded=_B, fn='fixed_map!::{get, len, is_empty}'),
    dict(mode='ext', harness='c34_get_mut', timeout=900, mem_gb=8, bounded=_B, fn='fixed_map!::get_mut'),
    dict(mode='ext', harness='c34_insert', timeout=1200, mem_gb=8, bounded=_B, fn='fixed_map!::insert_with_options'),
    dict(mode='ext', harness='c34_remove', timeout=1200, mem_gb=8, bounded=_B, fn='fixed_map!::remove'),
    dict(mode='ext', harness='c34_default_is_empty', timeout=300, mem_gb=4, bounded=_B, fn='fixed_map!::default'),
]
ASSUMPTIONS = [
    'Kani 0.68 / CBMC 6.11 bit-precise semantics of the compiled macro instance (slice::binary_search_by, copy_within, mem::take/replace are the real std code, not stubs)',
    'the instance differs from the program instances only in the macro parameters (key_len 8 instead of 32, capacity 4 instead of 32/64, value u64); the key function is injective here (u64::to_be_bytes), whereas RoleMap hashes names -- the map itself only sees key bytes',
]
UNVERIFIED = [
    'the real capacities and 32-byte keys are not run (bounded stand-in); entries(), entries_mut(), get_entry_by_index(), clear() and insert() (a wrapper of insert_with_options(.., false) that expects success) are not under a harness',
    'the statement over operation SEQUENCES follows by induction from the per-operation harnesses (arbitrary well-formed pre-state => well-formed post-state + exact abstract effect); the induction itself is not mechanised',
]
MANIFEST = dict(engine='kani',
    technique='Kani/CBMC on a real instance of the exported fixed_map! macro (capacity 4, 8-byte keys): one harness per operation on an arbitrary well-formed state against a linear-scan abstract map, with a symbolic probe key for the frame',
    text='BOUNDED in capacity and key width, complete per operation at that size: for every well-formed map (count <= capacity, strictly increasing live keys), every key, value and flag: get/len/is_empty agree with the abstract lookup; get_mut returns a handle to exactly that key\'s value and a write through it changes only that key; insert_with_options inserts a fresh key when there is room (count + 1), overwrites an existing one only when `new` is false (returning the previous value), fails without any change for a duplicate with `new` or a fresh key into a full map, and every other key keeps its value; remove returns and removes exactly that key (count - 1) and every other key keeps its value; every operation preserves the invariant; the zeroed map is empty.',
    note='Bounded stand-in (capacity 4, 8-byte keys), never counted as proved. This is the contract C18 assumes for RoleMap / Members.')
