PROPERTY = 'C23'
LEVEL = 'proof'
VERUS = ['verus/C23.rs', 'verus/C23_execute.rs', 'verus/C23_close.rs']
TRUSTED = [
    'Verus 0.2026.09.13 + bundled Z3; vstd',
    'carrier Pubkey{hi, lo: u128} (faithful 32-byte value, structural equality); carrier ActionHeader{action_state, owner, id} (full field list of the repo struct compared on every run, R11); enum ActionState transcribed (variant list compared each run)',
    'glue ActionState::try_from(u8) / into(): the num_enum conversions of the #[repr(u8)] enum (discriminants 0, 1, 2)',
    'carrier CloseCtx for `Self` of the trait-default method Close::preprocess: authority().key, action().load()?.header(), only_role(expected_keeper_role()), skip_completion_check_for_keeper() modelled as (fallible) field reads',
    'anchor require*!/error!/err! macros per R5/R6 (err!(e) => Err(e), logged unit rewrite); error payload strings dropped',
]
UNVERIFIED = [
    'escrow always goes home (every escrowed token and the unused execution fee returned to the owner; a failed execution cancels and returns escrow without touching any market): token transfers / CPIs inside Anchor contexts (Close::process implementations, execute_* ops), outside any function contract within reach here',
    'only_role(expected_keeper_role()) itself (role membership: C18) and the per-action overrides of skip_completion_check_for_keeper (only CloseGlvShift overrides it; located by text on every run)',
    'the executors of deposits, withdrawals and shifts ARE under contract as whole handlers (verus/C23_execute.rs): tokens in, the operation, then EITHER completed (withdrawal: plus the payout of the returned amounts) OR cancelled + the escrowed tokens back, the execution fee last - as a ghost trace of steps; each step (token CPIs, the market operation) is ONE assumed call that appends to the trace or fails; the order and GLV executors (execute_order.rs, glv/*.rs: same pattern, more accounts) are located by text only',
    'native replay exists only for ActionState::{completed, cancelled} (public items of gmsol-utils: all three states, exhaustive); the ActionHeader methods and Close::preprocess are items of an Anchor program crate: a failed obligation there is reported with the verifier output and no-failing-input-found',
]
ASSUMPTIONS = []
MANIFEST = dict(engine='verus',
    technique='(executors: Verus contracts on unchecked_execute_deposit / _withdrawal / _shift as whole handlers with a ghost trace of steps; close: the trait-default handler Close::close as a whole unit over the contract of preprocess, with a ghost trace) Verus contracts on ActionState::{completed, cancelled, is_pending, is_completed_or_cancelled}, ActionHeader::{action_state, set_action_state, completed, cancelled} and the trait-default method Close::preprocess, extracted from /repo each run',
    text='Close handler: nothing is refunded, emitted or closed unless the accounts validated and the caller passed the close gate (owner, or keeper on a terminal action); `process` is told who is calling; the action account is closed - after the closed event, once - exactly when `process` completed. Executors (deposit, withdrawal, shift): a successful run takes the tokens in, runs the operation and then marks the action COMPLETED exactly when the operation went through (a withdrawal then pays out the returned amounts), or marks it CANCELLED and sends the escrowed tokens back exactly when it failed softly - never both, never neither - and settles the execution fee last; it can only start from a pending action. Deductive proof, unbounded over all header states (every u8 state code) and callers: completed()/cancelled() succeed exactly from Pending, move to Completed/Cancelled, and fail without any change from a terminal or corrupt state (a terminal state is never left; each action completes or cancels at most once); Close::preprocess returns true only for the owner, and lets a non-owner proceed only with the keeper role and -- unless the action type opts out -- only for completed or cancelled actions, so a pending action can be closed only by its owner. Escrow-return clauses are not covered (listed).',
    note='Trusted: Verus+Z3, carriers, num_enum glue. Escrow flows and execute_* wiring are listed as unverified.')


def replay(ob, repo, seed):
    from engine import replay as R
    if 'ActionState.completed' not in ob['id'] and 'ActionState.cancelled' not in ob['id']:
        return None
    lines, want = [], []
    for op, target in (('completed', 1), ('cancelled', 2)):
        for code in range(0, 4):
            lines.append(f'action.{op} {code}')
            want.append('NoSuchState' if code > 2 else (f'Ok({target})' if code == 0 else 'Err'))
    outs = R.call_native(repo, lines)
    for l, w, got in zip(lines, want, outs):
        if got != w:
            return dict(failing_input=dict(call=l, observed=got, expected=w),
                        note='native execution of the real gmsol_utils::action::ActionState (state codes 0 Pending, 1 Completed, 2 Cancelled): a transition must succeed exactly from Pending')
    return dict(failing_input=None, note=f'{len(lines)} native executions (every state x both transitions) agree with the statement')


FALLBACK_OBS = ['C23.ActionState.completed']


def extra(res, repo, tier, seed):
    import os, re, subprocess
    # the anchor on Close::close is gone: the whole trait-default method is a unit (verus/C23_close.rs)
    # which Close impls opt out of the terminal-state check
    hits = []
    root = os.path.join(repo, 'programs/store/src')
    for dp, _, fs in os.walk(root):
        for f in fs:
            if f.endswith('.rs'):
                p = os.path.join(dp, f)
                if 'fn skip_completion_check_for_keeper' in open(p).read():
                    hits.append(os.path.relpath(p, repo))
    expected = ['programs/store/src/instructions/glv/shift.rs', 'programs/store/src/utils/internal/action.rs']
    if sorted(hits) != expected:
        res.undecided.append(f'anchor drift: skip_completion_check_for_keeper is defined in {sorted(hits)}, this check was written for {expected}')
