#!/bin/sh
# Offline setup: nothing to fetch. Pre-builds nothing that a check cannot rebuild itself;
# creates the scratch build directory used by all checks.
set -e
cd "$(dirname "$0")"
mkdir -p .build/verus .build/logs evidence replay/out
verus --version >/dev/null
cargo kani --version >/dev/null
echo setup ok
