// Plain-Rust carriers + the text of three ValidateMarketBalances methods verbatim from /repo + an exhaustive driver over a
// small domain (bounded stand-in / replay / fallback, see engine/native.py).
#![allow(dead_code, unused_macros, unused_variables, unused_mut)]
#[derive(Clone, Copy, PartialEq, Eq, Debug)]
pub struct Pubkey(pub u8);
pub mod gmsol_model {
    #[derive(Debug)]
    pub enum Error { Computation(&'static str), InvalidTokenBalance(&'static str, String, String), NotACollateralToken }
    pub type Result<T> = core::result::Result<T, Error>;
}
#[derive(Debug)]
pub enum CoreError { TokenAmountOverflow, Model, NotACollateralToken }
impl From<gmsol_model::Error> for CoreError { fn from(_: gmsol_model::Error) -> Self { CoreError::Model } }
pub struct ModelError;
impl ModelError { pub fn from(e: gmsol_model::Error) -> CoreError { CoreError::from(e) } }
pub type Result<T> = core::result::Result<T, CoreError>;
macro_rules! error { ($e:expr) => { $e }; }
macro_rules! debug_msg { ($($t:tt)*) => {}; }
pub(crate) use debug_msg;

#[derive(Clone)]
pub struct MarketMeta { pub long_token_mint: Pubkey, pub short_token_mint: Pubkey }
impl MarketMeta {
    pub fn to_token_side(&self, token: &Pubkey) -> gmsol_model::Result<bool> {
        if *token == self.long_token_mint { Ok(true) } else if *token == self.short_token_mint { Ok(false) } else { Err(gmsol_model::Error::NotACollateralToken) }
    }
}
#[derive(Clone)]
pub struct RM { pub meta_long: Pubkey, pub meta_short: Pubkey, pub pure: bool, pub long_balance: u64, pub short_balance: u64, pub min_long: u128, pub min_short: u128, pub col_long: u128, pub col_short: u128, meta: Option<Box<MarketMeta>> }
impl RM {
    fn market_meta(&self) -> &MarketMeta { self.meta.as_ref().unwrap() }
    fn is_pure(&self) -> bool { self.pure }
    fn recorded(&self, is_long: bool) -> u64 { if is_long || self.pure { self.long_balance } else { self.short_balance } }
    fn balance_excluding(&self, token: &Pubkey, excluded: &u64) -> gmsol_model::Result<u64> {
        let side = self.market_meta().to_token_side(token)?;
        self.recorded(side).checked_sub(*excluded).ok_or(gmsol_model::Error::Computation("underflow"))
    }
    fn expected_min_token_balance_excluding_collateral_amount_for_one_token_side(&self, is_long: bool) -> gmsol_model::Result<u128> { Ok(if is_long { self.min_long } else { self.min_short }) }
    fn total_collateral_amount_for_one_token_side(&self, is_long: bool) -> gmsol_model::Result<u128> { Ok(if is_long { self.col_long } else { self.col_short }) }

//@unit C22.native.validate_market_balance_for_the_given_token
//@ file programs/store/src/states/market/utils.rs
//@ within pub trait ValidateMarketBalances
//@ fn validate_market_balance_for_the_given_token
//@ sub crate::debug_msg! => debug_msg!
//@verbatim

//@unit C22.native.validate_market_balances
//@ file programs/store/src/states/market/utils.rs
//@ within pub trait ValidateMarketBalances
//@ fn validate_market_balances
//@verbatim

//@unit C22.native.validate_market_balances_excluding_the_given_token_amounts
//@ file programs/store/src/states/market/utils.rs
//@ within pub trait ValidateMarketBalances
//@ fn validate_market_balances_excluding_the_given_token_amounts
//@verbatim
}

/// the statement: after setting both amounts aside (each on the side of its token; a single-token market keeps everything on
/// the long side) the recorded balance covers the reserved amounts and, separately, the collateral
fn covered(m: &RM, t1: Pubkey, a1: u64, t2: Pubkey, a2: u64) -> Option<bool> {
    let side = |t: Pubkey| if t == m.meta_long { Some(true) } else if t == m.meta_short { Some(false) } else { None };
    let mut el = 0u128; let mut es = 0u128;
    for (t, a) in [(t1, a1), (t2, a2)] {
        if a == 0 { continue; }
        match side(t) { Some(true) => el += a as u128, Some(false) => es += a as u128, None => return None }
    }
    let ok = if m.pure {
        let e = el + es;
        (m.long_balance as u128) >= e && (m.long_balance as u128 - e) >= m.min_long + m.min_short && (m.long_balance as u128 - e) >= m.col_long + m.col_short
    } else {
        (m.long_balance as u128) >= el && (m.long_balance as u128 - el) >= m.min_long && (m.long_balance as u128 - el) >= m.col_long
            && (m.short_balance as u128) >= es && (m.short_balance as u128 - es) >= m.min_short && (m.short_balance as u128 - es) >= m.col_short
    };
    Some(ok)
}

fn main() {
    let (l, s, x) = (Pubkey(1), Pubkey(2), Pubkey(9));
    let mut n = 0u64; let mut fails = 0;
    for pure in [false, true] {
        let short_mint = if pure { l } else { s };
        for lb in 0..6u64 { for sb in 0..4u64 { for ml in 0..3u128 { for ms in 0..3u128 { for cl in [0u128, 2] { for cs in [0u128, 1] {
            let m = RM { meta_long: l, meta_short: short_mint, pure, long_balance: lb, short_balance: sb, min_long: ml, min_short: ms, col_long: cl, col_short: cs,
                         meta: Some(Box::new(MarketMeta { long_token_mint: l, short_token_mint: short_mint })) };
            for t1 in [l, s, x] { for t2 in [l, s, x] { for a1 in 0..4u64 { for a2 in 0..4u64 {
                n += 1;
                let got = std::panic::catch_unwind(std::panic::AssertUnwindSafe(|| m.validate_market_balances_excluding_the_given_token_amounts(&t1, &t2, a1, a2).is_ok()));
                let want = covered(&m, t1, a1, t2, a2);
                let bad = match (&got, want) {
                    (Err(_), _) => Some("panic".to_string()),
                    (Ok(true), None) => Some("accepted a non-zero amount of a token that is not a pool token".into()),
                    (Ok(true), Some(false)) => Some("accepted although the recorded balance minus BOTH excluded amounts does not cover the reserved amounts / the collateral".into()),
                    _ => None,     // a rejection is never unsafe
                };
                if let Some(why) = bad {
                    if fails < 3 { println!("FAIL pure={pure} balances=({lb},{sb}) reserved=({ml},{ms}) collateral=({cl},{cs}) tokens=({},{}) amounts=({a1},{a2}): {why}", t1.0, t2.0); }
                    fails += 1;
                }
            }}}}
        }}}}}}
    }
    if fails == 0 { println!("OK {n}"); } else { println!("FAILS {fails} of {n}"); }
}
