// Plain-Rust carriers + the text of State::do_pay_for_cost verbatim from /repo + an exhaustive driver over a small domain
// (bounded stand-in / replay, see engine/native.py). T = u64; MulDiv via u128 (the model's own impl for u64 does the same).
#![allow(dead_code, unused_macros, unused_variables, unused_mut)]
/// the number type: a u64 with the by-reference checked operations of num_traits / the model's `Unsigned` and `MulDiv`
#[derive(Clone, Copy, PartialEq, Eq, PartialOrd, Ord, Debug)]
pub struct U(pub u64);
pub trait Zero { fn zero() -> Self; fn is_zero(&self) -> bool; }
impl Zero for U { fn zero() -> U { U(0) } fn is_zero(&self) -> bool { self.0 == 0 } }
impl U {
    pub fn checked_add(&self, o: &U) -> Option<U> { self.0.checked_add(o.0).map(U) }
    pub fn checked_sub(&self, o: &U) -> Option<U> { self.0.checked_sub(o.0).map(U) }
    pub fn checked_mul(&self, o: &U) -> Option<U> { self.0.checked_mul(o.0).map(U) }
    // crates/model/src/num.rs: Unsigned::checked_round_up_div = (self + d - 1) / d, MulDiv::checked_mul_div = floor(self * n / d) (both under contract in C01)
    pub fn checked_round_up_div(&self, d: &U) -> Option<U> { if d.0 == 0 { return None; } self.0.checked_add(d.0)?.checked_sub(1)?.checked_div(d.0).map(U) }
    pub fn checked_mul_div(&self, n: &U, d: &U) -> Option<U> { if d.0 == 0 { return None; } u64::try_from((self.0 as u128) * (n.0 as u128) / (d.0 as u128)).ok().map(U) }
}
pub mod krate {
    #[derive(Debug)]
    pub enum Error { Computation(&'static str) }
    pub type Result<T> = core::result::Result<T, Error>;
}
#[derive(Clone, Copy)]
pub struct Price<T> { pub min: T, pub max: T }
impl<T> Price<T> { pub fn pick_price(&self, maximize: bool) -> &T { if maximize { &self.max } else { &self.min } } }
#[derive(Clone, Copy)]
pub struct State<T> { pub out_price: Price<T>, pub pnl_price: Price<T>, pub output_amount: T, pub secondary_output_amount: T, pub remaining_collateral_amount: T }
impl<T> State<T> {
    fn pnl_token_price(&self) -> &Price<T> { &self.pnl_price }
    fn output_token_price(&self) -> &Price<T> { &self.out_price }
}
type T = U;
impl State<U> {
//@unit C08.native.do_pay_for_cost
//@ file crates/model/src/action/decrease_position/collateral_processor.rs
//@ within impl<T> State<T> where T: MulDiv + Num,
//@ fn do_pay_for_cost
//@ sub crate:: => krate::
//@verbatim
}

/// the exact semantics, written independently from the statement (same as `pay_spec` of verus/C08.rs)
fn pay_spec(o: u64, c: u64, s: u64, cost: u64, pout: u64, ppnl: u64) -> (u64, u64, u64, u64, u64, u64) {
    if cost == 0 { return (o, c, s, 0, 0, 0); }
    let rem = (cost + pout - 1) / pout;
    let t1 = o.min(rem); let rem1 = rem - t1;
    let t2 = c.min(rem1); let rem2 = rem1 - t2;
    if rem2 == 0 { return (o - t1, c - t2, s, t1 + t2, 0, 0); }
    let remsec = ((rem2 as u128) * (pout as u128) / (ppnl as u128)) as u64;
    let t3 = s.min(remsec);
    (o - t1, c - t2, s - t3, t1 + t2, t3, (remsec - t3) * ppnl)
}

fn main() {
    // `finding`: additionally evaluate the clause of the known finding (a cost reported as paid in full in collateral tokens was paid in full)
    let finding = std::env::args().nth(1).as_deref() == Some("finding");
    let mut n = 0u64; let mut fails = 0u64;
    for pout in [1u64, 2, 3, 7] { for ppnl in [1u64, 2, 5, 10, 100] {
        for o in 0..5u64 { for c in 0..5u64 { for s in 0..4u64 { for cost0 in 0..40u64 {
            let mut st = State { out_price: Price { min: U(pout), max: U(pout) }, pnl_price: Price { min: U(ppnl), max: U(ppnl) }, output_amount: U(o), secondary_output_amount: U(s), remaining_collateral_amount: U(c) };
            let mut cost = U(cost0);
            n += 1;
            let Ok((U(pc), U(ps))) = st.do_pay_for_cost(&mut cost) else { continue };
            let cost = cost.0;
            let (o1, c1, s1) = (st.output_amount.0, st.remaining_collateral_amount.0, st.secondary_output_amount.0);
            let mut why = None;
            if o1 + c1 + pc != o + c || s1 + ps != s { why = Some("amounts not conserved"); }
            else if (c1 < c && o1 != 0) || (s1 < s && (o1 != 0 || c1 != 0)) { why = Some("payment order violated (output, then collateral, then secondary)"); }
            else if (o1, c1, s1, pc, ps, cost) != pay_spec(o, c, s, cost0, pout, ppnl) { why = Some("differs from the exact semantics (cost in collateral tokens rounded up; remainder in secondary tokens rounded down)"); }
            else if finding && cost0 != 0 && cost == 0 && ps == 0 && pc != (cost0 + pout - 1) / pout { why = Some("KNOWN FINDING: cost reported as fully paid in collateral tokens, but fewer tokens than the cost were taken"); }
            if let Some(w) = why {
                if fails < 3 { println!("FAIL cost={cost0} output_price={pout} pnl_price={ppnl} output={o} collateral={c} secondary={s} -> paid_in_collateral={pc} paid_in_secondary={ps} remaining_cost={cost} left=({o1},{c1},{s1}): {w}"); }
                fails += 1;
            }
        }}}}
    }}
    if fails == 0 { println!("OK {n}"); } else { println!("FAILS {fails} of {n}"); }
}
