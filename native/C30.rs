// Plain-Rust carriers + the text of GtState::{mint_to, unchecked_burn_from, unchecked_update_rank, ranks} verbatim from /repo +
// an exhaustive driver over a small domain (bounded stand-in / fallback, see engine/native.py). The two helpers that mint_to
// calls first (next_minting_cost, update_cumulative_inv_cost_factor: under contract in verus/C30.rs) are stubbed to "no change".
#![allow(dead_code, unused_macros, unused_variables, unused_mut)]
#[derive(Debug)]
pub enum CoreError { TokenAmountOverflow, NotEnoughTokenAmount, Internal, InvalidGTConfig, ValueOverflow }
pub type Result<T> = core::result::Result<T, CoreError>;
macro_rules! error { ($e:expr) => { $e }; }
macro_rules! msg { ($($t:tt)*) => {}; }
macro_rules! require_gte { ($a:expr, $b:expr, $e:expr) => { if !($a >= $b) { return Err($e); } }; }
pub struct Clock { pub unix_timestamp: i64 }
impl Clock { pub fn get() -> Result<Clock> { Ok(Clock { unix_timestamp: 1 }) } }
#[derive(Clone, Copy, Default)]
pub struct UserGt { pub rank: u8, pub amount: u64, pub total_minted: u64, pub last_minted_at: i64 }
#[derive(Clone, Copy, Default)]
pub struct UserHeader { pub gt: UserGt }
#[derive(Clone)]
pub struct GtState { pub max_rank: u64, pub ranks: [u64; 15], pub total_minted: u64, pub supply: u64, pub last_minted_at: i64, pub minting_cost: u128, pub grow_steps: u64 }
impl GtState {
    fn next_minting_cost(&self, _next_minted: u64) -> Result<Option<(u64, u128)>> { Ok(None) }
    fn update_cumulative_inv_cost_factor(&mut self) -> Result<()> { Ok(()) }
//@unit C30.native.ranks
//@ file programs/store/src/states/gt.rs
//@ within impl GtState
//@ fn ranks
//@verbatim
//@unit C30.native.unchecked_update_rank
//@ file programs/store/src/states/gt.rs
//@ within impl GtState
//@ fn unchecked_update_rank
//@verbatim
//@unit C30.native.mint_to
//@ file programs/store/src/states/gt.rs
//@ within impl GtState
//@ fn mint_to
//@verbatim
//@unit C30.native.unchecked_burn_from
//@ file programs/store/src/states/gt.rs
//@ within impl GtState
//@ fn unchecked_burn_from
//@verbatim
}

/// the statement: the rank is the number of thresholds the balance has reached
fn rank_of(th: &[u64], balance: u64) -> u8 { th.iter().filter(|t| **t <= balance).count() as u8 }

fn main() {
    let tables: [&[u64]; 5] = [&[], &[1], &[2, 5], &[1, 3, 6], &[3, 4, 5, 9]];
    let mut n = 0u64; let mut fails = 0u64;
    for th in tables {
        let mut ranks = [0u64; 15];
        for (i, t) in th.iter().enumerate() { ranks[i] = *t; }
        for b0 in 0..12u64 { for a1 in 0..8u64 { for a2 in 0..8u64 { for burn in 0..6u64 {
            let mut st = GtState { max_rank: th.len() as u64, ranks, total_minted: b0, supply: b0, last_minted_at: 0, minting_cost: 1, grow_steps: 0 };
            let mut u = UserHeader::default();
            u.gt.amount = b0; u.gt.total_minted = b0; u.gt.rank = rank_of(th, b0);
            let mut steps: Vec<String> = vec![];
            for (k, amt) in [(0, a1), (1, burn), (0, a2)] {
                n += 1;
                let r = if k == 0 { st.mint_to(&mut u, amt).is_ok() } else { st.unchecked_burn_from(&mut u, amt).is_ok() };
                steps.push(format!("{}({amt})->{}", if k == 0 { "mint" } else { "burn" }, if r { "ok" } else { "err" }));
                let want = rank_of(th, u.gt.amount);
                let mut why = None;
                if u.gt.rank != want { why = Some(format!("rank {} but the balance {} has reached {} thresholds", u.gt.rank, u.gt.amount, want)); }
                else if st.supply != u.gt.amount { why = Some(format!("supply {} != the only user's balance {}", st.supply, u.gt.amount)); }
                if let Some(w) = why {
                    if fails < 3 { println!("FAIL thresholds={th:?} start balance={b0} steps={} : {w}", steps.join(" ")); }
                    fails += 1; break;
                }
            }
        }}}}
    }
    if fails == 0 { println!("OK {n}"); } else { println!("FAILS {fails} of {n}"); }
}
