// Plain-Rust carriers + the text of OnExecuted::update_leaderboard verbatim from /repo + an exhaustive driver over a
// small domain (bounded stand-in / replay, see engine/native.py). Addresses only matter up to equality: 7 keys are
// enough to give a board of 5, the trader and one bystander distinct addresses; volumes range over 0..=3.
#![allow(dead_code)]
#[derive(Clone, Copy, PartialEq, Eq, Debug, Default)]
pub struct Pubkey(pub u8);
#[derive(Clone, Copy, PartialEq, Eq, Debug, Default)]
pub struct LeaderEntry { pub address: Pubkey, pub volume: u128 }
pub struct Competition { pub leaderboard: Vec<LeaderEntry> }
pub struct Participant { pub trader: Pubkey, pub volume: u128 }
pub const MAX_LEADERBOARD_LEN: u8 = 5;
pub struct OnExecuted;
impl OnExecuted {
//@unit C39.update_leaderboard
//@ file programs/competition/src/instructions/trade_callback.rs
//@ within impl OnExecuted<'_>
//@ fn update_leaderboard
//@verbatim
}

fn wf(b: &[LeaderEntry]) -> bool {
    b.len() <= 5 && b.windows(2).all(|w| w[0].volume >= w[1].volume)
        && (0..b.len()).all(|i| (i + 1..b.len()).all(|j| b[i].address != b[j].address))
}
fn find(b: &[LeaderEntry], k: Pubkey) -> Option<usize> { b.iter().position(|e| e.address == k) }

/// the postcondition of one counted trade, from the statement (same clauses as step_post in verus/C39.rs)
fn step_post(b0: &[LeaderEntry], b3: &[LeaderEntry], trader: Pubkey, vol: u128) -> Result<(), String> {
    if !wf(b3) { return Err("board not well formed (more than five entries, not non-increasing, or a trader shown twice)".into()); }
    match find(b3, trader) {
        Some(k) => if b3[k].volume != vol { return Err("trader not shown with the latest volume".into()); },
        None => if !(b3.len() == 5 && vol <= b3[4].volume) { return Err("trader left off although the board is not full or its last entry has less volume".into()); },
    }
    for e in b0 {
        if e.address != trader {
            match find(b3, e.address) {
                Some(k) => if b3[k].volume != e.volume { return Err(format!("volume of bystander {:?} changed", e.address)); },
                None => if !(b3.len() == 5 && e.volume <= b3[4].volume) { return Err(format!("bystander {:?} (volume {}) left off although the board is not full or its last entry has less volume", e.address, e.volume)); },
            }
        }
    }
    for e in b3 { if e.address != trader && find(b0, e.address).is_none() { return Err("an address that never traded appears".into()); } }
    if b3.len() < b0.len() { return Err("the board lost a place".into()); }
    if b0.len() == 5 && b3[4].volume < b0[4].volume { return Err("the volume needed to stay on a full board dropped".into()); }
    Ok(())
}

fn boards(n: usize, keys: u8, maxv: u128, cur: &mut Vec<LeaderEntry>, out: &mut Vec<Vec<LeaderEntry>>) {
    if cur.len() == n { out.push(cur.clone()); return; }
    let hi = cur.last().map(|e| e.volume).unwrap_or(maxv);
    for k in 0..keys {
        if cur.iter().any(|e| e.address == Pubkey(k)) { continue; }
        for v in 0..=hi {
            cur.push(LeaderEntry { address: Pubkey(k), volume: v });
            boards(n, keys, maxv, cur, out);
            cur.pop();
        }
    }
}

fn main() {
    let keys = 7u8; let maxv = 3u128;
    let mut n_exec = 0u64; let mut fails = 0;
    for n in 0..=5usize {
        let mut all = Vec::new();
        boards(n, keys, maxv, &mut Vec::new(), &mut all);
        for b0 in &all {
            for t in 0..keys {
                let lo = find(b0, Pubkey(t)).map(|k| b0[k].volume).unwrap_or(0);   // cumulative volume only grows
                for vol in lo..=maxv + 1 {
                    let mut comp = Competition { leaderboard: b0.clone() };
                    let part = Participant { trader: Pubkey(t), volume: vol };
                    let r = std::panic::catch_unwind(std::panic::AssertUnwindSafe(|| { OnExecuted::update_leaderboard(&mut comp, &part); comp.leaderboard.clone() }));
                    n_exec += 1;
                    let verdict = match &r { Ok(b3) => step_post(b0, b3, Pubkey(t), vol), Err(_) => Err("panic".into()) };
                    if let Err(why) = verdict {
                        if fails < 3 {
                            println!("FAIL board {:?} trader {:?} new volume {} -> {:?}: {}",
                                b0.iter().map(|e| (e.address.0, e.volume)).collect::<Vec<_>>(), t, vol,
                                r.as_ref().ok().map(|b| b.iter().map(|e| (e.address.0, e.volume)).collect::<Vec<_>>()), why);
                        }
                        fails += 1;
                    }
                }
            }
        }
    }
    if fails == 0 { println!("OK {n_exec}"); } else { println!("FAILS {fails} of {n_exec}"); }
}
