//@include inc/model_base_u128.rs
// =================================================================================================
// C14  Position impact distribution respects the pool floor
//      gmsol_model::market::position_impact::PositionImpactMarketExt::
//          pending_position_impact_pool_distribution_amount   (trait-default method; instance u128/20)
// =================================================================================================
verus! {

//@struct crates/model/src/params/position.rs :: pub struct PositionImpactDistributionParams<T> :: distribute_factor, min_position_impact_pool_amount
#[derive(Clone, Copy, Debug)]
pub struct PositionImpactDistributionParams { pub distribute_factor: N, pub min_position_impact_pool_amount: N }

impl PositionImpactDistributionParams {
//@unit C14.PositionImpactDistributionParams.distribute_factor
//@ file crates/model/src/params/position.rs
//@ within impl<T> PositionImpactDistributionParams<T>
//@ fn distribute_factor
//@ sig fn distribute_factor(&self) -> &T
    pub fn distribute_factor(&self) -> (r: &N)
        ensures *r == self.distribute_factor
//@body

//@unit C14.PositionImpactDistributionParams.min_position_impact_pool_amount
//@ file crates/model/src/params/position.rs
//@ within impl<T> PositionImpactDistributionParams<T>
//@ fn min_position_impact_pool_amount
//@ sig fn min_position_impact_pool_amount(&self) -> &T
    pub fn min_position_impact_pool_amount(&self) -> (r: &N)
        ensures *r == self.min_position_impact_pool_amount
//@body
}

impl N {
    /// glue: `<u128 as num_traits::FromPrimitive>::from_u64` (num-traits 0.2: always `Some(n as u128)`)
    pub fn from_u64(n: u64) -> (r: Option<N>) ensures r == Some(N(n as u128)) { Some(N(n as u128)) }
}

/// Carrier for `Self` of the trait-default method: the two things the method reads from the market.
/// `position_impact_pool_amount()` (= long amount of the position impact pool) and
/// `position_impact_distribution_params()` are modelled as field reads (trusted glue); either may fail.
pub struct ImpactMarket { pub pool_amount: Option<N>, pub params: Option<PositionImpactDistributionParams> }

/// rate * elapsed seconds, floor
pub open spec fn accrued(secs: int, rate: int) -> int { mul_div_floor(secs, rate, uunit()) }
/// the statement: distributed = min(rate x seconds, excess over the minimum); nothing when the
/// rate is zero or the pool is at/below its minimum
pub open spec fn distributed_spec(current: int, min_amount: int, rate: int, secs: int) -> int {
    if rate == 0 || current <= min_amount { 0 }
    else if accrued(secs, rate) > current - min_amount { current - min_amount }
    else { accrued(secs, rate) }
}

impl ImpactMarket {
    pub fn position_impact_pool_amount(&self) -> (r: Result<N, E>)
        ensures r.is_ok() == self.pool_amount.is_some(), r.is_ok() ==> r.unwrap() == self.pool_amount.unwrap()
    { match self.pool_amount { Some(x) => Ok(x), None => Err(E::Other) } }
    pub fn position_impact_distribution_params(&self) -> (r: Result<PositionImpactDistributionParams, E>)
        ensures r.is_ok() == self.params.is_some(), r.is_ok() ==> r.unwrap() == self.params.unwrap()
    { match self.params { Some(x) => Ok(x), None => Err(E::Other) } }

//@unit C14.pending_position_impact_pool_distribution_amount
//@ file crates/model/src/market/position_impact.rs
//@ within pub trait PositionImpactMarketExt<const DECIMALS: u8>: PositionImpactMarket<DECIMALS>
//@ fn pending_position_impact_pool_distribution_amount
//@ sig fn pending_position_impact_pool_distribution_amount( &self, duration_in_secs: u64, ) -> crate::Result<(Self::Num, Self::Num)>
//@ sub use crate::utils; => 
//@ sub Self::Num::from_u64 => N::from_u64
//@ sub utils::apply_factor\( => apply_factor(
//@ top :: proof { lemma_mul_nonnegative(duration_in_secs as int, self.params.unwrap().distribute_factor@); lemma_div_pos_bound(duration_in_secs as int * self.params.unwrap().distribute_factor@, uunit()); }
    pub fn pending_position_impact_pool_distribution_amount(&self, duration_in_secs: u64) -> (r: Result<(N, N), E>)
        ensures
            r.is_ok() ==> self.pool_amount.is_some() && self.params.is_some(),
            // distributed amount = rate x elapsed seconds, capped at the excess over the minimum
            r.is_ok() ==> r.unwrap().0@ == distributed_spec(self.pool_amount.unwrap()@, self.params.unwrap().min_position_impact_pool_amount@,
                                                         self.params.unwrap().distribute_factor@, duration_in_secs as int),
            // the next pool amount is the current one minus what is distributed: never increases ...
            r.is_ok() ==> r.unwrap().1@ == self.pool_amount.unwrap()@ - r.unwrap().0@ && r.unwrap().1@ <= self.pool_amount.unwrap()@,
            // ... and never goes below the configured minimum if it started above it
            r.is_ok() && self.pool_amount.unwrap()@ > self.params.unwrap().min_position_impact_pool_amount@
                ==> r.unwrap().1@ >= self.params.unwrap().min_position_impact_pool_amount@,
            // a readable market with a representable rate x seconds always gets its distribution computed
            // (an overflowing rate x seconds may or may not fail when nothing can be distributed anyway: not pinned)
            (self.pool_amount.is_some() && self.params.is_some()
                && accrued(duration_in_secs as int, self.params.unwrap().distribute_factor@) <= umax()) ==> r.is_ok(),
//@body
}
} // verus!
