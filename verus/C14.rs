//@include inc/model_base_u128.rs
// =================================================================================================
// C14  Position impact distribution respects the pool floor
//      gmsol_model::market::position_impact::PositionImpactMarketExt::
//          pending_position_impact_pool_distribution_amount   (trait-default method; instance u128/20)
// =================================================================================================
verus! {

//@struct crates/model/src/params/position.rs :: pub struct PositionImpactDistributionParams<T> :: distribute_factor, min_position_impact_pool_amount
#[derive(Clone, Copy, Debug)]
pub struct PositionImpactDistributionParams { pub distribute_factor: N, pub min_position_impact_pool_amount: N }

impl PositionImpactDistributionParams {
//@unit C14.PositionImpactDistributionParams.distribute_factor
//@ file crates/model/src/params/position.rs
//@ within impl<T> PositionImpactDistributionParams<T>
//@ fn distribute_factor
//@ sig fn distribute_factor(&self) -> &T
    pub fn distribute_factor(&self) -> (r: &N)
        ensures *r == self.distribute_factor
//@body

//@unit C14.PositionImpactDistributionParams.min_position_impact_pool_amount
//@ file crates/model/src/params/position.rs
//@ within impl<T> PositionImpactDistributionParams<T>
//@ fn min_position_impact_pool_amount
//@ sig fn min_position_impact_pool_amount(&self) -> &T
    pub fn min_position_impact_pool_amount(&self) -> (r: &N)
        ensures *r == self.min_position_impact_pool_amount
//@body
}

impl N {
    /// glue: `<u128 as num_traits::FromPrimitive>::from_u64` (num-traits 0.2: always `Some(n as u128)`)
    pub fn from_u64(n: u64) -> (r: Option<N>) ensures r == Some(N(n as u128)) { Some(N(n as u128)) }
}

/// Carrier for `Self` of the trait-default method: the two things the method reads from the market.
/// `position_impact_pool_amount()` (= long amount of the position impact pool) and
/// `position_impact_distribution_params()` are modelled as field reads (trusted glue); either may fail.
pub struct ImpactMarket { pub pool_amount: Option<N>, pub params: Option<PositionImpactDistributionParams> }

/// rate * elapsed seconds, floor
pub open spec fn accrued(secs: int, rate: int) -> int { mul_div_floor(secs, rate, uunit()) }
/// the statement: distributed = min(rate x seconds, excess over the minimum); nothing when the
/// rate is zero or the pool is at/below its minimum
pub open spec fn distributed_spec(current: int, min_amount: int, rate: int, secs: int) -> int {
    if rate == 0 || current <= min_amount { 0 }
    else if accrued(secs, rate) > current - min_amount { current - min_amount }
    else { accrued(secs, rate) }
}

impl ImpactMarket {
    pub fn position_impact_pool_amount(&self) -> (r: Result<N, E>)
        ensures r.is_ok() == self.pool_amount.is_some(), r.is_ok() ==> r.unwrap() == self.pool_amount.unwrap()
    { match self.pool_amount { Some(x) => Ok(x), None => Err(E::Other) } }
    pub fn position_impact_distribution_params(&self) -> (r: Result<PositionImpactDistributionParams, E>)
        ensures r.is_ok() == self.params.is_some(), r.is_ok() ==> r.unwrap() == self.params.unwrap()
    { match self.params { Some(x) => Ok(x), None => Err(E::Other) } }

//@unit C14.pending_position_impact_pool_distribution_amount
//@ file crates/model/src/market/position_impact.rs
//@ within pub trait PositionImpactMarketExt<const DECIMALS: u8>: PositionImpactMarket<DECIMALS>
//@ fn pending_position_impact_pool_distribution_amount
//@ sig fn pending_position_impact_pool_distribution_amount( &self, duration_in_secs: u64, ) -> crate::Result<(Self::Num, Self::Num)>
//@ sub use crate::utils; => 
//@ sub Self::Num::from_u64 => N::from_u64
//@ sub utils::apply_factor\( => apply_factor(
//@ top :: proof { lemma_mul_nonnegative(duration_in_secs as int, self.params.unwrap().distribute_factor@); lemma_div_pos_bound(duration_in_secs as int * self.params.unwrap().distribute_factor@, uunit()); }
    pub fn pending_position_impact_pool_distribution_amount(&self, duration_in_secs: u64) -> (r: Result<(N, N), E>)
        ensures
            r.is_ok() ==> self.pool_amount.is_some() && self.params.is_some(),
            // distributed amount = rate x elapsed seconds, capped at the excess over the minimum
            r.is_ok() ==> r.unwrap().0@ == distributed_spec(self.pool_amount.unwrap()@, self.params.unwrap().min_position_impact_pool_amount@,
                                                         self.params.unwrap().distribute_factor@, duration_in_secs as int),
            // the next pool amount is the current one minus what is distributed: never increases ...
            r.is_ok() ==> r.unwrap().1@ == self.pool_amount.unwrap()@ - r.unwrap().0@ && r.unwrap().1@ <= self.pool_amount.unwrap()@,
            // ... and never goes below the configured minimum if it started above it
            r.is_ok() && self.pool_amount.unwrap()@ > self.params.unwrap().min_position_impact_pool_amount@
                ==> r.unwrap().1@ >= self.params.unwrap().min_position_impact_pool_amount@,
            // a readable market with a representable rate x seconds always gets its distribution computed
            // (an overflowing rate x seconds may or may not fail when nothing can be distributed anyway: not pinned)
            (self.pool_amount.is_some() && self.params.is_some()
                && accrued(duration_in_secs as int, self.params.unwrap().distribute_factor@) <= umax()) ==> r.is_ok(),
//@body
}

// ---------------------------------------------------------------------------------------------
// the action: DistributePositionImpact::execute and PositionImpactMarketMutExt::apply_delta_to_position_impact_pool
// ---------------------------------------------------------------------------------------------
/// the position impact pool (`Self::Pool`): two amounts; only the long slot is used by the impact pool
#[derive(Clone, Copy)]
pub struct PIPool { pub long: N, pub short: N }
impl PIPool {
    /// ASSUMED trait contract of `Pool::apply_delta_to_long_amount` (required method; store-side pool: C15)
    #[verifier::external_body]
    pub fn apply_delta_to_long_amount(&mut self, delta: &S) -> (r: Result<(), E>)
        ensures r.is_ok() ==> final(self).long@ == old(self).long@ + delta@ && final(self).short == old(self).short,
                r.is_err() ==> *final(self) == *old(self)
    { unimplemented!() }
}
/// Carrier for `M: PositionImpactMarketMut`: the pool, the distribution parameters and the distribution clock (a ghost log of
/// the durations it handed out: `just_passed_in_seconds_*` returns the seconds since the last call and restarts the clock)
pub struct AMarket { pub pool: Option<PIPool>, pub params: Option<PositionImpactDistributionParams>, pub ticks: Ghost<Seq<u64>> }
pub open spec fn im_of(m: AMarket) -> ImpactMarket {
    ImpactMarket { pool_amount: if m.pool.is_some() { Some(m.pool.unwrap().long) } else { None }, params: m.params }
}
impl AMarket {
    pub fn position_impact_pool_mut(&mut self) -> (r: Result<&mut PIPool, E>)
        ensures r.is_ok() == old(self).pool.is_some(),
            r.is_ok() ==> *r.unwrap() == old(self).pool.unwrap() && *final(self) == (AMarket { pool: Some(*final(r.unwrap())), ..*old(self) }),
            r.is_err() ==> *final(self) == *old(self),
    { match &mut self.pool { Some(x) => Ok(x), None => Err(E::Other) } }
    /// ASSUMED (clock: C12 / C14 store side): hands out the elapsed seconds and restarts the clock
    #[verifier::external_body]
    pub fn just_passed_in_seconds_for_position_impact_distribution(&mut self) -> (r: Result<u64, E>)
        ensures r.is_ok() ==> *final(self) == (AMarket { ticks: Ghost(old(self).ticks@.push(r.unwrap())), ..*old(self) }),
                r.is_err() ==> *final(self) == *old(self)
    { unimplemented!() }
    /// the unit above, on the read-only view of this carrier
    pub fn pending_position_impact_pool_distribution_amount(&self, duration_in_secs: u64) -> (r: Result<(N, N), E>)
        ensures
            r.is_ok() ==> self.pool.is_some() && self.params.is_some(),
            r.is_ok() ==> r.unwrap().0@ == distributed_spec(self.pool.unwrap().long@, self.params.unwrap().min_position_impact_pool_amount@,
                                                         self.params.unwrap().distribute_factor@, duration_in_secs as int),
            r.is_ok() ==> r.unwrap().1@ == self.pool.unwrap().long@ - r.unwrap().0@,
    {
        let im = ImpactMarket { pool_amount: match self.pool { Some(p) => Some(p.long), None => None }, params: self.params };
        im.pending_position_impact_pool_distribution_amount(duration_in_secs)
    }

//@unit C14.PositionImpactMarketMutExt.apply_delta_to_position_impact_pool
//@ file crates/model/src/market/position_impact.rs
//@ within pub trait PositionImpactMarketMutExt<const DECIMALS: u8>:
//@ fn apply_delta_to_position_impact_pool
//@ sig fn apply_delta_to_position_impact_pool(&mut self, delta: &Self::Signed) -> crate::Result<()>
    pub fn apply_delta_to_position_impact_pool(&mut self, delta: &S) -> (r: Result<(), E>)
        ensures
            r.is_ok() ==> old(self).pool.is_some() && *final(self) == (AMarket { pool: Some(PIPool { long: final(self).pool.unwrap().long, ..old(self).pool.unwrap() }), ..*old(self) })
                && final(self).pool.unwrap().long@ == old(self).pool.unwrap().long@ + delta@,
            r.is_err() ==> *final(self) == *old(self),
//@body
}

//@struct crates/model/src/action/distribute_position_impact.rs :: pub struct DistributePositionImpactReport<T> :: duration_in_seconds, distribution_amount, next_position_impact_pool_amount
pub struct DistributePositionImpactReport { pub duration_in_seconds: u64, pub distribution_amount: N, pub next_position_impact_pool_amount: N }
pub struct DistributePositionImpact { pub market: AMarket }
impl DistributePositionImpact {
//@unit C14.DistributePositionImpact.execute
//@ file crates/model/src/action/distribute_position_impact.rs
//@ within impl<M: PositionImpactMarketMut<DECIMALS>, const DECIMALS: u8> MarketAction
//@ fn execute
//@ sig fn execute(mut self) -> crate::Result<Self::Report>
    fn execute(&mut self) -> (r: Result<DistributePositionImpactReport, E>)
        ensures
            // the clock is read and restarted exactly once; the distribution is computed for exactly the seconds it handed out
            r.is_ok() ==> final(self).market.ticks@ == old(self).market.ticks@.push(r.unwrap().duration_in_seconds),
            r.is_ok() ==> old(self).market.pool.is_some() && old(self).market.params.is_some() && final(self).market.params == old(self).market.params,
            r.is_ok() ==> r.unwrap().distribution_amount@ == distributed_spec(old(self).market.pool.unwrap().long@, old(self).market.params.unwrap().min_position_impact_pool_amount@,
                                                                        old(self).market.params.unwrap().distribute_factor@, r.unwrap().duration_in_seconds as int),
            // THE POOL SHRINKS BY EXACTLY THE DISTRIBUTED AMOUNT (nothing else of it moves) and ends at the reported next amount
            r.is_ok() ==> final(self).market.pool.is_some() && final(self).market.pool.unwrap().long@ == old(self).market.pool.unwrap().long@ - r.unwrap().distribution_amount@
                && final(self).market.pool.unwrap().short == old(self).market.pool.unwrap().short
                && r.unwrap().next_position_impact_pool_amount@ == final(self).market.pool.unwrap().long@,
//@body
}
} // verus!
