//@include C21.rs
// =================================================================================================
// C21 (market buffer, pool table)  RevertibleBuffer::{pool, pool_mut, commit_to_storage}
//      programs/store/src/states/market/revertible/buffer.rs :: impl RevertibleBuffer
//      The pool table `Pools` (a 16-arm match from PoolKind to a field: mapping under contract in C17 / C40) is a spec map
//      from pool kind to PoolStorage with the get / get_mut contract; `PoolKind::iter()` (strum EnumIter) is assumed to
//      visit every kind exactly once. The event built and emitted at the end of commit_to_storage is cut (it reads the
//      buffer, writes nothing to the state; a failed emission panics = the transaction fails).
// =================================================================================================
verus! {
/// pool kinds: an opaque finite key type (the 16 variants are not distinguished here)
#[derive(Clone, Copy, PartialEq, Eq)]
pub struct PoolKind { pub k: u8 }
impl PartialEqSpecImpl for PoolKind {
    open spec fn obeys_eq_spec() -> bool { true }
    open spec fn eq_spec(&self, other: &PoolKind) -> bool { *self == *other }
}
/// the order `PoolKind::iter()` visits the kinds in: every kind once
pub uninterp spec fn all_kinds() -> Seq<PoolKind>;
#[verifier::external_body]
pub proof fn axiom_all_kinds()
    ensures forall|i: int, j: int| 0 <= i < j < all_kinds().len() ==> all_kinds()[i] != all_kinds()[j],
        forall|k: PoolKind| #[trigger] all_kinds().contains(k),
{}
impl PoolKind {
    /// ASSUMED (strum::EnumIter): the kinds in declaration order, each once
    #[verifier::external_body]
    pub fn iter_all() -> (r: Vec<PoolKind>) ensures r@ == all_kinds() { unimplemented!() }
}

/// `Pools`: kind -> PoolStorage. `get` / `get_mut` return `None` for a kind the table does not hold (non_exhaustive enum)
pub struct Pools { pub m: Ghost<Map<PoolKind, PoolStorage>> }
impl Pools {
    #[verifier::external_body]
    pub fn get(&self, kind: PoolKind) -> (r: Option<&PoolStorage>)
        ensures r.is_some() == self.m@.dom().contains(kind), r.is_some() ==> *r.unwrap() == self.m@[kind]
    { unimplemented!() }
    #[verifier::external_body]
    pub fn get_mut(&mut self, kind: PoolKind) -> (r: Option<&mut PoolStorage>)
        ensures r.is_some() == old(self).m@.dom().contains(kind),
            r.is_some() ==> *r.unwrap() == old(self).m@[kind] && final(self).m@ == old(self).m@.insert(kind, *final(r.unwrap())),
            r.is_none() ==> final(self).m@ == old(self).m@,
    { unimplemented!() }
}

/// the stored market state and the buffer's copy of it: same shape
pub struct StateP { pub pools: Pools, pub clocks: Clocks, pub other: OtherState }
pub struct MarketBuffer { pub rev: u64, pub state: StateP }
/// what an operation of the current revision reads for a pool kind: its own write if there is one, else the stored pool
pub open spec fn mpool_view(b: MarketBuffer, s: StateP, kind: PoolKind) -> Pool {
    if b.state.pools.m@[kind].rev == b.rev { b.state.pools.m@[kind].pool } else { s.pools.m@[kind].pool }
}
pub open spec fn mclocks_view(b: MarketBuffer, s: StateP) -> Clocks { if b.state.clocks.rev == b.rev { b.state.clocks } else { s.clocks } }
pub open spec fn mother_view(b: MarketBuffer, s: StateP) -> OtherState { if b.state.other.rev == b.rev { b.state.other } else { s.other } }
/// buffer and storage hold the same kinds
pub open spec fn same_kinds(b: MarketBuffer, s: StateP) -> bool { b.state.pools.m@.dom() =~= s.pools.m@.dom() }
/// cached entries never carry a revision from the future
pub open spec fn mbuffer_wf(b: MarketBuffer) -> bool {
    b.state.clocks.rev <= b.rev && b.state.other.rev <= b.rev && forall|k: PoolKind| #[trigger] b.state.pools.m@.dom().contains(k) ==> b.state.pools.m@[k].rev <= b.rev
}
/// the commit has been done for the kinds visited so far
pub open spec fn committed_kind(b: MarketBuffer, s0: StateP, s: StateP, k: PoolKind) -> bool {
    s.pools.m@[k] == (if b.state.pools.m@[k].rev == b.rev { b.state.pools.m@[k] } else { s0.pools.m@[k] })
}
impl MarketBuffer {
    pub fn rev(&self) -> (r: u64) ensures r == self.rev { self.rev }

//@unit C21.RevertibleBuffer.pool
//@ file programs/store/src/states/market/revertible/buffer.rs
//@ within impl RevertibleBuffer
//@ fn pool
//@ sig fn pool<'a>(&'a self, kind: PoolKind, storage: &'a State) -> Option<&'a Pool>
//@ sub \|\| storage\.pools\.get\((\w+)\)\.expect\("must exist"\) => || -> (o: &'a PoolStorage) requires storage.pools.m@.dom().contains(\1) ensures *o == storage.pools.m@[\1] { storage.pools.get(\1).expect("must exist") }
    pub fn pool<'a>(&'a self, kind: PoolKind, storage: &'a StateP) -> (r: Option<&'a Pool>)
        requires same_kinds(*self, *storage)
        ensures
            r.is_some() == self.state.pools.m@.dom().contains(kind),
            // an operation reads its own write, else the STORED pool - never what an earlier operation left in the buffer
            r.is_some() ==> *r.unwrap() == mpool_view(*self, *storage, kind),
//@body

//@unit C21.RevertibleBuffer.pool_mut
//@ file programs/store/src/states/market/revertible/buffer.rs
//@ within impl RevertibleBuffer
//@ fn pool_mut
//@ sig fn pool_mut(&mut self, kind: PoolKind, storage: &State) -> Option<&mut Pool>
//@ sub \|\| \*storage\.pools\.get\((\w+)\)\.expect\("must exist"\) => || -> (o: PoolStorage) requires storage.pools.m@.dom().contains(\1) ensures o == storage.pools.m@[\1] { *storage.pools.get(\1).expect("must exist") }
    pub fn pool_mut(&mut self, kind: PoolKind, storage: &StateP) -> (r: Option<&mut Pool>)
        requires same_kinds(*old(self), *storage), mbuffer_wf(*old(self)),
        ensures
            r.is_some() == old(self).state.pools.m@.dom().contains(kind),
            // the write handle starts from what the operation currently observes; what is written through it is what the operation
            // observes afterwards; every other kind, the clocks, the other state and the revision are untouched
            r.is_some() ==> *r.unwrap() == mpool_view(*old(self), *storage, kind)
                && mpool_view(*final(self), *storage, kind) == *final(r.unwrap())
                && final(self).state.pools.m@.dom() =~= old(self).state.pools.m@.dom()
                && (forall|k: PoolKind| k != kind ==> #[trigger] final(self).state.pools.m@[k] == old(self).state.pools.m@[k]),
            final(self).rev == old(self).rev && final(self).state.clocks == old(self).state.clocks && final(self).state.other == old(self).state.other,
            r.is_none() ==> final(self).state.pools.m@ == old(self).state.pools.m@,
//@body

//@unit C21.RevertibleBuffer.commit_to_storage
//@ file programs/store/src/states/market/revertible/buffer.rs
//@ within impl RevertibleBuffer
//@ fn commit_to_storage
//@ sig fn commit_to_storage( &mut self, storage: &mut State, market_token: &Pubkey, event_emitter: &EventEmitter, )
//@ cut_from let updated_pools = updated_pool_kinds :: proof { }
//@ sub let mut updated_pool_kinds = Vec::new\(\); => let mut updated_pool_kinds: Vec<PoolKind> = Vec::new(); let ghost s0 = *storage; let kinds = PoolKind::iter_all(); proof { axiom_all_kinds(); }
//@ sub for kind in PoolKind::iter\(\) \{ => let mut _k21: usize = 0; while _k21 < kinds.len() { let kind = kinds[_k21]; _k21 += 1;
//@ loop 1: invariant _k21 <= kinds.len(), kinds@ == all_kinds(), state == &self.state, rev == self.rev, storage.pools.m@.dom() =~= s0.pools.m@.dom(), storage.clocks == s0.clocks, storage.other == s0.other, same_kinds(*self, s0), forall|k: PoolKind| #[trigger] s0.pools.m@.dom().contains(k) ==> all_kinds().contains(k), forall|i: int| 0 <= i < _k21 ==> self.state.pools.m@.dom().contains(#[trigger] kinds@[i]) ==> committed_kind(*self, s0, *storage, kinds@[i]), forall|i: int| _k21 <= i < kinds.len() ==> self.state.pools.m@.dom().contains(#[trigger] kinds@[i]) ==> storage.pools.m@[kinds@[i]] == s0.pools.m@[kinds@[i]], forall|i: int, j: int| 0 <= i < j < kinds.len() ==> kinds@[i] != kinds@[j], decreases kinds.len() - _k21,
    pub fn commit_to_storage(&mut self, storage: &mut StateP)
        requires same_kinds(*old(self), *old(storage)),
        ensures
            // AFTER A COMMIT the stored state is exactly what the operation observed: every pool, the clocks and the other state are
            // the operation's write where it wrote (entry marked with the current revision) and the old stored value where it did not
            forall|k: PoolKind| #[trigger] old(storage).pools.m@.dom().contains(k) ==> final(storage).pools.m@[k].pool == mpool_view(*old(self), *old(storage), k)
                && (old(self).state.pools.m@[k].rev != old(self).rev ==> final(storage).pools.m@[k] == old(storage).pools.m@[k]),
            final(storage).pools.m@.dom() =~= old(storage).pools.m@.dom(),
            final(storage).clocks.t == mclocks_view(*old(self), *old(storage)).t, old(self).state.clocks.rev != old(self).rev ==> final(storage).clocks == old(storage).clocks,
            final(storage).other.d == mother_view(*old(self), *old(storage)).d, old(self).state.other.rev != old(self).rev ==> final(storage).other == old(storage).other,
            // the buffer itself is not changed by a commit
            final(self).rev == old(self).rev && final(self).state.clocks == old(self).state.clocks && final(self).state.other == old(self).state.other
                && final(self).state.pools.m@ == old(self).state.pools.m@,
//@body
}
} // verus!
