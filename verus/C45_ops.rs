//@include inc/model_base_u128.rs
// =================================================================================================
// C45 (operations)  programs/store/src/ops/glv.rs - the two pricing blocks, each extracted as ONE statement (`//@ block`):
//      perform_glv_deposit    :: `let glv_amount = { .. };`            how many GLV tokens a deposit mints
//      perform_glv_withdrawal :: `let market_token_amount = { .. };`   how many market tokens a withdrawal pays
//      The rest of the two ~200-line operations (account loading, the inner market deposit / withdrawal, transfers, commits) is
//      dropped (logged). Assumed: unchecked_get_glv_value (the sum over the GLV's markets) and the per-market valuations as
//      deterministic reads TABULATED BY THE MAXIMIZE FLAG - a wrong flag reads the other entry; Glv::validate_market_token_balance
//      (under contract in verus/C45_store.rs) leaves a witness of its arguments; event CPIs are fallible calls.
// =================================================================================================
//@const programs/store/src/constants/mod.rs :: MARKET_USD_TO_AMOUNT_DIVISOR :: u128 = 10u128.pow((MARKET_DECIMALS - MARKET_TOKEN_DECIMALS) as u32)
//@const programs/store/src/constants/mod.rs :: MARKET_TOKEN_DECIMALS :: u8 = 9
//@const programs/store/src/constants/mod.rs :: MARKET_DECIMALS :: u8 = Decimal::MAX_DECIMALS
//@const crates/utils/src/price/decimal.rs :: MAX_DECIMALS :: u8 = 20
verus! {
/// 10^(20 - 9)
pub const MARKET_USD_TO_AMOUNT_DIVISOR: u128 = 100_000_000_000;
pub struct Key { pub hi: u128, pub lo: u128 }
pub struct MintC { pub supply: u64 }
pub struct OracleC { pub tag: u8 }
pub struct MarketC { pub tag: u8 }
pub struct OpC { pub mkt: MarketC }
impl OpC { pub fn market(&self) -> (r: &MarketC) ensures *r == self.mkt { &self.mkt } }
pub struct PricesC { pub tag: u8 }
pub struct GlvC { pub tag: Ghost<int> }
pub struct GlvLoader { pub glv: GlvC }
impl GlvLoader { pub fn load(&self) -> (r: Result<&GlvC, E>) ensures r.is_ok() ==> *r.unwrap() == self.glv { Ok(&self.glv) } }
/// crates/model GlvValueForMarket<u128>
pub struct GlvValueForMarket { pub market_token_value_in_glv: u128, pub pool_value: i128, pub supply: u128 }

/// the value of the whole GLV vault (sum over its markets of balance x market token price), by the maximize flag
pub uninterp spec fn glv_value_tab(maximize: bool) -> Option<u128>;
/// the valuation of `balance` tokens of the operation's market, by the maximize flag
pub uninterp spec fn market_value_tab(balance: u128, maximize: bool) -> Option<GlvValueForMarket>;
/// market tokens that a GLV value buys back, by the maximize flag of the market's pool value
pub uninterp spec fn amount_for_value_tab(value: u128, maximize: bool) -> Option<u128>;
/// witness that the per-market cap validation ran with these arguments
pub uninterp spec fn balance_validated(next_balance: u64, pool_value: i128, supply: u128) -> bool;

impl OracleC {
    #[verifier::external_body]
    pub fn market_prices(&self, market: &MarketC) -> (r: Result<PricesC, E>) { unimplemented!() }
}
#[verifier::external_body]
pub fn unchecked_get_glv_value(glv: &GlvC, oracle: &OracleC, op: &OpC, markets: &Key, market_tokens: &Key, maximize: bool) -> (r: Result<u128, E>)
    ensures r.is_ok() == glv_value_tab(maximize).is_some(), r.is_ok() ==> r.unwrap() == glv_value_tab(maximize).unwrap()
{ unimplemented!() }
#[verifier::external_body]
pub fn get_glv_value_for_market_with_new_index_price(oracle: &OracleC, prices: &mut PricesC, market: &MarketC, balance: u128, maximize: bool) -> (r: Result<GlvValueForMarket, E>)
    ensures r.is_ok() == market_value_tab(balance, maximize).is_some(), r.is_ok() ==> r.unwrap() == market_value_tab(balance, maximize).unwrap()
{ unimplemented!() }
#[verifier::external_body]
pub fn get_glv_value_for_market(prices: &PricesC, market: &MarketC, balance: u128, maximize: bool) -> (r: Result<GlvValueForMarket, E>)
    ensures r.is_ok() == market_value_tab(balance, maximize).is_some(), r.is_ok() ==> r.unwrap() == market_value_tab(balance, maximize).unwrap()
{ unimplemented!() }
#[verifier::external_body]
pub fn get_market_token_amount_for_glv_value(oracle: &OracleC, market: &MarketC, glv_value: u128, maximize: bool) -> (r: Result<u128, E>)
    ensures r.is_ok() == amount_for_value_tab(glv_value, maximize).is_some(), r.is_ok() ==> r.unwrap() == amount_for_value_tab(glv_value, maximize).unwrap()
{ unimplemented!() }
impl GlvC {
    /// Glv::validate_market_token_balance (contract: verus/C45_store.rs): here only the fact that it ran with these arguments
    #[verifier::external_body]
    pub fn validate_market_token_balance(&self, market_token: &Key, new_balance: u64, market_pool_value: &i128, market_token_supply: &u128) -> (r: Result<(), E>)
        ensures r.is_ok() ==> balance_validated(new_balance, *market_pool_value, *market_token_supply)
    { unimplemented!() }
}
#[verifier::external_body]
pub fn emit_glv_pricing(output_amount: u64) -> (r: Result<(), E>) { unimplemented!() }
/// glue: the C01 units on raw u128 (the store calls gmsol_model::utils with T = u128)
pub fn usd_to_market_token_amount_u128(usd_value: u128, pool_value: u128, supply: u128, divisor: u128) -> (r: Option<u128>)
    ensures r.is_some() ==> divisor != 0,
        divisor != 0 && supply != 0 && pool_value != 0 ==> (r.is_some() ==> r.unwrap() == mul_div_floor(supply as int, usd_value as int, pool_value as int)),
        divisor != 0 && supply == 0 && pool_value == 0 ==> r == Some((usd_value / divisor) as u128),
{ match usd_to_market_token_amount(N(usd_value), N(pool_value), N(supply), N(divisor)) { Some(x) => Some(x.0), None => None } }
pub fn market_token_amount_to_usd_u128(amount: &u128, pool_value: &u128, supply: &u128) -> (r: Option<u128>)
    ensures *supply == 0 ==> r.is_none(), *supply != 0 ==> (r.is_some() ==> r.unwrap() == mul_div_floor(*pool_value as int, *amount as int, *supply as int)),
{ match market_token_amount_to_usd(&N(*amount), &N(*pool_value), &N(*supply)) { Some(x) => Some(x.0), None => None } }

pub struct Op { pub glv: GlvLoader, pub oracle: OracleC, pub markets: Key, pub market_tokens: Key, pub glv_token_mint: MintC }
impl Op {
//@unit C45.perform_glv_deposit.pricing_block
//@ file programs/store/src/ops/glv.rs
//@ within impl ExecuteGlvDepositOperation<'_, '_>
//@ fn perform_glv_deposit
//@ sig fn perform_glv_deposit(&mut self) -> Result<()>
//@ block let glv_amount = { :: ; Ok(glv_amount)
//@ sub self\.oracle,\s*&op,\s*self\.markets,\s*self\.market_tokens, => &self.oracle, &op, &self.markets, &self.market_tokens,
//@ sub self\.oracle\.market_prices\(op\.market\(\)\)\?; => self.oracle.market_prices(op.market())?;
//@ sub get_glv_value_for_market_with_new_index_price\(\s*self\.oracle, => get_glv_value_for_market_with_new_index_price(&self.oracle,
//@ sub u128::from\((\w+)\) => (\1 as u128)
//@ sub usd_to_market_token_amount\( => usd_to_market_token_amount_u128(
//@ sub constants::MARKET_USD_TO_AMOUNT_DIVISOR => MARKET_USD_TO_AMOUNT_DIVISOR
//@ sub let output_amount = glv_amount\s*\.try_into\(\) => let output_amount: u64 = glv_amount.try_into()
//@ sub self\.event_emitter\.emit_cpi\(&GlvPricing \{[\s\S]*?\}\)\?; => emit_glv_pricing(output_amount)?;
    fn deposit_pricing_block(&self, op: OpC, market_token_amount: u64, market_token_mint: Key, next_market_token_balance: u64) -> (r: Result<u64, E>)
        ensures
            // THE VAULT IS VALUED MAXIMISED, what the depositor brings in MINIMISED
            r.is_ok() ==> glv_value_tab(true).is_some() && market_value_tab(market_token_amount as u128, false).is_some() && market_value_tab(market_token_amount as u128, true).is_some(),
            // the per-market caps are validated on the balance AFTER the deposit, with the pool value and supply of the maximised valuation
            r.is_ok() ==> balance_validated(next_market_token_balance, market_value_tab(market_token_amount as u128, true).unwrap().pool_value, market_value_tab(market_token_amount as u128, true).unwrap().supply),
            // minted GLV tokens: floor(supply x received value / vault value) (first deposit: value / divisor)
            r.is_ok() && self.glv_token_mint.supply != 0 && glv_value_tab(true).unwrap() != 0 ==> r.unwrap() as int
                == mul_div_floor(self.glv_token_mint.supply as int, market_value_tab(market_token_amount as u128, false).unwrap().market_token_value_in_glv as int, glv_value_tab(true).unwrap() as int),
            r.is_ok() && self.glv_token_mint.supply == 0 && glv_value_tab(true).unwrap() == 0 ==> r.unwrap() as int
                == market_value_tab(market_token_amount as u128, false).unwrap().market_token_value_in_glv as int / (MARKET_USD_TO_AMOUNT_DIVISOR as int),
//@body

//@unit C45.perform_glv_withdrawal.pricing_block
//@ file programs/store/src/ops/glv.rs
//@ within impl ExecuteGlvWithdrawalOperation<'_, '_>
//@ fn perform_glv_withdrawal
//@ sig fn perform_glv_withdrawal(&mut self) -> Result<(u64, u64)>
//@ block let market_token_amount = { :: ; Ok(market_token_amount)
//@ sub self\.oracle,\s*&op,\s*self\.markets,\s*self\.market_tokens, => &self.oracle, &op, &self.markets, &self.market_tokens,
//@ sub get_market_token_amount_for_glv_value\(\s*self\.oracle, => get_market_token_amount_for_glv_value(&self.oracle,
//@ sub &\(u128::from\((\w+)\)\) => &(\1 as u128)
//@ sub market_token_amount_to_usd\( => market_token_amount_to_usd_u128(
//@ sub let amount = get_market_token_amount_for_glv_value => let amount: u64 = get_market_token_amount_for_glv_value
//@ sub self\.event_emitter\.emit_cpi\(&GlvPricing \{[\s\S]*?\}\)\?; => emit_glv_pricing(amount)?;
    fn withdrawal_pricing_block(&self, op: OpC, glv_token_amount: u64, market_token_mint: Key) -> (r: Result<u64, E>)
        ensures
            // THE VAULT IS VALUED MINIMISED ...
            r.is_ok() ==> glv_value_tab(false).is_some() && self.glv_token_mint.supply != 0,
            // ... the burnt GLV tokens are worth floor(vault value x amount / supply), and that value is converted back into market
            // tokens at the market's MAXIMISED pool value (fewest tokens)
            r.is_ok() ==> ({
                let v = mul_div_floor(glv_value_tab(false).unwrap() as int, glv_token_amount as int, self.glv_token_mint.supply as int);
                v <= u128::MAX && amount_for_value_tab(v as u128, true).is_some() && r.unwrap() as int == amount_for_value_tab(v as u128, true).unwrap() as int
            }),
//@body
}
} // verus!
