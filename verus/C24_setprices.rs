//@include C24.rs
// =================================================================================================
// C24 (the wiring)  programs/store/src/states/oracle/mod.rs :: Oracle::{set_prices_from_remaining_accounts, update_oracle_ts_and_slot,
//                                                              min_oracle_slot, is_cleared}
//      Every price that is stored went through the token's ENABLED config, was parsed from the feed account at the token's
//      position, and passed PriceValidator::validate_one (freshness / deviation: verus/C24.rs) BEFORE it was stored.
//      Assumed: the token map as a spec map; OraclePrice::parse_from_feed_account as a deterministic partial function of
//      (config, feed account, allow_closed) yielding well-formed decimals (provider-specific parsing: not under contract);
//      PriceMap::set as a log entry (its gate SmallPrices::from_price: verus/C24.rs); flags as booleans.
// =================================================================================================
verus! {
#[derive(Clone, Copy)]
pub struct TokenKey { pub hi: u128, pub lo: u128 }
pub struct FeedAccount { pub tag: Ghost<int> }
//@struct programs/store/src/states/oracle/mod.rs :: pub(crate) struct OraclePriceParts :: oracle_slot, oracle_ts, price, ref_price, is_open
pub struct OraclePriceParts { pub oracle_slot: u64, pub oracle_ts: i64, pub price: UPrice, pub ref_price: Option<Decimal>, pub is_open: bool }
//@struct programs/store/src/states/oracle/mod.rs :: struct OraclePrice :: provider, parts
pub struct OraclePrice { pub provider: PriceProviderKind, pub parts: OraclePriceParts }
pub uninterp spec fn parsed_of(config: TokenConfig, feed: FeedAccount, allow_closed: bool) -> Option<OraclePrice>;
impl OraclePrice {
    /// ASSUMED (Pyth / Chainlink / Switchboard / custom feed parsing): deterministic, fallible, decimals well formed
    #[verifier::external_body]
    pub fn parse_from_feed_account(clock: &Clock, token_config: &TokenConfig, account: &FeedAccount, allow_closed: bool) -> (r: Result<OraclePrice, E>)
        ensures r.is_ok() == parsed_of(*token_config, *account, allow_closed).is_some(),
            r.is_ok() ==> r.unwrap() == parsed_of(*token_config, *account, allow_closed).unwrap()
                && dec_wf(r.unwrap().parts.price.min) && dec_wf(r.unwrap().parts.price.max)
                && (r.unwrap().parts.ref_price.is_some() ==> dec_wf(r.unwrap().parts.ref_price.unwrap())),
    { unimplemented!() }
}
pub struct TokenMapRef { pub m: Ghost<Map<TokenKey, TokenConfig>> }
impl TokenMapRef {
    #[verifier::external_body]
    pub fn get(&self, token: &TokenKey) -> (r: Option<&TokenConfig>)
        ensures r.is_some() == self.m@.dom().contains(*token), r.is_some() ==> *r.unwrap() == self.m@[*token]
    { unimplemented!() }
}
/// one stored price: the arguments of PriceMap::set
pub struct SetEntry { pub token: TokenKey, pub price: UPrice, pub synthetic: bool, pub open: bool }
pub struct PriceMap { pub log: Ghost<Seq<SetEntry>> }
pub const MAX_TOKENS: usize = 512;
impl PriceMap {
    #[verifier::external_body]
    pub fn is_empty(&self) -> (r: bool) ensures r == (self.log@.len() == 0) { unimplemented!() }
    /// PriceMap::set = insert(token, SmallPrices::from_price(&price, synthetic, open)?) : a log entry, or an error that stores nothing
    #[verifier::external_body]
    pub fn set(&mut self, token: &TokenKey, price: UPrice, is_synthetic: bool, is_open: bool) -> (r: Result<(), E>)
        ensures r.is_ok() ==> final(self).log@ == old(self).log@.push(SetEntry { token: *token, price, synthetic: is_synthetic, open: is_open }),
                r.is_err() ==> final(self).log@ == old(self).log@
    { unimplemented!() }
}
pub enum OracleFlag { Cleared }
pub struct OracleFlags { pub cleared: bool }
impl OracleFlags {
    pub fn get_flag(&self, flag: OracleFlag) -> (r: bool) ensures r == self.cleared { self.cleared }
    pub fn set_flag(&mut self, flag: OracleFlag, value: bool) -> (r: bool) ensures r == old(self).cleared, final(self).cleared == value { let p = self.cleared; self.cleared = value; p }
}
impl PriceValidator {
    pub fn clock(&self) -> (r: &Clock) ensures *r == self.clock { &self.clock }
}
pub struct Oracle { pub min_oracle_ts: i64, pub max_oracle_ts: i64, pub min_oracle_slot: u64, pub primary: PriceMap, pub flags: OracleFlags }

/// what validate_one guarantees about ONE accepted price (the freshness clauses of its contract, for the validator's clock and limits)
pub open spec fn fresh(v: PriceValidator, c: TokenConfig, p: OraclePrice) -> bool {
    c.timestamp_adjustment.is_some() && c.max_deviation_factor.is_some()
        && v.clock.unix_timestamp - (p.parts.oracle_ts - c.timestamp_adjustment.unwrap()) <= v.max_age
        && p.parts.oracle_ts - v.clock.unix_timestamp <= v.max_future_timestamp_excess
        && within_deviation(c, p.parts.price, p.parts.ref_price)
}
/// the deviation clause of validate_one's contract, for the price that is STORED: with a configured factor and a non-zero deviation both
/// sides lie within the (rounded-up) deviation from the reference price
pub open spec fn within_deviation(c: TokenConfig, price: UPrice, rp: Option<Decimal>) -> bool {
    let ref_price: Option<&Decimal> = match rp { Some(d) => Some(&d), None => None };
    (c.max_deviation_factor.unwrap().is_some() && dev_of(price, ref_price, c.max_deviation_factor.unwrap().unwrap()) > 0) ==> ({
        let reference = reference_of(price, ref_price);
        let tol = dev_rounded(dev_of(price, ref_price, c.max_deviation_factor.unwrap().unwrap()), p10(price.max.decimal_multiplier as nat));
        adist(unit_price(price.max), reference) <= tol && adist(unit_price(price.min), reference) <= tol
    })
}
/// the i-th token: configured, enabled, parsed from the i-th account, accepted by the validator, and stored as parsed
pub open spec fn stored_ok(v: PriceValidator, map: TokenMapRef, tokens: Seq<TokenKey>, accounts: Seq<FeedAccount>, allow_closed: bool, log: Seq<SetEntry>, base: int, i: int) -> bool {
    &&& map.m@.dom().contains(tokens[i]) && map.m@[tokens[i]].enabled
    &&& parsed_of(map.m@[tokens[i]], accounts[i], allow_closed).is_some()
    &&& fresh(v, map.m@[tokens[i]], parsed_of(map.m@[tokens[i]], accounts[i], allow_closed).unwrap())
    &&& log[base + i] == (SetEntry { token: tokens[i], price: parsed_of(map.m@[tokens[i]], accounts[i], allow_closed).unwrap().parts.price,
                                     synthetic: map.m@[tokens[i]].synthetic, open: parsed_of(map.m@[tokens[i]], accounts[i], allow_closed).unwrap().parts.is_open })
}
impl Oracle {
//@unit C24.Oracle.is_cleared
//@ file programs/store/src/states/oracle/mod.rs
//@ within impl Oracle
//@ fn is_cleared
//@ sig fn is_cleared(&self) -> bool
    pub fn is_cleared(&self) -> (r: bool) ensures r == self.flags.cleared
//@body

//@unit C24.Oracle.min_oracle_slot
//@ file programs/store/src/states/oracle/mod.rs
//@ within impl Oracle
//@ fn min_oracle_slot
//@ sig fn min_oracle_slot(&self) -> Option<u64>
    pub fn min_oracle_slot(&self) -> (r: Option<u64>) ensures r == (if self.flags.cleared { None::<u64> } else { Some(self.min_oracle_slot) })
//@body

//@unit C24.Oracle.update_oracle_ts_and_slot
//@ file programs/store/src/states/oracle/mod.rs
//@ within impl Oracle
//@ fn update_oracle_ts_and_slot
//@ sig fn update_oracle_ts_and_slot(&mut self, mut validator: PriceValidator) -> Result<()>
    fn update_oracle_ts_and_slot(&mut self, mut validator: PriceValidator) -> (r: Result<(), E>)
        ensures
            // the prices stay usable only if the spread of the (adjusted) timestamps of ALL of them is within the allowed range
            r.is_ok() ==> tmax(validator.max_oracle_ts as int, old(self).max_oracle_ts as int) - tmin(validator.min_oracle_ts as int, old(self).min_oracle_ts as int) <= validator.max_oracle_timestamp_range,
            final(self).primary.log@ == old(self).primary.log@,
//@body

//@unit C24.Oracle.set_prices_from_remaining_accounts
//@ file programs/store/src/states/oracle/mod.rs
//@ within impl Oracle
//@ fn set_prices_from_remaining_accounts
//@ sig fn set_prices_from_remaining_accounts<'info>( &mut self, mut validator: PriceValidator, map: &TokenMapRef, tokens: &[Pubkey], remaining_accounts: &'info [AccountInfo<'info>], allow_closed: bool, ) -> Result<()>
//@ sub PriceMap::MAX_TOKENS => MAX_TOKENS
//@ sub ErrorCode::AccountNotEnoughKeys => E::Other
//@ sub for \(idx, token\) in tokens\.iter\(\)\.enumerate\(\) \{ => let ghost v0 = validator; let ghost log0 = self.primary.log@; let mut idx: usize = 0; while idx < tokens.len() { let token = &tokens[idx]; let _cur = idx; idx += 1; let idx = _cur;
//@ before self.primary.set( :: let ghost logb = self.primary.log@;
//@ after self.primary.set( :: proof { assert forall|j: int| 0 <= j < _cur implies #[trigger] stored_ok(v0, *map, tokens@, remaining_accounts@, allow_closed, self.primary.log@, log0.len() as int, j) by { assert(stored_ok(v0, *map, tokens@, remaining_accounts@, allow_closed, logb, log0.len() as int, j)); assert(self.primary.log@[log0.len() as int + j] == logb[log0.len() as int + j]); } }
//@ loop 1: invariant idx <= tokens.len(), tokens.len() <= remaining_accounts.len(), self.primary.log@.len() == log0.len() + idx, forall|j: int| 0 <= j < log0.len() ==> self.primary.log@[j] == log0[j], forall|j: int| 0 <= j < idx ==> #[trigger] stored_ok(v0, *map, tokens@, remaining_accounts@, allow_closed, self.primary.log@, log0.len() as int, j), validator.clock == v0.clock && validator.max_age == v0.max_age && validator.max_future_timestamp_excess == v0.max_future_timestamp_excess && validator.max_oracle_timestamp_range == v0.max_oracle_timestamp_range, self.flags == old(self).flags, decreases tokens.len() - idx,
    pub fn set_prices_from_remaining_accounts(&mut self, mut validator: PriceValidator, map: &TokenMapRef, tokens: &[TokenKey], remaining_accounts: &[FeedAccount], allow_closed: bool) -> (r: Result<(), E>)
        ensures
            // prices can only be set on a cleared, empty oracle, for a bounded list of tokens with one account each
            r.is_ok() ==> old(self).flags.cleared && old(self).primary.log@.len() == 0 && tokens.len() <= MAX_TOKENS && tokens.len() <= remaining_accounts.len(),
            // EVERY stored price: its token is configured and ENABLED, it was parsed from the account at the token's position, it
            // passed the validator (fresh enough, not from the future) and it is stored exactly as parsed, in order, nothing else
            r.is_ok() ==> final(self).primary.log@.len() == tokens.len()
                && forall|j: int| 0 <= j < tokens.len() ==> #[trigger] stored_ok(validator, *map, tokens@, remaining_accounts@, allow_closed, final(self).primary.log@, 0, j),
//@body
}

// ---- the storage side: PriceMap::set (the real text; fixed_map! insert as a log) and the read-back of a stored price ------------
impl OraclePriceFlagContainer {
    pub fn get_flag(&self, flag: OraclePriceFlag) -> (r: bool)
        ensures r == (match flag { OraclePriceFlag::Synthetic => self.synthetic, OraclePriceFlag::Open => self.open })
    { match flag { OraclePriceFlag::Synthetic => self.synthetic, OraclePriceFlag::Open => self.open } }
}
pub struct StoredEntry { pub token: TokenKey, pub sp: SmallPrices }
/// carrier of the fixed_map!-generated PriceMap: what `insert` was called with, in order (the map itself: C34's contract)
pub struct PriceMapStore { pub ins: Ghost<Seq<StoredEntry>> }
/// the stored form reads back as exactly this price
pub open spec fn reads_back(sp: SmallPrices, price: UPrice, is_synthetic: bool, is_open: bool) -> bool {
    sp.min == price.min.value && sp.max == price.max.value && sp.decimal_multiplier == price.min.decimal_multiplier
        && sp.decimal_multiplier == price.max.decimal_multiplier && sp.flags.synthetic == is_synthetic && sp.flags.open == is_open
}
impl PriceMapStore {
    #[verifier::external_body]
    pub fn insert(&mut self, token: &TokenKey, v: SmallPrices) -> (r: Option<SmallPrices>)
        ensures final(self).ins@ == old(self).ins@.push(StoredEntry { token: *token, sp: v })
    { unimplemented!() }
//@unit C24.PriceMap.set
//@ file programs/store/src/states/oracle/price_map.rs
//@ within impl PriceMap
//@ fn set
//@ sig fn set( &mut self, token: &Pubkey, price: gmsol_utils::Price, is_synthetic: bool, is_open: bool, ) -> Result<()>
    pub fn set(&mut self, token: &TokenKey, price: UPrice, is_synthetic: bool, is_open: bool) -> (r: Result<(), E>)
        ensures
            // a price gets into the map only through the well-formedness gate: 0 < min <= max, one multiplier
            r.is_ok() ==> price.min.decimal_multiplier == price.max.decimal_multiplier && price.min.value != 0 && price.max.value >= price.min.value,
            // exactly one entry, for THIS token, that reads back as THIS price with THESE flags
            r.is_ok() ==> final(self).ins@.len() == old(self).ins@.len() + 1
                && final(self).ins@.subrange(0, old(self).ins@.len() as int) =~= old(self).ins@
                && final(self).ins@.last().token == *token && reads_back(final(self).ins@.last().sp, price, is_synthetic, is_open),
            // a rejected price stores nothing
            r.is_err() ==> final(self).ins@ == old(self).ins@,
//@body
}
impl SmallPrices {
//@unit C24.SmallPrices.min
//@ file programs/store/src/states/oracle/price_map.rs
//@ within impl SmallPrices
//@ fn min
//@ sig fn min(&self) -> Decimal
    pub fn min(&self) -> (r: Decimal) ensures r.value == self.min, r.decimal_multiplier == self.decimal_multiplier
//@body

//@unit C24.SmallPrices.max
//@ file programs/store/src/states/oracle/price_map.rs
//@ within impl SmallPrices
//@ fn max
//@ sig fn max(&self) -> Decimal
    pub fn max(&self) -> (r: Decimal) ensures r.value == self.max, r.decimal_multiplier == self.decimal_multiplier
//@body

//@unit C24.SmallPrices.is_synthetic
//@ file programs/store/src/states/oracle/price_map.rs
//@ within impl SmallPrices
//@ fn is_synthetic
//@ sig fn is_synthetic(&self) -> bool
    pub fn is_synthetic(&self) -> (r: bool) ensures r == self.flags.synthetic
//@body

//@unit C24.SmallPrices.is_open
//@ file programs/store/src/states/oracle/price_map.rs
//@ within impl SmallPrices
//@ fn is_open
//@ sig fn is_open(&self) -> bool
    pub fn is_open(&self) -> (r: bool) ensures r == self.flags.open
//@body

//@unit C24.SmallPrices.to_price
//@ file programs/store/src/states/oracle/price_map.rs
//@ within impl SmallPrices
//@ fn to_price
//@ sig fn to_price(&self) -> Result<gmsol_utils::Price>
//@ sub gmsol_utils::Price \{ => UPrice {
    pub fn to_price(&self) -> (r: Result<UPrice, E>)
        ensures r.is_ok(), r.unwrap().min.value == self.min && r.unwrap().max.value == self.max
            && r.unwrap().min.decimal_multiplier == self.decimal_multiplier && r.unwrap().max.decimal_multiplier == self.decimal_multiplier
//@body
}
/// ROUND TRIP: what `set` stored for a price reads back, through to_price, as that price
pub proof fn lemma_stored_price_reads_back(sp: SmallPrices, price: UPrice, s: bool, o: bool, back: UPrice)
    requires reads_back(sp, price, s, o),
        back.min.value == sp.min && back.max.value == sp.max && back.min.decimal_multiplier == sp.decimal_multiplier && back.max.decimal_multiplier == sp.decimal_multiplier
    ensures back == price
{}
} // verus!
