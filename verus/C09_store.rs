//@include inc/model_base_u128.rs
//@include inc/glue_u128.rs
// =================================================================================================
// C09 (store side)  programs/store/src/ops/order.rs :: execute_decrease_position, up to the point where the report is final
//      (everything after `event.update_with_decrease_report(&report, &prices)?;` swaps and transfers the outputs: cut).
//      Claims: a liquidation is only executed for a size covering the whole position, and closes it; an auto-deleveraging order
//      is only executed when the pnl factor exceeded the ADL limit before, and is rejected unless the factor afterwards is strictly
//      lower and not below the configured minimum.
// =================================================================================================
verus! {
//@struct crates/model/src/action/decrease_position/mod.rs :: pub enum DecreasePositionSwapType ::
#[derive(Clone, Copy)]
pub enum DecreasePositionSwapType { NoSwap, PnlTokenToCollateralToken, CollateralToPnlToken }
//@struct crates/model/src/action/decrease_position/mod.rs :: pub struct DecreasePositionFlags :: is_insolvent_close_allowed, is_liquidation_order, is_cap_size_delta_usd_allowed
#[derive(Clone, Copy)]
pub struct DecreasePositionFlags { pub is_insolvent_close_allowed: bool, pub is_liquidation_order: bool, pub is_cap_size_delta_usd_allowed: bool }
//@struct programs/store/src/ops/order.rs :: enum SecondaryOrderType ::
#[derive(Clone, Copy)]
pub enum SecondaryOrderType { Liquidation, AutoDeleveraging }
//@struct crates/utils/src/order.rs :: pub enum OrderKind ::
#[derive(Clone, Copy)]
pub enum OrderKind { Liquidation, AutoDeleveraging, MarketSwap, MarketIncrease, MarketDecrease, LimitSwap, LimitIncrease, LimitDecrease, StopLossDecrease }
//@struct crates/model/src/market/base.rs :: pub enum PnlFactorKind ::
#[derive(Clone, Copy)]
pub enum PnlFactorKind { MaxAfterDeposit, MaxAfterWithdrawal, MaxForTrader, ForAdl, MinAfterAdl }
#[derive(Clone, Copy)]
pub struct OrderSide { pub long: bool }
impl OrderSide { pub fn is_long(&self) -> (r: bool) ensures r == self.long { self.long } }
#[derive(Clone, Copy)]
pub struct PricesP { pub tag: u64 }
pub struct PriceRef { pub tag: u64 }

/// the fields of `OrderActionParams` this function reads (raw codes decoded by the fallible accessors)
pub struct OrderActionParams { pub size_delta_value: u128, pub acceptable_price: u128, pub initial_collateral_delta_amount: u64, pub kind: Option<OrderKind>, pub side: Option<OrderSide>, pub swap_type: Option<DecreasePositionSwapType> }
impl OrderActionParams {
    pub fn kind(&self) -> (r: Result<OrderKind, E>) ensures r.is_ok() == self.kind.is_some(), r.is_ok() ==> r.unwrap() == self.kind.unwrap()
    { match self.kind { Some(k) => Ok(k), None => Err(E::Other) } }
    pub fn side(&self) -> (r: Result<OrderSide, E>) ensures r.is_ok() == self.side.is_some(), r.is_ok() ==> r.unwrap() == self.side.unwrap()
    { match self.side { Some(k) => Ok(k), None => Err(E::Other) } }
    pub fn decrease_position_swap_type(&self) -> (r: Result<DecreasePositionSwapType, E>) ensures r.is_ok() == self.swap_type.is_some(), r.is_ok() ==> r.unwrap() == self.swap_type.unwrap()
    { match self.swap_type { Some(k) => Ok(k), None => Err(E::Other) } }
}
pub struct Order { pub params: OrderActionParams }
impl Order { pub fn params(&self) -> (r: &OrderActionParams) ensures *r == self.params { &self.params } }

/// the market behind the position: opaque state + the three pnl-factor reads as deterministic (uninterpreted) functions of it
pub struct RMarket { pub state: u64 }
pub struct PnlFactorExceeded { pub pnl_factor: i128, pub max_pnl_factor: u128 }
pub uninterp spec fn exceeded_of(m: RMarket, prices: PricesP, is_long: bool) -> Option<int>;
pub uninterp spec fn pnl_factor_of(m: RMarket, prices: PricesP, is_long: bool) -> int;
pub uninterp spec fn min_after_adl_of(m: RMarket, is_long: bool) -> int;
impl RMarket {
    /// ASSUMED (model: BaseMarketExt::pnl_factor_exceeded, C11 material): Some(factor) iff the factor is above the configured limit
    #[verifier::external_body]
    pub fn pnl_factor_exceeded(&self, prices: &PricesP, kind: PnlFactorKind, is_long: bool) -> (r: Result<Option<PnlFactorExceeded>, E>)
        ensures r.is_ok() && kind is ForAdl ==> (match r.unwrap() { Some(x) => exceeded_of(*self, *prices, is_long) == Some(x.pnl_factor as int), None => exceeded_of(*self, *prices, is_long).is_none() })
    { unimplemented!() }
    #[verifier::external_body]
    pub fn pnl_factor(&self, prices: &PricesP, is_long: bool, maximize: bool) -> (r: Result<i128, E>)
        ensures r.is_ok() && maximize ==> r.unwrap() as int == pnl_factor_of(*self, *prices, is_long)
    { unimplemented!() }
    /// `pnl_factor_config(kind, is_long).and_then(|factor| factor.to_signed())`
    #[verifier::external_body]
    pub fn pnl_factor_config_signed(&self, kind: PnlFactorKind, is_long: bool) -> (r: Result<i128, E>)
        ensures r.is_ok() && kind is MinAfterAdl ==> r.unwrap() as int == min_after_adl_of(*self, is_long)
    { unimplemented!() }
}

pub struct DecreasePositionReport { pub should_remove: bool, pub tag: u64 }
impl DecreasePositionReport { pub fn should_remove(&self) -> (r: bool) ensures r == self.should_remove { self.should_remove } }

/// `RevertiblePosition`: its size and its market
pub struct RPos { pub size_in_usd: u128, pub mkt: RMarket, pub rest: u64 }
impl RPos {
    pub fn size_in_usd(&self) -> (r: &u128) ensures *r == self.size_in_usd { &self.size_in_usd }
    pub fn market(&self) -> (r: &RMarket) ensures *r == self.mkt { &self.mkt }
    #[verifier::external_body]
    pub fn collateral_price(&self, prices: &PricesP) -> (r: PriceRef) { unimplemented!() }
    /// ASSUMED CONTRACT of `position.decrease(prices, size, price, withdrawal, flags).map(|a| a.set_swap(t)).and_then(|a| a.execute())`,
    /// taken from the model-side contracts: DecreasePositionFlags::init (C07) rejects a size above the position size unless capping
    /// is allowed and caps it otherwise, and DecreasePosition::execute (C09 model side) removes the position when the effective
    /// size is the whole size. The flags are passed through (check_liquidation reads is_liquidation_order).
    #[verifier::external_body]
    pub fn decrease_and_execute(&mut self, prices: PricesP, size_delta_usd: u128, acceptable_price: Option<u128>, collateral_withdrawal_amount: u128, flags: DecreasePositionFlags, swap: DecreasePositionSwapType) -> (r: Result<DecreasePositionReport, E>)
        ensures r.is_ok() ==> (size_delta_usd <= old(self).size_in_usd || flags.is_cap_size_delta_usd_allowed),
            r.is_ok() && size_delta_usd >= old(self).size_in_usd ==> r.unwrap().should_remove && final(self).size_in_usd == 0,
    { unimplemented!() }
}
pub struct TradeData { pub tag: u64 }
impl TradeData {
    #[verifier::external_body]
    pub fn update_with_decrease_report(&mut self, report: &DecreasePositionReport, prices: &PricesP) -> (r: Result<(), E>) { unimplemented!() }
}
/// ASSUMED (under contract in C32): sizing of the collateral withdrawal, arbitrary here
#[verifier::external_body]
pub fn estimate_builder_fee_for_collateral_withdrawal(amount: u128, size_delta_usd: u128, builder_fee_factor: u128, price: PriceRef, swap: DecreasePositionSwapType) -> (r: Result<u128, E>) { unimplemented!() }

//@unit C09.store.execute_decrease_position
//@ file programs/store/src/ops/order.rs
//@ fn execute_decrease_position
//@ sig fn execute_decrease_position( oracle: &Oracle, prices: Prices<u128>, position: &mut RevertiblePosition<'_, '_>, swap_markets: &mut SwapMarkets<'_, '_>, transfer_out: &mut TransferOut, event: &mut TradeData, order: &mut Order, is_insolvent_close_allowed: bool, secondary_order_type: Option<SecondaryOrderType>, builder_fee_factor: u128, ) -> Result<(RemovePosition, u128)>
//@ cut_after event.update_with_decrease_report(&report, &prices)?; report }; :: Ok(report)
//@ sub (?s)let report = position\s*\.decrease\(\s*prices,\s*size_delta_usd,\s*Some\(acceptable_price\),\s*collateral_withdrawal_amount,\s*(DecreasePositionFlags \{.*?\}),\s*\)\s*\.map\(\|a\| a\.set_swap\(decrease_position_swap_type\)\)\s*\.and_then\(\|a\| a\.execute\(\)\)\s*\.map_err\(ModelError::from\)\?; => let report = position.decrease_and_execute(prices, size_delta_usd, Some(acceptable_price), collateral_withdrawal_amount, \1, decrease_position_swap_type)?;
//@ sub (?s)\.pnl_factor_exceeded\(([^;]*?)\)\s*\.map_err\(ModelError::from\)\?\s*\.map\(\|exceeded\| exceeded\.pnl_factor\) => .pnl_factor_exceeded(\1)?.map(|exceeded: PnlFactorExceeded| -> (o: i128) ensures o == exceeded.pnl_factor { exceeded.pnl_factor })
//@ sub (?s)\.pnl_factor\(([^;]*?)\)\s*\.map_err\(ModelError::from\)\?; => .pnl_factor(\1)?;
//@ sub (?s)\.pnl_factor_config\(([^;]*?)\)\s*\.and_then\(\|factor\| factor\.to_signed\(\)\)\s*\.map_err\(ModelError::from\)\?; => .pnl_factor_config_signed(\1)?;
//@ sub u128::from\(params\.initial_collateral_delta_amount\) => (params.initial_collateral_delta_amount as u128)
fn execute_decrease_position(prices: PricesP, position: &mut RPos, event: &mut TradeData, order: &mut Order, is_insolvent_close_allowed: bool, secondary_order_type: Option<SecondaryOrderType>, builder_fee_factor: u128) -> (r: Result<DecreasePositionReport, E>)
    ensures
        // a liquidation is executed only for a size covering the whole position, and it closes the whole position
        r.is_ok() && secondary_order_type == Some(SecondaryOrderType::Liquidation) ==> old(order).params.size_delta_value >= old(position).size_in_usd
            && r.unwrap().should_remove && final(position).size_in_usd == 0,
        // an auto-deleveraging order is executed only if the pnl factor exceeded its limit before, and only if the factor afterwards
        // is strictly lower and not below the configured minimum
        r.is_ok() && secondary_order_type == Some(SecondaryOrderType::AutoDeleveraging) ==> ({
            let l = old(order).params.side.unwrap().long;
            &&& exceeded_of(old(position).mkt, prices, l).is_some()
            &&& exceeded_of(old(position).mkt, prices, l).unwrap() > pnl_factor_of(final(position).mkt, prices, l)
            &&& pnl_factor_of(final(position).mkt, prices, l) >= min_after_adl_of(final(position).mkt, l)
        }),
        // the order itself is not modified here
        *final(order) == *old(order),
//@body
} // verus!
