//@include inc/model_base_u128.rs
//@include inc/price.rs
//@include inc/fee.rs
// =================================================================================================
// C05  A swap never pays out more value than it takes in, beyond capped impact
//      crates/model/src/action/swap.rs :: Swap::{try_execute, charge_fees, execute}
//      crates/model/src/pool/delta.rs  :: Delta::{new, new_with_long, new_with_short, new_one_side, new_both_sides, long, short}
//      crates/model/src/params/fee.rs  :: Fees accessors (FeeParams::apply_fees etc. are the C02 units, re-proved here)
//      Callee contracts assumed (listed in the evidence): Pool::checked_apply_delta (trait contract, store side: C15),
//      BaseMarketExt::checked_apply_delta, SwapMarketExt::{swap_impact_value, swap_impact_amount_with_cap} (sign facts only),
//      the three validations on the cache (fallible, no state), reassign_values / pool_delta_with_values (arbitrary results).
// =================================================================================================
verus! {
//@struct crates/model/src/market/base.rs :: pub enum PnlFactorKind ::
#[derive(Clone, Copy)]
pub enum PnlFactorKind { MaxAfterDeposit, MaxAfterWithdrawal, MaxForTrader, ForAdl, MinAfterAdl }
//@struct crates/model/src/price.rs :: pub struct Prices<T> :: index_token_price, long_token_price, short_token_price
#[derive(Clone, Copy)]
pub struct Prices { pub index_token_price: Price, pub long_token_price: Price, pub short_token_price: Price }

impl Fees {
//@unit C05.Fees.fee_amount_for_receiver
//@ file crates/model/src/params/fee.rs
//@ within impl<T> Fees<T>
//@ fn fee_amount_for_receiver
//@ sig fn fee_amount_for_receiver(&self) -> &T
    pub fn fee_amount_for_receiver(&self) -> (r: &N) ensures *r == self.fee_amount_for_receiver
//@body
//@unit C05.Fees.fee_amount_for_pool
//@ file crates/model/src/params/fee.rs
//@ within impl<T> Fees<T>
//@ fn fee_amount_for_pool
//@ sig fn fee_amount_for_pool(&self) -> &T
    pub fn fee_amount_for_pool(&self) -> (r: &N) ensures *r == self.fee_amount_for_pool
//@body
}

//@struct crates/model/src/pool/delta.rs :: pub struct Delta<T> :: long, short
/// `Delta<&T::Signed>` (the instance every use here has)
#[derive(Clone, Copy)]
pub struct Delta<'a> { pub long: Option<&'a S>, pub short: Option<&'a S> }
impl<'a> Delta<'a> {
//@unit C05.Delta.new
//@ file crates/model/src/pool/delta.rs
//@ within impl<T> Delta<T>
//@ fn new
//@ sig fn new(long: Option<T>, short: Option<T>) -> Self
    pub fn new(long: Option<&'a S>, short: Option<&'a S>) -> (r: Delta<'a>) ensures r.long == long, r.short == short
//@body
//@unit C05.Delta.new_with_long
//@ file crates/model/src/pool/delta.rs
//@ within impl<T> Delta<T>
//@ fn new_with_long
//@ sig fn new_with_long(amount: T) -> Self
    pub fn new_with_long(amount: &'a S) -> (r: Delta<'a>) ensures r.long == Some(amount), r.short.is_none()
//@body
//@unit C05.Delta.new_with_short
//@ file crates/model/src/pool/delta.rs
//@ within impl<T> Delta<T>
//@ fn new_with_short
//@ sig fn new_with_short(amount: T) -> Self
    pub fn new_with_short(amount: &'a S) -> (r: Delta<'a>) ensures r.short == Some(amount), r.long.is_none()
//@body
//@unit C05.Delta.new_one_side
//@ file crates/model/src/pool/delta.rs
//@ within impl<T> Delta<T>
//@ fn new_one_side
//@ sig fn new_one_side(is_long: bool, amount: T) -> Self
    pub fn new_one_side(is_long: bool, amount: &'a S) -> (r: Delta<'a>)
        ensures is_long ==> r.long == Some(amount) && r.short.is_none(), !is_long ==> r.short == Some(amount) && r.long.is_none()
//@body
//@unit C05.Delta.new_both_sides
//@ file crates/model/src/pool/delta.rs
//@ within impl<T> Delta<T>
//@ fn new_both_sides
//@ sig fn new_both_sides(is_long_first: bool, first: T, second: T) -> Self
    pub fn new_both_sides(is_long_first: bool, first: &'a S, second: &'a S) -> (r: Delta<'a>)
        ensures is_long_first ==> r.long == Some(first) && r.short == Some(second), !is_long_first ==> r.long == Some(second) && r.short == Some(first)
//@body
}
pub open spec fn dl(d: Delta) -> int { if d.long.is_some() { (*d.long.unwrap())@ } else { 0 } }
pub open spec fn ds(d: Delta) -> int { if d.short.is_some() { (*d.short.unwrap())@ } else { 0 } }

/// A two-sided pool of tokens (`Self::Pool`)
#[derive(Clone, Copy)]
pub struct Sides { pub long: N, pub short: N }
pub open spec fn side(p: Sides, is_long: bool) -> int { if is_long { p.long@ } else { p.short@ } }
pub struct PoolDelta { pub tag: u8 }
impl Sides {
    pub fn long_amount(&self) -> (r: Result<N, E>) ensures r.is_ok() && r.unwrap() == self.long { Ok(self.long) }
    pub fn short_amount(&self) -> (r: Result<N, E>) ensures r.is_ok() && r.unwrap() == self.short { Ok(self.short) }
    /// ASSUMED trait contract of `Pool::checked_apply_delta` (required method; the store-side pool is C15): both sides move
    /// by their delta, or the call fails
    #[verifier::external_body]
    pub fn checked_apply_delta(&self, delta: Delta) -> (r: Result<Sides, E>)
        ensures r.is_ok() ==> r.unwrap().long@ == self.long@ + dl(delta) && r.unwrap().short@ == self.short@ + ds(delta)
    { unimplemented!() }
    #[verifier::external_body]
    pub fn pool_delta_with_values(&self, long_value: S, short_value: S, long_price: &N, short_price: &N) -> (r: Result<PoolDelta, E>)
    { unimplemented!() }
}

//@struct crates/model/src/pool/delta.rs :: pub struct PriceImpact<T> :: value, balance_change
pub struct PriceImpact { pub value: S, pub balance_change: BalanceChange }

pub proof fn lemma_impact_pos(usd: int, pmax: int, m: int)
    requires usd > 0, pmax > 0, m >= 0
    ensures ({ let a = tdiv(usd, pmax); a == usd / pmax && a >= 0 && a * pmax <= usd && (a > m ==> (a - m) * pmax + m * pmax == a * pmax && (a - m) * pmax >= 0) })
{
    let a = usd / pmax;
    lemma_fundamental_div_mod(usd, pmax); lemma_mod_bound(usd, pmax); lemma_mul_is_commutative(pmax, a);
    lemma_div_pos_is_pos(usd, pmax);
    if a > m { lemma_mul_is_distributive_sub_other_way(pmax, a, m); lemma_mul_nonnegative(a - m, pmax); }
}
pub proof fn lemma_impact_neg(usd: int, pmin: int)
    requires usd < 0, pmin > 0
    ensures ({ let a = tdiv(usd - pmin + 1, pmin); a < 0 && (-a) * pmin >= -usd })
{
    let x = -usd + pmin - 1;   // > 0
    let q = x / pmin;
    lemma_fundamental_div_mod(x, pmin); lemma_mod_bound(x, pmin); lemma_mul_is_commutative(pmin, q);
    lemma_div_pos_is_pos(x, pmin);
    assert(tdiv(usd - pmin + 1, pmin) == -q);
    if q == 0 { lemma_basic_div(x, pmin); }
}
/// floor(x n / d) d <= x n
pub proof fn lemma_floor_le(x: int, n: int, d: int)
    requires x >= 0, n >= 0, d > 0
    ensures mul_div_floor(x, n, d) * d <= x * n, mul_div_floor(x, n, d) >= 0
{
    lemma_mul_nonnegative(x, n);
    lemma_fundamental_div_mod(x * n, d); lemma_mod_bound(x * n, d); lemma_mul_is_commutative(d, (x * n) / d);
    lemma_div_pos_is_pos(x * n, d);
}
/// what a swap with positive impact pays out is covered by the (augmented) input and the tokens taken from the output-side impact pool
pub proof fn lemma_funded_positive(tin: int, pool_out: int, pia: int, pin_min: int, pout_max: int)
    requires tin >= 0, pin_min >= 0, pout_max > 0, pool_out == mul_div_floor(tin, pin_min, pout_max)
    ensures (pool_out + pia) * pout_max <= tin * pin_min + pia * pout_max
{
    lemma_floor_le(tin, pin_min, pout_max);
    lemma_mul_is_distributive_add_other_way(pout_max, pool_out, pia);
}
/// the value bound of a swap with positive impact
pub proof fn lemma_positive_swap_value(af: int, cd: int, pool_out: int, pia: int, pin_min: int, pin_max: int, pout_max: int, capped: int, impact: int)
    requires af >= 0, cd >= 0, pia >= 0, 0 <= pin_min <= pin_max, pout_max > 0,
        pool_out == mul_div_floor(af + cd, pin_min, pout_max), cd * pin_max <= capped, pia * pout_max + capped <= impact
    ensures (pool_out + pia) * pout_max <= af * pin_min + impact
{
    lemma_floor_le(af + cd, pin_min, pout_max);
    lemma_mul_is_distributive_add_other_way(pin_min, af, cd);
    lemma_mul_inequality(pin_min, pin_max, cd); lemma_mul_is_commutative(cd, pin_min); lemma_mul_is_commutative(cd, pin_max);
    lemma_mul_is_distributive_add_other_way(pout_max, pool_out, pia);
}
/// Carrier for `M: SwapMarket(+Mut)`: the three pools a swap touches (+ the optional virtual inventory) and the reads
pub struct SMarket { pub liquidity: Sides, pub swap_impact: Sides, pub claimable_fee: Sides, pub virtual_inventory: Option<Sides>, pub fee_params: Option<FeeParams> }
/// what the market holds of one token: liquidity + swap impact pool + claimable fees
pub open spec fn holdings(m: SMarket, is_long: bool) -> int { side(m.liquidity, is_long) + side(m.swap_impact, is_long) + side(m.claimable_fee, is_long) }
impl SMarket {
    pub fn liquidity_pool(&self) -> (r: Result<&Sides, E>) ensures r.is_ok() ==> *r.unwrap() == self.liquidity { Ok(&self.liquidity) }
    pub fn swap_impact_pool(&self) -> (r: Result<&Sides, E>) ensures r.is_ok() ==> *r.unwrap() == self.swap_impact { Ok(&self.swap_impact) }
    pub fn claimable_fee_pool(&self) -> (r: Result<&Sides, E>) ensures r.is_ok() ==> *r.unwrap() == self.claimable_fee { Ok(&self.claimable_fee) }
    pub fn liquidity_pool_mut(&mut self) -> (r: Result<&mut Sides, E>)
        ensures r.is_ok(), *r.unwrap() == old(self).liquidity, *final(self) == (SMarket { liquidity: *final(r.unwrap()), ..*old(self) })
    { Ok(&mut self.liquidity) }
    pub fn swap_impact_pool_mut(&mut self) -> (r: Result<&mut Sides, E>)
        ensures r.is_ok(), *r.unwrap() == old(self).swap_impact, *final(self) == (SMarket { swap_impact: *final(r.unwrap()), ..*old(self) })
    { Ok(&mut self.swap_impact) }
    pub fn claimable_fee_pool_mut(&mut self) -> (r: Result<&mut Sides, E>)
        ensures r.is_ok(), *r.unwrap() == old(self).claimable_fee, *final(self) == (SMarket { claimable_fee: *final(r.unwrap()), ..*old(self) })
    { Ok(&mut self.claimable_fee) }
    /// the repository returns `Result<Option<impl DerefMut<Target = Pool>>>`; here `Option<&mut Sides>`
    pub fn virtual_inventory_for_swaps_pool_mut(&mut self) -> (r: Result<Option<&mut Sides>, E>)
        ensures r.is_ok(), r.unwrap().is_some() == old(self).virtual_inventory.is_some(),
            r.unwrap().is_some() ==> *r.unwrap().unwrap() == old(self).virtual_inventory.unwrap() && *final(self) == (SMarket { virtual_inventory: Some(*final(r.unwrap().unwrap())), ..*old(self) }),
            r.unwrap().is_none() ==> *final(self) == *old(self),
    { match &mut self.virtual_inventory { Some(x) => Ok(Some(x)), None => Ok(None) } }
    pub fn swap_fee_params(&self) -> (r: Result<&FeeParams, E>)
        ensures r.is_ok() == self.fee_params.is_some(), r.is_ok() ==> *r.unwrap() == self.fee_params.unwrap()
    { match &self.fee_params { Some(x) => Ok(x), None => Err(E::Other) } }
    /// ASSUMED: arbitrary price impact (SwapMarketExt::swap_impact_value: C03 for the formula)
    #[verifier::external_body]
    pub fn swap_impact_value(&self, delta: &PoolDelta, include_virtual_inventory_impact: bool) -> (r: Result<PriceImpact, E>)
    { unimplemented!() }
//@unit C05.SwapMarketExt.swap_impact_amount_with_cap
//@ file crates/model/src/market/swap.rs
//@ within pub trait SwapMarketExt<const DECIMALS: u8>: SwapMarket<DECIMALS>
//@ fn swap_impact_amount_with_cap
//@ sig fn swap_impact_amount_with_cap( &self, is_long_token: bool, price: &Price<Self::Num>, usd_impact: &Self::Signed, ) -> crate::Result<(Self::Signed, Self::Num)>
//@ top :: proof { if price.max@ > 0 && usd_impact@ > 0 { lemma_impact_pos(usd_impact@, price.max@, side(self.swap_impact, is_long_token)); } if price.min@ > 0 && usd_impact@ < 0 { lemma_impact_neg(usd_impact@, price.min@); } }
//@ sub \.map\(\|diff_amount\| diff_amount\.unsigned_abs\(\)\) => .map(|diff_amount: S| -> (o: N) requires diff_amount@ >= 0 ensures o@ == diff_amount@ { diff_amount.unsigned_abs() })
//@ sub \.and_then\(\|diff_amount\| diff_amount\.checked_mul\(price\.pick_price\(true\)\)\) => .and_then(|diff_amount: N| -> (o: Option<N>) ensures o.is_some() == (diff_amount@ * price.max@ <= umax()), o.is_some() ==> o.unwrap()@ == diff_amount@ * price.max@ { diff_amount.checked_mul(price.pick_price(true)) })
//@ sub \.and_then\(\|a\| a\.checked_add\(&one\)\?\.checked_div\(&price\)\) => .and_then(|a: S| -> (o: Option<S>) requires price@ > 0, one@ == 1 ensures o.is_some() ==> o.unwrap()@ == tdiv(a@ + 1, price@) { a.checked_add(&one)?.checked_div(&price) })
    pub fn swap_impact_amount_with_cap(&self, is_long_token: bool, price: &Price, usd_impact: &S) -> (r: Result<(S, N), E>)
        ensures
            r.is_ok() ==> price.min@ != 0 && price.max@ != 0,
            // positive impact: paid in tokens at the MAX price, rounded down, and only up to what the impact pool of that token
            // holds; the part that could not be paid is returned as a usd value
            r.is_ok() && usd_impact@ > 0 ==> 0 <= r.unwrap().0@ <= side(self.swap_impact, is_long_token)
                && r.unwrap().0@ * price.max@ + r.unwrap().1@ <= usd_impact@,
            // negative impact: charged in tokens at the MIN price, magnitude rounded up
            r.is_ok() && usd_impact@ < 0 ==> r.unwrap().0@ < 0 && r.unwrap().1@ == 0 && (-r.unwrap().0@) * price.min@ >= -usd_impact@,
            r.is_ok() && usd_impact@ == 0 ==> r.unwrap().0@ == 0 && r.unwrap().1@ == 0,
//@body

    /// ASSUMED (BaseMarketExt::checked_apply_delta): the liquidity pool moves by the delta; the virtual inventory, when there
    /// is one, is computed from the existing one
    #[verifier::external_body]
    pub fn checked_apply_delta(&self, delta: Delta) -> (r: Result<(Sides, Option<Sides>), E>)
        ensures r.is_ok() ==> r.unwrap().0.long@ == self.liquidity.long@ + dl(delta) && r.unwrap().0.short@ == self.liquidity.short@ + ds(delta)
            && (r.unwrap().1.is_some() ==> self.virtual_inventory.is_some())
    { unimplemented!() }
}

//@struct crates/model/src/action/swap.rs :: pub struct SwapParams<T> :: is_token_in_long, token_in_amount, prices
#[derive(Clone, Copy)]
pub struct SwapParams { pub is_token_in_long: bool, pub token_in_amount: N, pub prices: Prices }
impl SwapParams {
//@unit C05.SwapParams.long_token_price
//@ file crates/model/src/action/swap.rs
//@ within impl<T> SwapParams<T>
//@ fn long_token_price
//@ sig fn long_token_price(&self) -> &Price<T>
    pub fn long_token_price(&self) -> (r: &Price) ensures *r == self.prices.long_token_price
//@body
//@unit C05.SwapParams.short_token_price
//@ file crates/model/src/action/swap.rs
//@ within impl<T> SwapParams<T>
//@ fn short_token_price
//@ sig fn short_token_price(&self) -> &Price<T>
    pub fn short_token_price(&self) -> (r: &Price) ensures *r == self.prices.short_token_price
//@body
}
impl Price {
    /// glue: Price::mid (used only to build the pool delta for the impact value)
    #[verifier::external_body]
    pub fn mid(&self) -> (r: N) { unimplemented!() }
}

//@struct crates/model/src/action/swap.rs :: struct ReassignedValues<T: Unsigned> :: long_token_delta_value, short_token_delta_value, token_in_price, token_out_price, long_pnl_factor_kind, short_pnl_factor_kind
pub struct ReassignedValues { pub long_token_delta_value: S, pub short_token_delta_value: S, pub token_in_price: Price, pub token_out_price: Price,
                              pub long_pnl_factor_kind: PnlFactorKind, pub short_pnl_factor_kind: PnlFactorKind }
impl ReassignedValues {
//@unit C05.ReassignedValues.new
//@ file crates/model/src/action/swap.rs
//@ within impl<T: Unsigned> ReassignedValues<T>
//@ fn new
//@ sig fn new( long_token_delta_value: T::Signed, short_token_delta_value: T::Signed, token_in_price: Price<T>, token_out_price: Price<T>, long_pnl_factor_kind: PnlFactorKind, short_pnl_factor_kind: PnlFactorKind, ) -> Self
    fn new(long_token_delta_value: S, short_token_delta_value: S, token_in_price: Price, token_out_price: Price, long_pnl_factor_kind: PnlFactorKind, short_pnl_factor_kind: PnlFactorKind) -> (r: ReassignedValues)
        ensures r.token_in_price == token_in_price, r.token_out_price == token_out_price
//@body
}
//@struct crates/model/src/action/swap.rs :: struct SwapResult<Unsigned, Signed> :: token_in_fees, token_out_amount, price_impact_value, price_impact_amount
pub struct SwapResult { pub token_in_fees: Fees, pub token_out_amount: N, pub price_impact_value: S, pub price_impact_amount: N }
//@struct crates/model/src/action/swap.rs :: pub struct SwapReport<Unsigned, Signed> :: params, result
pub struct SwapReport { pub params: SwapParams, pub result: SwapResult }

/// the pools computed by try_execute, written to the market only by execute
pub struct Cache { pub liquidity: Sides, pub virtual_inventory: Option<Sides>, pub swap_impact: Sides, pub claimable_fee: Sides }
impl Cache {
    /// ASSUMED: the three validations read the cache and may fail; they change nothing
    #[verifier::external_body]
    pub fn validate_pool_amount(&self, is_long_token: bool) -> (r: Result<(), E>) { unimplemented!() }
    #[verifier::external_body]
    pub fn validate_reserve(&self, prices: &Prices, is_long: bool) -> (r: Result<(), E>) { unimplemented!() }
    #[verifier::external_body]
    pub fn validate_max_pnl(&self, prices: &Prices, long_kind: PnlFactorKind, short_kind: PnlFactorKind) -> (r: Result<(), E>) { unimplemented!() }
}
pub open spec fn cache_holdings(c: Cache, is_long: bool) -> int { side(c.liquidity, is_long) + side(c.swap_impact, is_long) + side(c.claimable_fee, is_long) }

/// out <= floor(token_in * price_in_min / price_out_max) + pia, i.e. out * price_out_max <= token_in * price_in_min + pia * price_out_max
pub open spec fn swap_out_bound(out: int, pout_max: int, token_in: int, pin_min: int, pia: int) -> bool { out * pout_max <= token_in * pin_min + pia * pout_max }
pub struct Swap { pub market: SMarket, pub params: SwapParams }
/// price of the input / output token, fees charged on the input
pub open spec fn pin_of(w: Swap) -> Price { if w.params.is_token_in_long { w.params.prices.long_token_price } else { w.params.prices.short_token_price } }
pub open spec fn pout_of(w: Swap) -> Price { if w.params.is_token_in_long { w.params.prices.short_token_price } else { w.params.prices.long_token_price } }
pub open spec fn fees_of(r: SwapResult) -> int { r.token_in_fees.fee_amount_for_pool@ + r.token_in_fees.fee_amount_for_receiver@ }
/// value paid out (at the max output price) <= value of the input after fees (at the min input price) + value released by the two
/// swap impact pools (`before` -> `after`): input-token side at the min input price, output-token side at the max output price
pub open spec fn funded(before: Sides, after: Sides, sw: Swap, res: SwapResult) -> bool {
    let il = sw.params.is_token_in_long;
    let d_in = side(before, il) - side(after, il);
    let d_out = side(before, !il) - side(after, !il);
    &&& d_out >= 0
    &&& res.token_out_amount@ * pout_of(sw).max@ <= (sw.params.token_in_amount@ - fees_of(res) + d_in) * pin_of(sw).min@ + d_out * pout_of(sw).max@
}
impl Swap {
//@unit C05.Swap.reassign_values
//@ file crates/model/src/action/swap.rs
//@ within impl<const DECIMALS: u8, M: SwapMarketMut<DECIMALS>> Swap<M, DECIMALS>
//@ fn reassign_values
//@ sig fn reassign_values(&self) -> crate::Result<ReassignedValues<M::Num>>
//@ sub let (long|short)_delta_value: M::Signed = self\s*\.params\s*\.token_in_amount\s*\.checked_mul\(&self\.params\.(long|short)_token_price\(\)\.mid\(\)\)\s*\.ok_or\(E::Computation\)\?\s*\.try_into\(\) => let \1_delta_value: S = S::try_from(self.params.token_in_amount.checked_mul(&self.params.\2_token_price().mid()).ok_or(E::Computation)?)
    fn reassign_values(&self) -> (r: Result<ReassignedValues, E>)
        ensures
            // the input token's price is the price of the side the swap comes in on; the output token's price is the other one
            r.is_ok() ==> r.unwrap().token_in_price == (if self.params.is_token_in_long { self.params.prices.long_token_price } else { self.params.prices.short_token_price })
                && r.unwrap().token_out_price == (if self.params.is_token_in_long { self.params.prices.short_token_price } else { self.params.prices.long_token_price }),
//@body

//@unit C05.Swap.charge_fees
//@ file crates/model/src/action/swap.rs
//@ within impl<const DECIMALS: u8, M: SwapMarketMut<DECIMALS>> Swap<M, DECIMALS>
//@ fn charge_fees
//@ sig fn charge_fees(&self, balance_change: BalanceChange) -> crate::Result<(M::Num, Fees<M::Num>)>
    fn charge_fees(&self, balance_change: BalanceChange) -> (r: Result<(N, Fees), E>)
        ensures
            // the input amount is split exactly into the amount after fees, the pool's fee and the receiver's fee (C02)
            r.is_ok() ==> r.unwrap().0@ + r.unwrap().1.fee_amount_for_pool@ + r.unwrap().1.fee_amount_for_receiver@ == self.params.token_in_amount@,
//@body

//@unit C05.Swap.try_execute
//@ file crates/model/src/action/swap.rs
//@ within impl<const DECIMALS: u8, M: SwapMarketMut<DECIMALS>> Swap<M, DECIMALS>
//@ fn try_execute
//@ sig fn try_execute( &self, ) -> crate::Result<( Cache<'_, M, DECIMALS>, SwapResult<M::Num, <M::Num as Unsigned>::Signed>, )>
//@ sub market: &self\.market,\n =>
//@ before token_out_amount = pool_amount_out.checked_add :: proof { lemma_positive_swap_value(amount_after_fees@, capped_diff_token_in_amount@, pool_amount_out@, price_impact_amount@, token_in_price.min@, token_in_price.max@, token_out_price.max@, capped_diff_value@, price_impact@); lemma_funded_positive(token_in_amount@, pool_amount_out@, price_impact_amount@, token_in_price.min@, token_out_price.max@); }
//@ before pool_amount_out = token_out_amount.clone(); :: proof { lemma_floor_le(token_in_amount@, token_in_price.min@, token_out_price.max@); lemma_mul_inequality(token_in_amount@, amount_after_fees@, token_in_price.min@); }
//@ sub assert\(!signed_price_impact_amount\.is_negative\(\)\); => assert(signed_price_impact_amount@ >= 0);
//@ sub assert\(!capped_diff_token_in_amount\.is_negative\(\)\); => assert(capped_diff_token_in_amount@ >= 0);
//@ sub assert\(!signed_price_impact_amount\.is_positive\(\)\); => assert(signed_price_impact_amount@ <= 0);
    fn try_execute(&self) -> (r: Result<(Cache, SwapResult), E>)
        requires
            // validated prices: min <= max on both tokens (Prices::validate at try_new)
            self.params.prices.long_token_price.min@ <= self.params.prices.long_token_price.max@,
            self.params.prices.short_token_price.min@ <= self.params.prices.short_token_price.max@,
        ensures
            // value out at the MAX output price <= value in (after fees) at the MIN input price + the positive price impact, of which
            // only what the swap impact pool of the output token holds is paid in output tokens
            r.is_ok() ==> pout_of(*self).max@ != 0 && fees_of(r.unwrap().1) <= self.params.token_in_amount@,
            r.is_ok() && r.unwrap().1.price_impact_value@ > 0 ==> r.unwrap().1.price_impact_amount@ <= side(self.market.swap_impact, !self.params.is_token_in_long),
            r.is_ok() && r.unwrap().1.price_impact_value@ > 0 ==> r.unwrap().1.token_out_amount@ * pout_of(*self).max@
                <= (self.params.token_in_amount@ - fees_of(r.unwrap().1)) * pin_of(*self).min@ + r.unwrap().1.price_impact_value@,
            r.is_ok() && r.unwrap().1.price_impact_value@ <= 0 ==> r.unwrap().1.token_out_amount@ * pout_of(*self).max@
                <= (self.params.token_in_amount@ - fees_of(r.unwrap().1)) * pin_of(*self).min@,
            // with zero fees and zero impact: the input converted at the least favourable prices, rounded down
            r.is_ok() && r.unwrap().1.price_impact_value@ == 0 && fees_of(r.unwrap().1) == 0 ==> r.unwrap().1.token_out_amount@ == mul_div_floor(self.params.token_in_amount@, pin_of(*self).min@, pout_of(*self).max@),
            // FUNDED: whatever is paid out beyond the value of the input (after fees) is released by the swap impact pools - the new
            // impact pools (the cache) hold exactly that much less
            r.is_ok() ==> funded(self.market.swap_impact, r.unwrap().0.swap_impact, *self, r.unwrap().1),
            r.is_ok() ==> (r.unwrap().0.virtual_inventory.is_some() ==> self.market.virtual_inventory.is_some()),
//@body

//@unit C05.Swap.execute
//@ file crates/model/src/action/swap.rs
//@ within impl<const DECIMALS: u8, M> MarketAction for Swap<M, DECIMALS>
//@ fn execute
//@ sig fn execute(mut self) -> crate::Result<Self::Report>
    fn execute(&mut self) -> (r: Result<SwapReport, E>)
        requires
            old(self).params.prices.long_token_price.min@ <= old(self).params.prices.long_token_price.max@,
            old(self).params.prices.short_token_price.min@ <= old(self).params.prices.short_token_price.max@,
        ensures
            // the market's swap impact pools are debited by what funded the payout (the computed pools are the ones stored)
            r.is_ok() ==> final(self).params == old(self).params && funded(old(self).market.swap_impact, final(self).market.swap_impact, *old(self), r.unwrap().result),
//@body

}
} // verus!
