//@prelude u128
// =================================================================================================
// C18  Role membership behaves like a set of grants gated by enabled roles
//      programs/store/src/states/roles.rs :: RoleMetadata::{new, name, enable, disable, set_enable, set_disable, is_enabled}
//                                            RoleStore::{enable_role, disable_role, role_index, enabled_role_index, has_role, grant, revoke}
//      programs/store/src/states/store.rs :: Store::{has_role, has_admin_role, is_authority}
//      Callee contracts ASSUMED here (the modular rule: a caller sees the callee's contract, not its body):
//        * the two fixed-capacity maps (gmsol_utils::fixed_map!): abstract-map contract = the statement of C34;
//        * stored names (fixed_str): accepted names read back unchanged = the statement of C35 (proved there by Kani);
//        * bitmaps::Bitmap<32> (external crate): bit i of a u32.
// =================================================================================================
verus! {
#[derive(Clone, Copy, Eq)]
pub struct Pubkey { pub hi: u128, pub lo: u128 }
impl PartialEqSpecImpl for Pubkey {
    open spec fn obeys_eq_spec() -> bool { true }
    open spec fn eq_spec(&self, other: &Pubkey) -> bool { *self == *other }
}
impl PartialEq for Pubkey {
    fn eq(&self, other: &Pubkey) -> (r: bool) { self.hi == other.hi && self.lo == other.lo }
}

/// A role name (`&str` in the repository): an abstract value with equality. `id` identifies the string.
#[derive(Clone, Copy, Eq)]
pub struct Name { pub id: u64 }
impl PartialEqSpecImpl for Name {
    open spec fn obeys_eq_spec() -> bool { true }
    open spec fn eq_spec(&self, other: &Name) -> bool { *self == *other }
}
impl PartialEq for Name {
    fn eq(&self, other: &Name) -> (r: bool) { self.id == other.id }
}
/// `gmsol_utils::fixed_map::to_key` = sha256 of the name: an arbitrary function, NOT assumed injective
pub uninterp spec fn key_of(n: Name) -> int;
/// which names `fixed_str_to_bytes::<32>` accepts (at most 32 bytes, no NUL): arbitrary predicate
pub uninterp spec fn storable(n: Name) -> bool;

/// the 32 stored bytes of a name; `of` is what they decode to, `readable` whether they decode at all
#[derive(Clone, Copy)]
pub struct NameBytes { pub of: Name, pub readable: bool }

pub const ROLE_ENABLED: u8 = 255;
//@const programs/store/src/states/roles.rs :: ROLE_ENABLED :: u8 = u8::MAX
//@const programs/store/src/states/roles.rs :: MAX_ROLES :: usize = 32
//@const programs/store/src/states/roles.rs :: MAX_MEMBERS :: usize = 64

//@struct programs/store/src/states/roles.rs :: pub struct RoleMetadata :: name, enabled, index
#[derive(Clone, Copy)]
pub struct RoleMetadata { pub name: NameBytes, pub enabled: u8, pub index: u8 }

impl RoleMetadata {
    /// ASSUMED (C35, proved there): `fixed_str_to_bytes` accepts exactly the storable names, and an accepted name reads
    /// back unchanged
    #[verifier::external_body]
    fn name_to_bytes(name: &Name) -> (r: Result<NameBytes, E>)
        ensures r.is_ok() == storable(*name), r.is_ok() ==> r.unwrap().of == *name && r.unwrap().readable
    { unimplemented!() }
    #[verifier::external_body]
    fn bytes_to_name(bytes: &NameBytes) -> (r: Result<&Name, E>)
        ensures r.is_ok() == bytes.readable, r.is_ok() ==> *r.unwrap() == bytes.of
    { unimplemented!() }

//@unit C18.RoleMetadata.new
//@ file programs/store/src/states/roles.rs
//@ within impl RoleMetadata
//@ fn new
//@ sig fn new(name: &str, index: u8) -> Result<Self>
//@ sub Self::ROLE_ENABLED => ROLE_ENABLED
    pub fn new(name: &Name, index: u8) -> (r: Result<RoleMetadata, E>)
        ensures r.is_ok() == storable(*name),
                r.is_ok() ==> r.unwrap().name.of == *name && r.unwrap().name.readable && r.unwrap().enabled == ROLE_ENABLED && r.unwrap().index == index
//@body

//@unit C18.RoleMetadata.name
//@ file programs/store/src/states/roles.rs
//@ within impl RoleMetadata
//@ fn name
//@ sig fn name(&self) -> Result<&str>
    pub fn name(&self) -> (r: Result<&Name, E>)
        ensures r.is_ok() == self.name.readable, r.is_ok() ==> *r.unwrap() == self.name.of
//@body

//@unit C18.RoleMetadata.enable
//@ file programs/store/src/states/roles.rs
//@ within impl RoleMetadata
//@ fn enable
//@ sig fn enable(&mut self) -> Result<()>
    pub fn enable(&mut self) -> (r: Result<(), E>)
        ensures r.is_ok() == (old(self).enabled != ROLE_ENABLED),
                r.is_ok() ==> *final(self) == (RoleMetadata { enabled: ROLE_ENABLED, ..*old(self) }),
                r.is_err() ==> *final(self) == *old(self)
//@body

//@unit C18.RoleMetadata.disable
//@ file programs/store/src/states/roles.rs
//@ within impl RoleMetadata
//@ fn disable
//@ sig fn disable(&mut self) -> Result<()>
    pub fn disable(&mut self) -> (r: Result<(), E>)
        ensures r.is_ok() == (old(self).enabled == ROLE_ENABLED),
                r.is_ok() ==> *final(self) == (RoleMetadata { enabled: 0, ..*old(self) }),
                r.is_err() ==> *final(self) == *old(self)
//@body

//@unit C18.RoleMetadata.set_enable
//@ file programs/store/src/states/roles.rs
//@ within impl RoleMetadata
//@ fn set_enable
//@ sig fn set_enable(&mut self)
//@ sub Self::ROLE_ENABLED => ROLE_ENABLED
    fn set_enable(&mut self)
        ensures *final(self) == (RoleMetadata { enabled: ROLE_ENABLED, ..*old(self) })
//@body

//@unit C18.RoleMetadata.set_disable
//@ file programs/store/src/states/roles.rs
//@ within impl RoleMetadata
//@ fn set_disable
//@ sig fn set_disable(&mut self)
    fn set_disable(&mut self)
        ensures *final(self) == (RoleMetadata { enabled: 0, ..*old(self) })
//@body

//@unit C18.RoleMetadata.is_enabled
//@ file programs/store/src/states/roles.rs
//@ within impl RoleMetadata
//@ fn is_enabled
//@ sig fn is_enabled(&self) -> bool
//@ sub Self::ROLE_ENABLED => ROLE_ENABLED
    pub fn is_enabled(&self) -> (r: bool)
        ensures r == (self.enabled == ROLE_ENABLED)
//@body
}

// ---- ASSUMED contract of bitmaps::Bitmap<32> (external crate) --------------------------------------------------
pub open spec fn bit(v: u32, i: int) -> bool { (v >> (i as u32)) & 1u32 == 1u32 }
#[derive(Clone, Copy)]
pub struct RoleBitmap { pub v: u32 }
impl RoleBitmap {
    #[verifier::external_body]
    pub fn new() -> (r: RoleBitmap) ensures r.v == 0, forall|j: int| 0 <= j < 32 ==> !#[trigger] bit(r.v, j) { unimplemented!() }
    #[verifier::external_body]
    pub fn from_value(v: u32) -> (r: RoleBitmap) ensures r.v == v { unimplemented!() }
    #[verifier::external_body]
    pub fn into_value(self) -> (r: u32) ensures r == self.v { unimplemented!() }
    #[verifier::external_body]
    pub fn get(&self, index: usize) -> (r: bool) requires index < 32 ensures r == bit(self.v, index as int) { unimplemented!() }
    #[verifier::external_body]
    pub fn set(&mut self, index: usize, value: bool) -> (prev: bool)
        requires index < 32
        ensures forall|j: int| #![trigger bit(final(self).v, j)] #![trigger bit(old(self).v, j)] 0 <= j < 32 ==> bit(final(self).v, j) == (if j == index { value } else { bit(old(self).v, j) }),
                value ==> final(self).v != 0,     // a consequence of the line above (lemma_zero_iff_no_bit), stated for the callers
    { unimplemented!() }
    #[verifier::external_body]
    pub fn is_empty(&self) -> (r: bool) ensures r == (self.v == 0), r ==> forall|j: int| 0 <= j < 32 ==> !#[trigger] bit(self.v, j) { unimplemented!() }
}
/// a value is zero exactly when no bit of it is set
pub proof fn lemma_zero_iff_no_bit(v: u32)
    ensures v == 0 <==> (forall|j: int| 0 <= j < 32 ==> !#[trigger] bit(v, j))
{
    if v != 0 {
        assert(exists|j: u32| j < 32 && (v >> j) & 1u32 == 1u32) by (bit_vector) requires v != 0;
        let j = choose|j: u32| j < 32 && (v >> j) & 1u32 == 1u32;
        assert(bit(v, j as int));
    } else {
        assert(forall|j: u32| j < 32 ==> (0u32 >> j) & 1u32 != 1u32) by (bit_vector);
        assert forall|j: int| 0 <= j < 32 implies !#[trigger] bit(v, j) by { let k = j as u32; assert((0u32 >> k) & 1u32 != 1u32); }
    }
}

// ---- ASSUMED contract of the two fixed-capacity maps (statement of C34: sorted-map semantics until full) ------------
pub struct RoleMap { pub m: Ghost<Map<int, RoleMetadata>> }
impl RoleMap {
    pub open spec fn wf(&self) -> bool { self.m@.dom().finite() }
    #[verifier::external_body]
    pub fn get(&self, key: &Name) -> (r: Option<&RoleMetadata>)
        ensures r.is_some() == self.m@.contains_key(key_of(*key)), r.is_some() ==> *r.unwrap() == self.m@[key_of(*key)]
    { unimplemented!() }
    #[verifier::external_body]
    pub fn get_mut(&mut self, key: &Name) -> (r: Option<&mut RoleMetadata>)
        ensures
            r.is_some() == old(self).m@.contains_key(key_of(*key)),
            r.is_some() ==> *r.unwrap() == old(self).m@[key_of(*key)] && final(self).m@ == old(self).m@.insert(key_of(*key), *final(r.unwrap())),
            r.is_none() ==> final(self).m@ == old(self).m@,
    { unimplemented!() }
    #[verifier::external_body]
    pub fn insert_with_options(&mut self, key: &Name, value: RoleMetadata, new: bool) -> (r: Result<Option<RoleMetadata>, E>)
        requires old(self).wf()
        ensures
            final(self).wf(),
            old(self).m@.contains_key(key_of(*key)) && new ==> r.is_err(),
            !old(self).m@.contains_key(key_of(*key)) && old(self).m@.dom().len() >= 32 ==> r.is_err(),
            !old(self).m@.contains_key(key_of(*key)) && old(self).m@.dom().len() < 32 ==> r.is_ok() && r.unwrap().is_none(),
            old(self).m@.contains_key(key_of(*key)) && !new ==> r.is_ok() && r.unwrap() == Some(old(self).m@[key_of(*key)]),
            r.is_ok() ==> final(self).m@ == old(self).m@.insert(key_of(*key), value),
            r.is_err() ==> final(self).m@ == old(self).m@,
    { unimplemented!() }
    #[verifier::external_body]
    pub fn len(&self) -> (r: usize)
        requires self.wf()
        ensures r == self.m@.dom().len(), r <= 32
    { unimplemented!() }
}
pub struct Members { pub m: Ghost<Map<Pubkey, u32>> }
impl Members {
    pub open spec fn wf(&self) -> bool { self.m@.dom().finite() }
    #[verifier::external_body]
    pub fn get(&self, key: &Pubkey) -> (r: Option<&u32>)
        ensures r.is_some() == self.m@.contains_key(*key), r.is_some() ==> *r.unwrap() == self.m@[*key]
    { unimplemented!() }
    #[verifier::external_body]
    pub fn get_mut(&mut self, key: &Pubkey) -> (r: Option<&mut u32>)
        ensures
            r.is_some() == old(self).m@.contains_key(*key),
            r.is_some() ==> *r.unwrap() == old(self).m@[*key] && final(self).m@ == old(self).m@.insert(*key, *final(r.unwrap())),
            r.is_none() ==> final(self).m@ == old(self).m@,
    { unimplemented!() }
    #[verifier::external_body]
    pub fn insert_with_options(&mut self, key: &Pubkey, value: u32, new: bool) -> (r: Result<Option<u32>, E>)
        requires old(self).wf()
        ensures
            final(self).wf(),
            old(self).m@.contains_key(*key) && new ==> r.is_err(),
            !old(self).m@.contains_key(*key) && old(self).m@.dom().len() >= 64 ==> r.is_err(),
            !old(self).m@.contains_key(*key) && old(self).m@.dom().len() < 64 ==> r.is_ok() && r.unwrap().is_none(),
            old(self).m@.contains_key(*key) && !new ==> r.is_ok() && r.unwrap() == Some(old(self).m@[*key]),
            r.is_ok() ==> final(self).m@ == old(self).m@.insert(*key, value),
            r.is_err() ==> final(self).m@ == old(self).m@,
    { unimplemented!() }
    #[verifier::external_body]
    pub fn remove(&mut self, key: &Pubkey) -> (r: Option<u32>)
        requires old(self).wf()
        ensures
            final(self).wf(),
            r.is_some() == old(self).m@.contains_key(*key), r.is_some() ==> r.unwrap() == old(self).m@[*key],
            final(self).m@ == old(self).m@.remove(*key),
    { unimplemented!() }
}

//@struct programs/store/src/states/roles.rs :: pub struct RoleStore :: roles, members
pub struct RoleStore { pub roles: RoleMap, pub members: Members }

// ---- the statement's vocabulary --------------------------------------------------------------------------------
/// the role table knows `role` (an entry under its key whose stored name reads back as `role`)
pub open spec fn known(s: RoleStore, role: Name) -> bool {
    s.roles.m@.contains_key(key_of(role)) && s.roles.m@[key_of(role)].name.readable && s.roles.m@[key_of(role)].name.of == role
}
pub open spec fn enabled(s: RoleStore, role: Name) -> bool { known(s, role) && s.roles.m@[key_of(role)].enabled == ROLE_ENABLED }
pub open spec fn index_of(s: RoleStore, role: Name) -> int { s.roles.m@[key_of(role)].index as int }
/// `addr` was granted `role` and it has not been revoked since (the grant bit of the role's index is set)
pub open spec fn granted(s: RoleStore, addr: Pubkey, role: Name) -> bool {
    known(s, role) && s.members.m@.contains_key(addr) && bit(s.members.m@[addr], index_of(s, role))
}
/// the statement: an address holds a role exactly when the role is enabled and granted
pub open spec fn holds(s: RoleStore, addr: Pubkey, role: Name) -> bool { enabled(s, role) && granted(s, addr, role) }
/// representation invariant: finite maps, every role index below 32 and below the number of roles, distinct entries have
/// distinct indexes, and a member has at least one grant bit
pub open spec fn store_wf(s: RoleStore) -> bool {
    &&& s.roles.wf() && s.members.wf()
    &&& forall|k: int| s.roles.m@.contains_key(k) ==> (#[trigger] s.roles.m@[k]).index < s.roles.m@.dom().len() && s.roles.m@[k].index < 32
    &&& forall|k1: int, k2: int| s.roles.m@.contains_key(k1) && s.roles.m@.contains_key(k2) && k1 != k2 ==> (#[trigger] s.roles.m@[k1]).index != (#[trigger] s.roles.m@[k2]).index
    &&& forall|a: Pubkey| s.members.m@.contains_key(a) ==> #[trigger] s.members.m@[a] != 0
    // no grant bit at an index that no role has yet
    &&& forall|a: Pubkey, j: int| s.members.m@.contains_key(a) && s.roles.m@.dom().len() <= j < 32 ==> !#[trigger] bit(s.members.m@[a], j)
}
/// the empty (zeroed) role store
pub proof fn lemma_empty_store_wf(s: RoleStore)
    requires s.roles.m@ == Map::<int, RoleMetadata>::empty(), s.members.m@ == Map::<Pubkey, u32>::empty()
    ensures store_wf(s), forall|a: Pubkey, r: Name| !holds(s, a, r)
{
}

impl RoleStore {
//@unit C18.RoleStore.enable_role
//@ file programs/store/src/states/roles.rs
//@ within impl RoleStore
//@ fn enable_role
//@ sig fn enable_role(&mut self, role: &str) -> Result<()>
    pub fn enable_role(&mut self, role: &Name) -> (r: Result<(), E>)
        requires store_wf(*old(self))
        ensures
            store_wf(*final(self)),
            // enabling an enabled role fails; a failed call has no side effects
            enabled(*old(self), *role) ==> r.is_err(),
            r.is_err() ==> final(self).roles.m@ == old(self).roles.m@ && final(self).members.m@ == old(self).members.m@,
            // success: the role is enabled; no grant changes (members untouched, indexes of known roles kept)
            r.is_ok() ==> enabled(*final(self), *role) && final(self).members.m@ == old(self).members.m@,
            r.is_ok() ==> forall|k: int| old(self).roles.m@.contains_key(k) && k != key_of(*role) ==> final(self).roles.m@.contains_key(k) && final(self).roles.m@[k] == old(self).roles.m@[k],
            r.is_ok() && known(*old(self), *role) ==> index_of(*final(self), *role) == index_of(*old(self), *role),
            // a new role gets a fresh index: nobody holds it before it is granted
            r.is_ok() && !old(self).roles.m@.contains_key(key_of(*role)) ==> forall|a: Pubkey| !#[trigger] granted(*final(self), a, *role),
//@body

//@unit C18.RoleStore.disable_role
//@ file programs/store/src/states/roles.rs
//@ within impl RoleStore
//@ fn disable_role
//@ sig fn disable_role(&mut self, role: &str) -> Result<()>
    pub fn disable_role(&mut self, role: &Name) -> (r: Result<(), E>)
        requires store_wf(*old(self))
        ensures
            store_wf(*final(self)),
            r.is_err() ==> final(self).roles.m@ == old(self).roles.m@ && final(self).members.m@ == old(self).members.m@,
            final(self).members.m@ == old(self).members.m@,
            // success on a known role: it is disabled now, nothing else changes
            r.is_ok() && known(*old(self), *role) ==> !enabled(*final(self), *role) && known(*final(self), *role) && index_of(*final(self), *role) == index_of(*old(self), *role),
            r.is_ok() ==> forall|k: int| k != key_of(*role) ==> final(self).roles.m@.contains_key(k) == old(self).roles.m@.contains_key(k) && (old(self).roles.m@.contains_key(k) ==> final(self).roles.m@[k] == old(self).roles.m@[k]),
            // disabling a disabled role fails
            known(*old(self), *role) && !enabled(*old(self), *role) ==> r.is_err(),
//@body

//@unit C18.RoleStore.role_index
//@ file programs/store/src/states/roles.rs
//@ within impl RoleStore
//@ fn role_index
//@ sig fn role_index(&self, role: &str) -> Result<Option<u8>>
    pub fn role_index(&self, role: &Name) -> (r: Result<Option<u8>, E>)
        ensures
            r.is_ok() && r.unwrap().is_some() ==> known(*self, *role) && r.unwrap().unwrap() == index_of(*self, *role),
            r.is_ok() && r.unwrap().is_none() ==> !self.roles.m@.contains_key(key_of(*role)),
            known(*self, *role) ==> r.is_ok() && r.unwrap().is_some(),
//@body

//@unit C18.RoleStore.enabled_role_index
//@ file programs/store/src/states/roles.rs
//@ within impl RoleStore
//@ fn enabled_role_index
//@ sig fn enabled_role_index(&self, role: &str) -> Result<Option<u8>>
    pub fn enabled_role_index(&self, role: &Name) -> (r: Result<Option<u8>, E>)
        ensures
            r.is_ok() && r.unwrap().is_some() ==> enabled(*self, *role) && r.unwrap().unwrap() == index_of(*self, *role),
            r.is_ok() && r.unwrap().is_none() ==> !self.roles.m@.contains_key(key_of(*role)),
            enabled(*self, *role) ==> r.is_ok() && r.unwrap().is_some(),
//@body

//@unit C18.RoleStore.has_role
//@ file programs/store/src/states/roles.rs
//@ within impl RoleStore
//@ fn has_role
//@ sig fn has_role(&self, authority: &Pubkey, role: &str) -> Result<bool>
    pub fn has_role(&self, authority: &Pubkey, role: &Name) -> (r: Result<bool, E>)
        requires store_wf(*self)
        ensures
            // an address holds a role exactly when the role is enabled and the address was granted it and not revoked since
            (r.is_ok() && r.unwrap()) <==> holds(*self, *authority, *role),
            // for a member and an enabled role the answer is definite
            self.members.m@.contains_key(*authority) && enabled(*self, *role) ==> r.is_ok(),
//@body

//@unit C18.RoleStore.grant
//@ file programs/store/src/states/roles.rs
//@ within impl RoleStore
//@ fn grant
//@ sig fn grant(&mut self, authority: &Pubkey, role: &str) -> Result<()>
    pub fn grant(&mut self, authority: &Pubkey, role: &Name) -> (r: Result<(), E>)
        requires store_wf(*old(self))
        ensures
            store_wf(*final(self)),
            final(self).roles.m@ == old(self).roles.m@,
            // granting an already-held role fails; only enabled roles can be granted; a failed call has no side effects
            granted(*old(self), *authority, *role) ==> r.is_err(),
            !enabled(*old(self), *role) ==> r.is_err(),
            r.is_err() ==> final(self).members.m@ == old(self).members.m@,
            // success: exactly this grant is added
            r.is_ok() ==> granted(*final(self), *authority, *role),
            r.is_ok() ==> forall|a: Pubkey, j: int| 0 <= j < 32 && !(a == *authority && j == index_of(*old(self), *role)) ==>
                (final(self).members.m@.contains_key(a) && #[trigger] bit(final(self).members.m@[a], j)) == (old(self).members.m@.contains_key(a) && bit(old(self).members.m@[a], j)),
//@body

//@unit C18.RoleStore.revoke
//@ file programs/store/src/states/roles.rs
//@ within impl RoleStore
//@ fn revoke
//@ sig fn revoke(&mut self, authority: &Pubkey, role: &str) -> Result<()>
    pub fn revoke(&mut self, authority: &Pubkey, role: &Name) -> (r: Result<(), E>)
        requires store_wf(*old(self))
        ensures
            store_wf(*final(self)),
            final(self).roles.m@ == old(self).roles.m@,
            // revoking an absent grant fails without side effects
            !granted(*old(self), *authority, *role) ==> r.is_err(),
            r.is_err() ==> final(self).members.m@ == old(self).members.m@,
            // success: exactly this grant is removed ...
            r.is_ok() ==> !granted(*final(self), *authority, *role),
            r.is_ok() ==> forall|a: Pubkey, j: int| 0 <= j < 32 && !(a == *authority && j == index_of(*old(self), *role)) ==>
                (final(self).members.m@.contains_key(a) && #[trigger] bit(final(self).members.m@[a], j)) == (old(self).members.m@.contains_key(a) && bit(old(self).members.m@[a], j)),
            // ... and an address whose last role is revoked stops being a member (carried by store_wf: members have a grant)
//@body
}

// ---- Store: the restart rule -----------------------------------------------------------------------------------
/// the `LastRestartSlot` sysvar: one uninterpreted value per call (no source change: the read is a fallible glue fn)
pub uninterp spec fn last_restart_slot_spec() -> u64;
/// whether the sysvar can be read at all (it always can on a live cluster; a failed read fails the whole call)
pub uninterp spec fn sysvar_readable() -> bool;
pub struct LastRestartSlotValue { pub last_restart_slot: u64 }
#[verifier::external_body]
pub fn last_restart_slot_get() -> (r: Result<LastRestartSlotValue, E>)
    ensures r.is_ok() == sysvar_readable(), r.is_ok() ==> r.unwrap().last_restart_slot == last_restart_slot_spec()
{ unimplemented!() }
pub const RESTART_ADMIN_NAME: Name = Name { id: 1 };
/// `gmsol_utils::role::RoleKey::RESTART_ADMIN` (a `&'static str` constant): the name of the restart-admin role
pub struct RoleKey;
impl RoleKey { pub const RESTART_ADMIN: &'static Name = &RESTART_ADMIN_NAME; }

/// carrier for Store: the fields these three functions read
pub struct Store { pub authority: Pubkey, pub role: RoleStore, pub last_restarted_slot: u64 }
pub open spec fn restarted(s: Store) -> bool { s.last_restarted_slot != last_restart_slot_spec() }
impl Store {
//@unit C18.Store.has_restarted
//@ file programs/store/src/states/store.rs
//@ within impl Store
//@ fn has_restarted
//@ sig fn has_restarted(&self) -> Result<bool>
//@ sub LastRestartSlot::get\(\)\? => last_restart_slot_get()?
    pub fn has_restarted(&self) -> (r: Result<bool, E>)
        ensures r.is_ok() == sysvar_readable(), r.is_ok() ==> r.unwrap() == restarted(*self)
//@body

//@unit C18.Store.is_authority
//@ file programs/store/src/states/store.rs
//@ within impl Store
//@ fn is_authority
//@ sig fn is_authority(&self, authority: &Pubkey) -> bool
    pub fn is_authority(&self, authority: &Pubkey) -> (r: bool)
        ensures r == (self.authority == *authority)
//@body

//@unit C18.Store.has_role
//@ file programs/store/src/states/store.rs
//@ within impl Store
//@ fn has_role
//@ sig fn has_role(&self, authority: &Pubkey, role: &str) -> Result<bool>
    pub fn has_role(&self, authority: &Pubkey, role: &Name) -> (r: Result<bool, E>)
        requires store_wf(self.role)
        ensures
            // after a cluster restart only restart admins are authorised, and they are authorised for every role
            r.is_ok() && r.unwrap() && restarted(*self) ==> holds(self.role, *authority, RESTART_ADMIN_NAME),
            sysvar_readable() && restarted(*self) && holds(self.role, *authority, RESTART_ADMIN_NAME) ==> r.is_ok() && r.unwrap(),
            restarted(*self) && r.is_ok() ==> r.unwrap(),
            // otherwise: exactly the holders of the role
            r.is_ok() && r.unwrap() && !restarted(*self) ==> holds(self.role, *authority, *role),
            sysvar_readable() && !restarted(*self) && holds(self.role, *authority, *role) ==> r.is_ok() && r.unwrap(),
//@body

//@unit C18.Store.has_admin_role
//@ file programs/store/src/states/store.rs
//@ within impl Store
//@ fn has_admin_role
//@ sig fn has_admin_role(&self, authority: &Pubkey) -> Result<bool>
    pub fn has_admin_role(&self, authority: &Pubkey) -> (r: Result<bool, E>)
        requires store_wf(self.role)
        ensures
            // the store authority always remains an admin
            self.authority == *authority ==> r.is_ok() && r.unwrap(),
            // anybody else: only a restart admin, and only while a restart is pending
            self.authority != *authority && r.is_ok() && r.unwrap() ==> restarted(*self) && holds(self.role, *authority, RESTART_ADMIN_NAME),
            self.authority != *authority && sysvar_readable() && restarted(*self) && holds(self.role, *authority, RESTART_ADMIN_NAME) ==> r.is_ok() && r.unwrap(),
//@body
}
} // verus!
