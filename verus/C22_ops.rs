//@prelude u128
// =================================================================================================
// C22 (the call sites in the liquidity operations)  programs/store/src/ops/market.rs - two BLOCK units:
//      Execute::unchecked_deposit  :: `let minted = { .. };`                       the deposit action, then the balance validation
//      Execute::unchecked_withdraw :: `let (long_amount, short_amount) = { .. };`  the withdrawal action, then the validation
//      The rest of the two operations (swaps of the initial / final tokens, first-deposit checks, the transfers) is dropped
//      (logged). Assumed: the model action chain `self.market.deposit(..).and_then(|d| .. .execute()).map_err(..)?` is ONE call
//      that changes the market arbitrarily and returns an arbitrary report (the actions: C06); validate_market_balances
//      (its meaning: verus/C22.rs) establishes an uninterpreted predicate of the market state it ran on and its two arguments;
//      event CPIs are fallible calls that do not touch the market.
// =================================================================================================
verus! {
pub struct PricesC { pub tag: u8 }
pub struct MarketC { pub version: Ghost<int> }
/// what a successful validate_market_balances(excluded_long, excluded_short) establishes for the market state it ran on
pub uninterp spec fn balances_ok(m: MarketC, excluded_long: u64, excluded_short: u64) -> bool;
pub struct DepositReportC { pub minted: u128 }
impl DepositReportC { pub fn minted(&self) -> (r: &u128) ensures *r == self.minted { &self.minted } }
pub struct WithdrawReportC { pub long_out: u128, pub short_out: u128 }
impl WithdrawReportC {
    pub fn long_token_output(&self) -> (r: &u128) ensures *r == self.long_out { &self.long_out }
    pub fn short_token_output(&self) -> (r: &u128) ensures *r == self.short_out { &self.short_out }
}
impl MarketC {
    /// ASSUMED: the model deposit action on the revertible market (C06): changes the market, returns a report, or fails
    #[verifier::external_body]
    pub fn run_deposit(&mut self, long: u128, short: u128, prices: PricesC, include_vi: bool) -> (r: Result<DepositReportC, E>) { unimplemented!() }
    #[verifier::external_body]
    pub fn run_withdraw(&mut self, amount: u128, prices: PricesC) -> (r: Result<WithdrawReportC, E>) { unimplemented!() }
    #[verifier::external_body]
    pub fn validate_market_balances(&self, excluded_long: u64, excluded_short: u64) -> (r: Result<(), E>)
        ensures r.is_ok() ==> balances_ok(*self, excluded_long, excluded_short)
    { unimplemented!() }
}
pub struct DepositParamsC { pub tag: u8 }
impl DepositParamsC {
    #[verifier::external_body]
    pub fn validate_market_token_amount(&self, minted: u64) -> (r: Result<(), E>) { unimplemented!() }
}
pub struct WithdrawParamsC { pub market_token_amount: u64 }
#[verifier::external_body]
pub fn emit_executed() -> (r: Result<(), E>) { unimplemented!() }
pub struct Exec { pub market: MarketC }

impl Exec {
//@unit C22.unchecked_deposit.deposit_block
//@ file programs/store/src/ops/market.rs
//@ within impl<'a, 'info, T> Execute<'a, 'info, T>
//@ fn unchecked_deposit
//@ sig fn unchecked_deposit( mut self, receiver: &Pubkey, market_token_receiver: &'a AccountInfo<'info>, params: &DepositActionParams, initial_tokens: (Option<Pubkey>, Option<Pubkey>), swap_pricing_kind: Option<SwapPricingKind>, include_virtual_inventory_impact: bool, ) -> Result<Execute<'a, 'info, u64>>
//@ block let minted = { :: ; Ok(minted)
//@ sub self\s*\.market\s*\.deposit\(long_token_amount\.into\(\), short_token_amount\.into\(\), prices\)[\s\S]*?\.map_err\(ModelError::from\)\?; => self.market.run_deposit(long_token_amount as u128, short_token_amount as u128, prices, include_virtual_inventory_impact)?;
//@ sub self\.event_emitter\.emit_cpi\(&DepositExecuted::from_report\([\s\S]*?\)\)\?; => emit_executed()?;
    fn deposit_block(&mut self, long_token_amount: u64, short_token_amount: u64, prices: PricesC, params: &DepositParamsC, include_virtual_inventory_impact: bool) -> (r: Result<u64, E>)
        ensures
            // AFTER the deposit action, the market the operation goes on with has had its balances validated (nothing excluded:
            // the deposited tokens are already in the vault), and nothing changed it afterwards
            r.is_ok() ==> balances_ok(final(self).market, 0, 0),
//@body

//@unit C22.unchecked_withdraw.withdrawal_block
//@ file programs/store/src/ops/market.rs
//@ within impl<'a, 'info, T> Execute<'a, 'info, T>
//@ fn unchecked_withdraw
//@ sig fn unchecked_withdraw( mut self, market_token_vault: &'a AccountInfo<'info>, params: &WithdrawalActionParams, final_tokens: (Pubkey, Pubkey), swap_pricing_kind: Option<SwapPricingKind>, ) -> Result<Execute<'a, 'info, (u64, u64)>>
//@ block let (long_amount, short_amount) = { :: ; Ok((long_amount, short_amount))
//@ sub self\s*\.market\s*\.withdraw\(params\.market_token_amount\.into\(\), prices\)[\s\S]*?\.map_err\(ModelError::from\)\?; => self.market.run_withdraw(params.market_token_amount as u128, prices)?;
//@ sub let \(long_amount, short_amount\) = \( => let (long_amount, short_amount): (u64, u64) = (
//@ sub self\.event_emitter\s*\.emit_cpi\(&WithdrawalExecuted::from_report\([\s\S]*?\)\)\?; => emit_executed()?;
    fn withdrawal_block(&mut self, params: &WithdrawParamsC, prices: PricesC) -> (r: Result<(u64, u64), E>)
        ensures
            // AFTER the withdrawal action the balances are validated with EXACTLY the two amounts that are about to leave the vault
            // excluded - the amounts this block hands on - and nothing changed the market afterwards
            r.is_ok() ==> balances_ok(final(self).market, r.unwrap().0, r.unwrap().1),
//@body
}
} // verus!
