//@include inc/model_base_u128.rs
//@include inc/price.rs
//@include inc/fee.rs
// =================================================================================================
// C04  A swap moves exactly the traded tokens and is all-or-nothing
//      crates/model/src/action/swap.rs :: Swap::{try_execute, charge_fees, execute}
//      crates/model/src/pool/delta.rs  :: Delta::{new, new_with_long, new_with_short, new_one_side, new_both_sides, long, short}
//      crates/model/src/params/fee.rs  :: Fees accessors (FeeParams::apply_fees etc. are the C02 units, re-proved here)
//      Callee contracts assumed (listed in the evidence): Pool::checked_apply_delta (trait contract, store side: C15),
//      BaseMarketExt::checked_apply_delta, SwapMarketExt::{swap_impact_value, swap_impact_amount_with_cap} (sign facts only),
//      the three validations on the cache (fallible, no state), reassign_values / pool_delta_with_values (arbitrary results).
// =================================================================================================
verus! {
//@struct crates/model/src/market/base.rs :: pub enum PnlFactorKind ::
#[derive(Clone, Copy)]
pub enum PnlFactorKind { MaxAfterDeposit, MaxAfterWithdrawal, MaxForTrader, ForAdl, MinAfterAdl }
//@struct crates/model/src/price.rs :: pub struct Prices<T> :: index_token_price, long_token_price, short_token_price
#[derive(Clone, Copy)]
pub struct Prices { pub index_token_price: Price, pub long_token_price: Price, pub short_token_price: Price }

impl Fees {
//@unit C04.Fees.fee_amount_for_receiver
//@ file crates/model/src/params/fee.rs
//@ within impl<T> Fees<T>
//@ fn fee_amount_for_receiver
//@ sig fn fee_amount_for_receiver(&self) -> &T
    pub fn fee_amount_for_receiver(&self) -> (r: &N) ensures *r == self.fee_amount_for_receiver
//@body
//@unit C04.Fees.fee_amount_for_pool
//@ file crates/model/src/params/fee.rs
//@ within impl<T> Fees<T>
//@ fn fee_amount_for_pool
//@ sig fn fee_amount_for_pool(&self) -> &T
    pub fn fee_amount_for_pool(&self) -> (r: &N) ensures *r == self.fee_amount_for_pool
//@body
}

//@struct crates/model/src/pool/delta.rs :: pub struct Delta<T> :: long, short
/// `Delta<&T::Signed>` (the instance every use here has)
#[derive(Clone, Copy)]
pub struct Delta<'a> { pub long: Option<&'a S>, pub short: Option<&'a S> }
impl<'a> Delta<'a> {
//@unit C04.Delta.new
//@ file crates/model/src/pool/delta.rs
//@ within impl<T> Delta<T>
//@ fn new
//@ sig fn new(long: Option<T>, short: Option<T>) -> Self
    pub fn new(long: Option<&'a S>, short: Option<&'a S>) -> (r: Delta<'a>) ensures r.long == long, r.short == short
//@body
//@unit C04.Delta.new_with_long
//@ file crates/model/src/pool/delta.rs
//@ within impl<T> Delta<T>
//@ fn new_with_long
//@ sig fn new_with_long(amount: T) -> Self
    pub fn new_with_long(amount: &'a S) -> (r: Delta<'a>) ensures r.long == Some(amount), r.short.is_none()
//@body
//@unit C04.Delta.new_with_short
//@ file crates/model/src/pool/delta.rs
//@ within impl<T> Delta<T>
//@ fn new_with_short
//@ sig fn new_with_short(amount: T) -> Self
    pub fn new_with_short(amount: &'a S) -> (r: Delta<'a>) ensures r.short == Some(amount), r.long.is_none()
//@body
//@unit C04.Delta.new_one_side
//@ file crates/model/src/pool/delta.rs
//@ within impl<T> Delta<T>
//@ fn new_one_side
//@ sig fn new_one_side(is_long: bool, amount: T) -> Self
    pub fn new_one_side(is_long: bool, amount: &'a S) -> (r: Delta<'a>)
        ensures is_long ==> r.long == Some(amount) && r.short.is_none(), !is_long ==> r.short == Some(amount) && r.long.is_none()
//@body
//@unit C04.Delta.new_both_sides
//@ file crates/model/src/pool/delta.rs
//@ within impl<T> Delta<T>
//@ fn new_both_sides
//@ sig fn new_both_sides(is_long_first: bool, first: T, second: T) -> Self
    pub fn new_both_sides(is_long_first: bool, first: &'a S, second: &'a S) -> (r: Delta<'a>)
        ensures is_long_first ==> r.long == Some(first) && r.short == Some(second), !is_long_first ==> r.long == Some(second) && r.short == Some(first)
//@body
}
pub open spec fn dl(d: Delta) -> int { if d.long.is_some() { (*d.long.unwrap())@ } else { 0 } }
pub open spec fn ds(d: Delta) -> int { if d.short.is_some() { (*d.short.unwrap())@ } else { 0 } }

/// A two-sided pool of tokens (`Self::Pool`)
#[derive(Clone, Copy)]
pub struct Sides { pub long: N, pub short: N }
pub open spec fn side(p: Sides, is_long: bool) -> int { if is_long { p.long@ } else { p.short@ } }
pub struct PoolDelta { pub tag: u8 }
impl Sides {
    /// ASSUMED trait contract of `Pool::checked_apply_delta` (required method; the store-side pool is C15): both sides move
    /// by their delta, or the call fails
    #[verifier::external_body]
    pub fn checked_apply_delta(&self, delta: Delta) -> (r: Result<Sides, E>)
        ensures r.is_ok() ==> r.unwrap().long@ == self.long@ + dl(delta) && r.unwrap().short@ == self.short@ + ds(delta)
    { unimplemented!() }
    #[verifier::external_body]
    pub fn pool_delta_with_values(&self, long_value: S, short_value: S, long_price: &N, short_price: &N) -> (r: Result<PoolDelta, E>)
    { unimplemented!() }
}

//@struct crates/model/src/pool/delta.rs :: pub struct PriceImpact<T> :: value, balance_change
pub struct PriceImpact { pub value: S, pub balance_change: BalanceChange }

/// Carrier for `M: SwapMarket(+Mut)`: the three pools a swap touches (+ the optional virtual inventory) and the reads
pub struct SMarket { pub liquidity: Sides, pub swap_impact: Sides, pub claimable_fee: Sides, pub virtual_inventory: Option<Sides>, pub fee_params: Option<FeeParams> }
/// what the market holds of one token: liquidity + swap impact pool + claimable fees
pub open spec fn holdings(m: SMarket, is_long: bool) -> int { side(m.liquidity, is_long) + side(m.swap_impact, is_long) + side(m.claimable_fee, is_long) }
impl SMarket {
    pub fn liquidity_pool(&self) -> (r: Result<&Sides, E>) ensures r.is_ok() ==> *r.unwrap() == self.liquidity { Ok(&self.liquidity) }
    pub fn swap_impact_pool(&self) -> (r: Result<&Sides, E>) ensures r.is_ok() ==> *r.unwrap() == self.swap_impact { Ok(&self.swap_impact) }
    pub fn claimable_fee_pool(&self) -> (r: Result<&Sides, E>) ensures r.is_ok() ==> *r.unwrap() == self.claimable_fee { Ok(&self.claimable_fee) }
    pub fn liquidity_pool_mut(&mut self) -> (r: Result<&mut Sides, E>)
        ensures r.is_ok(), *r.unwrap() == old(self).liquidity, *final(self) == (SMarket { liquidity: *final(r.unwrap()), ..*old(self) })
    { Ok(&mut self.liquidity) }
    pub fn swap_impact_pool_mut(&mut self) -> (r: Result<&mut Sides, E>)
        ensures r.is_ok(), *r.unwrap() == old(self).swap_impact, *final(self) == (SMarket { swap_impact: *final(r.unwrap()), ..*old(self) })
    { Ok(&mut self.swap_impact) }
    pub fn claimable_fee_pool_mut(&mut self) -> (r: Result<&mut Sides, E>)
        ensures r.is_ok(), *r.unwrap() == old(self).claimable_fee, *final(self) == (SMarket { claimable_fee: *final(r.unwrap()), ..*old(self) })
    { Ok(&mut self.claimable_fee) }
    /// the repository returns `Result<Option<impl DerefMut<Target = Pool>>>`; here `Option<&mut Sides>`
    pub fn virtual_inventory_for_swaps_pool_mut(&mut self) -> (r: Result<Option<&mut Sides>, E>)
        ensures r.is_ok(), r.unwrap().is_some() == old(self).virtual_inventory.is_some(),
            r.unwrap().is_some() ==> *r.unwrap().unwrap() == old(self).virtual_inventory.unwrap() && *final(self) == (SMarket { virtual_inventory: Some(*final(r.unwrap().unwrap())), ..*old(self) }),
            r.unwrap().is_none() ==> *final(self) == *old(self),
    { match &mut self.virtual_inventory { Some(x) => Ok(Some(x)), None => Ok(None) } }
    pub fn swap_fee_params(&self) -> (r: Result<&FeeParams, E>)
        ensures r.is_ok() == self.fee_params.is_some(), r.is_ok() ==> *r.unwrap() == self.fee_params.unwrap()
    { match &self.fee_params { Some(x) => Ok(x), None => Err(E::Other) } }
    /// ASSUMED: arbitrary price impact (SwapMarketExt::swap_impact_value: C03 for the formula)
    #[verifier::external_body]
    pub fn swap_impact_value(&self, delta: &PoolDelta, include_virtual_inventory_impact: bool) -> (r: Result<PriceImpact, E>)
    { unimplemented!() }
    /// ASSUMED (SwapMarketExt::swap_impact_amount_with_cap): the amount has the sign of the usd impact; the capped difference
    /// is an unsigned value. (Its cap by the impact pool is not needed for conservation: the pool update is checked.)
    #[verifier::external_body]
    pub fn swap_impact_amount_with_cap(&self, is_long_token: bool, price: &Price, usd_impact: &S) -> (r: Result<(S, N), E>)
        ensures r.is_ok() && usd_impact@ > 0 ==> r.unwrap().0@ >= 0, r.is_ok() && usd_impact@ <= 0 ==> r.unwrap().0@ <= 0
    { unimplemented!() }
    /// ASSUMED (BaseMarketExt::checked_apply_delta): the liquidity pool moves by the delta; the virtual inventory, when there
    /// is one, is computed from the existing one
    #[verifier::external_body]
    pub fn checked_apply_delta(&self, delta: Delta) -> (r: Result<(Sides, Option<Sides>), E>)
        ensures r.is_ok() ==> r.unwrap().0.long@ == self.liquidity.long@ + dl(delta) && r.unwrap().0.short@ == self.liquidity.short@ + ds(delta)
            && (r.unwrap().1.is_some() ==> self.virtual_inventory.is_some())
    { unimplemented!() }
}

//@struct crates/model/src/action/swap.rs :: pub struct SwapParams<T> :: is_token_in_long, token_in_amount, prices
#[derive(Clone, Copy)]
pub struct SwapParams { pub is_token_in_long: bool, pub token_in_amount: N, pub prices: Prices }
impl SwapParams {
//@unit C04.SwapParams.long_token_price
//@ file crates/model/src/action/swap.rs
//@ within impl<T> SwapParams<T>
//@ fn long_token_price
//@ sig fn long_token_price(&self) -> &Price<T>
    pub fn long_token_price(&self) -> (r: &Price) ensures *r == self.prices.long_token_price
//@body
//@unit C04.SwapParams.short_token_price
//@ file crates/model/src/action/swap.rs
//@ within impl<T> SwapParams<T>
//@ fn short_token_price
//@ sig fn short_token_price(&self) -> &Price<T>
    pub fn short_token_price(&self) -> (r: &Price) ensures *r == self.prices.short_token_price
//@body
}
impl Price {
    /// glue: Price::mid (used only to build the pool delta for the impact value)
    #[verifier::external_body]
    pub fn mid(&self) -> (r: N) { unimplemented!() }
}

pub struct ReassignedValues { pub long_token_delta_value: S, pub short_token_delta_value: S, pub token_in_price: Price, pub token_out_price: Price,
                              pub long_pnl_factor_kind: PnlFactorKind, pub short_pnl_factor_kind: PnlFactorKind }
//@struct crates/model/src/action/swap.rs :: struct SwapResult<Unsigned, Signed> :: token_in_fees, token_out_amount, price_impact_value, price_impact_amount
pub struct SwapResult { pub token_in_fees: Fees, pub token_out_amount: N, pub price_impact_value: S, pub price_impact_amount: N }
//@struct crates/model/src/action/swap.rs :: pub struct SwapReport<Unsigned, Signed> :: params, result
pub struct SwapReport { pub params: SwapParams, pub result: SwapResult }

/// the pools computed by try_execute, written to the market only by execute
pub struct Cache { pub liquidity: Sides, pub virtual_inventory: Option<Sides>, pub swap_impact: Sides, pub claimable_fee: Sides }
impl Cache {
    /// ASSUMED: the three validations read the cache and may fail; they change nothing
    #[verifier::external_body]
    pub fn validate_pool_amount(&self, is_long_token: bool) -> (r: Result<(), E>) { unimplemented!() }
    #[verifier::external_body]
    pub fn validate_reserve(&self, prices: &Prices, is_long: bool) -> (r: Result<(), E>) { unimplemented!() }
    #[verifier::external_body]
    pub fn validate_max_pnl(&self, prices: &Prices, long_kind: PnlFactorKind, short_kind: PnlFactorKind) -> (r: Result<(), E>) { unimplemented!() }
}
pub open spec fn cache_holdings(c: Cache, is_long: bool) -> int { side(c.liquidity, is_long) + side(c.swap_impact, is_long) + side(c.claimable_fee, is_long) }

pub struct Swap { pub market: SMarket, pub params: SwapParams }
impl Swap {
    /// ASSUMED: arbitrary (prices and delta values for the impact computation; not needed for conservation)
    #[verifier::external_body]
    fn reassign_values(&self) -> (r: Result<ReassignedValues, E>) { unimplemented!() }

//@unit C04.Swap.charge_fees
//@ file crates/model/src/action/swap.rs
//@ within impl<const DECIMALS: u8, M: SwapMarketMut<DECIMALS>> Swap<M, DECIMALS>
//@ fn charge_fees
//@ sig fn charge_fees(&self, balance_change: BalanceChange) -> crate::Result<(M::Num, Fees<M::Num>)>
    fn charge_fees(&self, balance_change: BalanceChange) -> (r: Result<(N, Fees), E>)
        ensures
            // the input amount is split exactly into the amount after fees, the pool's fee and the receiver's fee (C02)
            r.is_ok() ==> r.unwrap().0@ + r.unwrap().1.fee_amount_for_pool@ + r.unwrap().1.fee_amount_for_receiver@ == self.params.token_in_amount@,
//@body

//@unit C04.Swap.try_execute
//@ file crates/model/src/action/swap.rs
//@ within impl<const DECIMALS: u8, M: SwapMarketMut<DECIMALS>> Swap<M, DECIMALS>
//@ fn try_execute
//@ sig fn try_execute( &self, ) -> crate::Result<( Cache<'_, M, DECIMALS>, SwapResult<M::Num, <M::Num as Unsigned>::Signed>, )>
//@ sub market: &self\.market,\n =>
//@ sub assert\(!signed_price_impact_amount\.is_negative\(\)\); => assert(signed_price_impact_amount@ >= 0);
//@ sub assert\(!capped_diff_token_in_amount\.is_negative\(\)\); => assert(capped_diff_token_in_amount@ >= 0);
//@ sub assert\(!signed_price_impact_amount\.is_positive\(\)\); => assert(signed_price_impact_amount@ <= 0);
    fn try_execute(&self) -> (r: Result<(Cache, SwapResult), E>)
        ensures
            // the new pools hold exactly the input amount more of the input token ...
            r.is_ok() ==> cache_holdings(r.unwrap().0, self.params.is_token_in_long) == holdings(self.market, self.params.is_token_in_long) + self.params.token_in_amount@,
            // ... and exactly the amount paid out less of the output token
            r.is_ok() ==> cache_holdings(r.unwrap().0, !self.params.is_token_in_long) == holdings(self.market, !self.params.is_token_in_long) - r.unwrap().1.token_out_amount@,
            r.is_ok() ==> (r.unwrap().0.virtual_inventory.is_some() ==> self.market.virtual_inventory.is_some()),
//@body

//@unit C04.Swap.execute
//@ file crates/model/src/action/swap.rs
//@ within impl<const DECIMALS: u8, M> MarketAction for Swap<M, DECIMALS>
//@ fn execute
//@ sig fn execute(mut self) -> crate::Result<Self::Report>
    fn execute(&mut self) -> (r: Result<SwapReport, E>)
        ensures
            // a successful swap increases the holdings of the input token by exactly the input amount and decreases the holdings
            // of the output token by exactly the amount paid out
            r.is_ok() ==> holdings(final(self).market, old(self).params.is_token_in_long) == holdings(old(self).market, old(self).params.is_token_in_long) + old(self).params.token_in_amount@,
            r.is_ok() ==> holdings(final(self).market, !old(self).params.is_token_in_long) == holdings(old(self).market, !old(self).params.is_token_in_long) - r.unwrap().result.token_out_amount@,
            // a failed swap leaves every pool of the market unchanged
            r.is_err() ==> final(self).market == old(self).market,
//@body
}
} // verus!
