//@include inc/model_base_u128.rs
//@include inc/price.rs
//@include inc/perp_tracked.rs
//@include inc/increase_position.rs
// =================================================================================================
// C07  Open interest and collateral totals always match the open positions  (per-operation deltas)
//      crates/model/src/position.rs                 :: PositionMutExt::update_open_interest
//      crates/model/src/market/perp.rs              :: PerpMarketMutExt::apply_delta_to_open_interest
//      crates/model/src/action/increase_position.rs :: IncreasePosition::{execute, process_collateral, initialize_position_if_empty}
//      crates/model/src/action/decrease_position/mod.rs :: DecreasePosition::execute is in verus/C07_decrease.rs
// =================================================================================================
verus! {
impl Pos {
    /// ASSUMED here (read-only; under contract in C09)
    #[verifier::external_body]
    pub fn validate(&self, prices: &Prices, a: bool, b: bool) -> (r: Result<(), E>) { unimplemented!() }
}
impl IncreasePosition {
//@unit C07.IncreasePosition.get_execution_params
//@ file crates/model/src/action/increase_position.rs
//@ within impl<const DECIMALS: u8, P: PositionMut<DECIMALS>> IncreasePosition<P, DECIMALS>
//@ fn get_execution_params
//@ sig fn get_execution_params(&self) -> crate::Result<ExecutionParamsWithPriceImpact<P::Num>>
//@ sub price_impact: Default::default\(\), => price_impact: Self::default_price_impact(),
//@ cut_after price_impact: Default::default(), }); } :: self.get_execution_params_for_nonzero_size()
    fn get_execution_params(&self) -> (r: Result<ExecutionParamsWithPriceImpact, E>)
        ensures
            // an increase of zero size has a zero token delta
            r.is_ok() && self.params.size_delta_usd@ == 0 ==> r.unwrap().execution.size_delta_in_tokens@ == 0,
//@body

//@unit C07.IncreasePosition.collateral_price
//@ file crates/model/src/action/increase_position.rs
//@ within impl<const DECIMALS: u8, P: PositionMut<DECIMALS>> IncreasePosition<P, DECIMALS>
//@ fn collateral_price
//@ sig fn collateral_price(&self) -> &Price<P::Num>
    fn collateral_price(&self) -> (r: &Price)
//@body

//@unit C07.IncreasePosition.initialize_position_if_empty
//@ file crates/model/src/action/increase_position.rs
//@ within impl<const DECIMALS: u8, P: PositionMut<DECIMALS>> IncreasePosition<P, DECIMALS>
//@ fn initialize_position_if_empty
//@ sig fn initialize_position_if_empty(&mut self) -> crate::Result<()>
//@ loop 1: invariant _k21 <= 2, old(self).position.size_in_usd@ == 0, self.params == old(self).params, self.position.mkt == old(self).position.mkt, self.position.size_in_usd == old(self).position.size_in_usd, self.position.size_in_tokens@ == 0, self.position.collateral_amount == old(self).position.collateral_amount, self.position.long == old(self).position.long, self.position.collateral_long == old(self).position.collateral_long, self.position.tb_log == old(self).position.tb_log, self.position.borrowing_factor == old(self).position.borrowing_factor, decreases 2 - _k21,
    fn initialize_position_if_empty(&mut self) -> (r: Result<(), E>)
        ensures
            // sizes, collateral and the market are untouched, except that an empty position gets zero tokens
            final(self).params == old(self).params, final(self).position.mkt == old(self).position.mkt,
            final(self).position.size_in_usd == old(self).position.size_in_usd, final(self).position.collateral_amount == old(self).position.collateral_amount,
            final(self).position.long == old(self).position.long, final(self).position.collateral_long == old(self).position.collateral_long,
            old(self).position.size_in_usd@ != 0 ==> final(self).position.size_in_tokens == old(self).position.size_in_tokens,
            r.is_ok() && old(self).position.size_in_usd@ == 0 ==> final(self).position.size_in_tokens@ == 0,
            // the borrowing state is not touched here
            final(self).position.tb_log == old(self).position.tb_log && final(self).position.borrowing_factor == old(self).position.borrowing_factor,
//@body

//@unit C07.IncreasePosition.process_collateral
//@ file crates/model/src/action/increase_position.rs
//@ within impl<const DECIMALS: u8, P: PositionMut<DECIMALS>> IncreasePosition<P, DECIMALS>
//@ fn process_collateral
//@ sig fn process_collateral( &mut self, price_impact: &PriceImpact<P::Signed>, ) -> crate::Result<(P::Signed, PositionFees<P::Num>)>
//@ sub use num_traits::CheckedSub; =>
    fn process_collateral(&mut self, price_impact: &PriceImpact) -> (r: Result<(S, PositionFees), E>)
        ensures
            // the collateral total of the position's side and collateral token moves by exactly the returned delta
            r.is_ok() ==> col(final(self).position.mkt, old(self).position.long, old(self).position.collateral_long)
                    == col(old(self).position.mkt, old(self).position.long, old(self).position.collateral_long) + r.unwrap().0@
                && col(final(self).position.mkt, old(self).position.long, !old(self).position.collateral_long) == col(old(self).position.mkt, old(self).position.long, !old(self).position.collateral_long)
                && col(final(self).position.mkt, !old(self).position.long, true) == col(old(self).position.mkt, !old(self).position.long, true)
                && col(final(self).position.mkt, !old(self).position.long, false) == col(old(self).position.mkt, !old(self).position.long, false)
                && final(self).position.mkt.t.oi_long == old(self).position.mkt.t.oi_long && final(self).position.mkt.t.oi_short == old(self).position.mkt.t.oi_short
                && final(self).position.mkt.t.oit_long == old(self).position.mkt.t.oit_long && final(self).position.mkt.t.oit_short == old(self).position.mkt.t.oit_short,
            // the position's own fields are not touched here
            final(self).params == old(self).params, final(self).position == (Pos { mkt: final(self).position.mkt, ..old(self).position }),
//@body

//@unit C07.IncreasePosition.execute
//@ file crates/model/src/action/increase_position.rs
//@ within impl<const DECIMALS: u8, P: PositionMut<DECIMALS>> MarketAction for IncreasePosition<P, DECIMALS>
//@ fn execute
//@ sig fn execute(mut self) -> crate::Result<Self::Report>
//@ sub \.ok_or\(\{\s*if is_collateral_delta_positive \{\s*E::Computation\s*\} else \{\s*E::InvalidArgument\s*\}\s*\}\) => .ok_or(if is_collateral_delta_positive { E::Computation } else { E::InvalidArgument })
//@ loop 1: invariant _k21 <= 2, self.params == old(self).params, self.position.mkt == mkt1, self.position.size_in_usd == usd1, self.position.size_in_tokens == tok1, self.position.collateral_amount == col1, self.position.long == old(self).position.long, self.position.collateral_long == old(self).position.collateral_long, self.position.tb_log == tb1, self.position.borrowing_factor == bf1, decreases 2 - _k21,
//@ before let _arr21 = [true, false]; :: let ghost mkt1 = self.position.mkt; let ghost usd1 = self.position.size_in_usd; let ghost tok1 = self.position.size_in_tokens; let ghost col1 = self.position.collateral_amount; let ghost tb1 = self.position.tb_log; let ghost bf1 = self.position.borrowing_factor;
    fn execute(&mut self) -> (r: Result<IncreasePositionReport, E>)
        requires pos_wf(old(self).position)
        ensures
            r.is_ok() ==> ({
                let p0 = old(self).position; let p1 = final(self).position; let (l, c) = (p0.long, p0.collateral_long);
                let d_usd = old(self).params.size_delta_usd@; let d_tok = r.unwrap().execution.size_delta_in_tokens@; let d_col = r.unwrap().collateral_delta_amount@;
                // the position's size (usd and tokens) and its side's open interest grow by the same amounts
                &&& p1.size_in_usd@ == p0.size_in_usd@ + d_usd && oi(p1.mkt, l, c) == oi(p0.mkt, l, c) + d_usd
                &&& p1.size_in_tokens@ == p0.size_in_tokens@ + d_tok && oit(p1.mkt, l, c) == oit(p0.mkt, l, c) + d_tok
                // the position's collateral and its side's collateral total move by the same amount
                &&& p1.collateral_amount@ == p0.collateral_amount@ + d_col && col(p1.mkt, l, c) == col(p0.mkt, l, c) + d_col
                // no other side / collateral token is touched
                &&& oi(p1.mkt, l, !c) == oi(p0.mkt, l, !c) && oi(p1.mkt, !l, true) == oi(p0.mkt, !l, true) && oi(p1.mkt, !l, false) == oi(p0.mkt, !l, false)
                &&& oit(p1.mkt, l, !c) == oit(p0.mkt, l, !c) && oit(p1.mkt, !l, true) == oit(p0.mkt, !l, true) && oit(p1.mkt, !l, false) == oit(p0.mkt, !l, false)
                &&& col(p1.mkt, l, !c) == col(p0.mkt, l, !c) && col(p1.mkt, !l, true) == col(p0.mkt, !l, true) && col(p1.mkt, !l, false) == col(p0.mkt, !l, false)
                &&& p1.long == l && p1.collateral_long == c
                // BORROWING ORDER (C13): the total borrowing is updated exactly once, while the position STILL HOLDS its old size and
                // borrowing factor, and with exactly the size and factor the position ends with
                &&& p1.tb_log@ == p0.tb_log@.push(TbUpdate { prev_size: p0.size_in_usd, prev_factor: p0.borrowing_factor, next_size: p1.size_in_usd, next_factor: p1.borrowing_factor })
            }),
//@body
}
} // verus!
