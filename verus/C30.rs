//@include inc/model_base_u128.rs
//@include inc/glue_u128.rs
// =================================================================================================
// C30  GT balances, mint cost and user ranks stay consistent  (programs/store/src/states/gt.rs)
// =================================================================================================
//@const programs/store/src/constants/mod.rs :: MARKET_DECIMALS :: u8 = Decimal::MAX_DECIMALS
//@const programs/store/src/states/gt.rs :: MAX_RANK :: usize = 15
verus! {

// Carriers: the fields these functions read or write (zero-copy paddings and unrelated config left out;
// a body touching any other field does not compile here => exit 2, never a pass).
//@struct programs/store/src/states/gt.rs :: pub struct GtState :: decimals, padding_0, last_minted_at, total_minted, grow_step_amount, grow_steps, supply, last_cumulative_inv_cost_factor_ts, gt_vault, cumulative_inv_cost_factor, minting_cost_grow_factor, minting_cost, padding_3, exchange_time_window, padding_4, max_rank, ranks, order_fee_discount_factors, referral_reward_factors, padding_5, reserved
pub struct GtState {
    pub last_minted_at: i64, pub total_minted: u64, pub grow_step_amount: u64, pub grow_steps: u64, pub supply: u64,
    pub minting_cost_grow_factor: u128, pub minting_cost: u128, pub max_rank: u64, pub ranks: [u64; 15],
    pub last_cumulative_inv_cost_factor_ts: i64, pub cumulative_inv_cost_factor: u128,
}
/// solana Clock sysvar: only the field read here. `Clock::get()` is an arbitrary (possibly failing) read.
pub struct Clock { pub unix_timestamp: i64 }
#[verifier::external_body]
pub fn clock_get() -> (r: Result<Clock, E>) { unimplemented!() }
/// `AsClock::from(&ts).passed_in_seconds()` (market clock helper: now - ts, failing on a negative span): arbitrary here.
#[verifier::external_body]
pub fn passed_in_seconds(ts: &i64) -> (r: Result<u64, E>) { unimplemented!() }
/// glue: u128-typed forwarding wrapper to the N-level verified `div_to_factor`
pub fn div_to_factor_p(value: &u128, divisor: &u128, round_up_magnitude: bool) -> (r: Option<u128>)
{ match div_to_factor(&N(*value), &N(*divisor), round_up_magnitude) { Some(x) => Some(x.0), None => None } }
//@struct programs/store/src/states/user.rs :: pub struct UserGtState :: rank, padding_0, last_minted_at, total_minted, amount, padding_1, paid_fee_value, minted_fee_value, reserved
pub struct UserGtState { pub rank: u8, pub last_minted_at: i64, pub total_minted: u64, pub amount: u64 }
pub struct UserHeader { pub gt: UserGtState }

/// cost after `k` growth steps: cost_{i+1} = floor(cost_i * grow_factor / 10^20)
pub open spec fn cost_after(cost: int, factor: int, k: nat) -> int decreases k {
    if k == 0 { cost } else { mul_div_floor(cost_after(cost, factor, (k - 1) as nat), factor, uunit()) }
}
/// every intermediate cost fits the number type
pub open spec fn cost_fits(cost: int, factor: int, k: nat) -> bool decreases k {
    if k == 0 { true } else { cost_fits(cost, factor, (k - 1) as nat) && cost_after(cost, factor, k) <= umax() }
}

/// "the minting cost depends only on the total minted, not on how minting was split":
/// growing by a steps and then by b steps is growing by a + b steps.
pub proof fn lemma_cost_split(cost: int, factor: int, a: nat, b: nat)
    ensures cost_after(cost_after(cost, factor, a), factor, b) == cost_after(cost, factor, a + b)
    decreases b
{
    if b > 0 {
        lemma_cost_split(cost, factor, a, (b - 1) as nat);
        assert(a + b - 1 == a + (b - 1) as nat);
    }
}

impl GtState {
//@unit C30.GtState.next_minting_cost
//@ file programs/store/src/states/gt.rs
//@ within impl GtState
//@ fn next_minting_cost
//@ sig fn next_minting_cost(&self, next_minted: u64) -> Result<Option<(u64, u128)>>
//@ sub use gmsol_model::utils::apply_factor; => 
//@ loop 1: invariant self.grow_steps > new_steps ==> minting_cost == self.minting_cost, self.grow_steps <= new_steps ==> (minting_cost as int == cost_after(self.minting_cost as int, self.minting_cost_grow_factor as int, (_it - self.grow_steps) as nat) && true),
    pub fn next_minting_cost(&self, next_minted: u64) -> (r: Result<Option<(u64, u128)>, E>)
        ensures
            self.grow_step_amount == 0 ==> r.is_err(),
            // no new growth step reached: nothing changes
            (r.is_ok() && next_minted as int / self.grow_step_amount as int == self.grow_steps) ==> r.unwrap().is_none(),
            // otherwise: the step counter is total / step amount, the cost grew once per new step
            (r.is_ok() && next_minted as int / self.grow_step_amount as int != self.grow_steps) ==> r.unwrap().is_some()
                && r.unwrap().unwrap().0 == next_minted as int / self.grow_step_amount as int
                && (r.unwrap().unwrap().0 >= self.grow_steps ==> r.unwrap().unwrap().1 as int
                        == cost_after(self.minting_cost as int, self.minting_cost_grow_factor as int, (r.unwrap().unwrap().0 - self.grow_steps) as nat))
                && (r.unwrap().unwrap().0 < self.grow_steps ==> r.unwrap().unwrap().1 == self.minting_cost),
//@body

//@unit C30.GtState.update_cumulative_inv_cost_factor
//@ file programs/store/src/states/gt.rs
//@ within impl GtState
//@ fn update_cumulative_inv_cost_factor
//@ sig fn update_cumulative_inv_cost_factor(&mut self) -> Result<()>
//@ sub use crate::states::market::clock::AsClock; => 
//@ sub use gmsol_model::utils; => 
//@ sub Clock::get\(\)\? => clock_get()?
//@ sub u128::from\(\s*AsClock::from\(&self\.last_cumulative_inv_cost_factor_ts\)\s*\.passed_in_seconds\(\)\s*\.map_err\(ModelError::from\)\?,?\s*\) => (passed_in_seconds(&self.last_cumulative_inv_cost_factor_ts)? as u128)
//@ sub utils::div_to_factor::<_, \{ constants::MARKET_DECIMALS \}>\( => div_to_factor_p(
    pub fn update_cumulative_inv_cost_factor(&mut self) -> (r: Result<(), E>)
        ensures
            // frame: only the two cumulative-factor fields may change; a failure changes nothing
            r.is_err() ==> *final(self) == *old(self),
            *final(self) == (GtState { last_cumulative_inv_cost_factor_ts: final(self).last_cumulative_inv_cost_factor_ts,
                                       cumulative_inv_cost_factor: final(self).cumulative_inv_cost_factor, ..*old(self) }),
            final(self).cumulative_inv_cost_factor >= old(self).cumulative_inv_cost_factor,
//@body

//@unit C30.GtState.mint_to
//@ file programs/store/src/states/gt.rs
//@ within impl GtState
//@ fn mint_to
//@ sig fn mint_to(&mut self, user: &mut UserHeader, amount: u64) -> Result<()>
//@ top :: proof { if self.grow_step_amount != 0 { lemma_div_is_ordered(self.total_minted as int, self.total_minted as int + amount as int, self.grow_step_amount as int); } }
//@ sub Clock::get\(\)\? => clock_get()?
    pub fn mint_to(&mut self, user: &mut UserHeader, amount: u64) -> (r: Result<(), E>)
        requires ranks_wf(*old(self))
        ensures
            // a rejected mint changes nothing (all fallible steps come first)
            r.is_err() ==> *final(self) == *old(self) && final(user).gt.amount == old(user).gt.amount
                && final(user).gt.total_minted == old(user).gt.total_minted && final(user).gt.rank == old(user).gt.rank,
            amount == 0 ==> r.is_ok() && *final(self) == *old(self) && final(user).gt.amount == old(user).gt.amount
                && final(user).gt.total_minted == old(user).gt.total_minted && final(user).gt.rank == old(user).gt.rank,
            // supply and the user's balance move together (supply == sum of balances is preserved);
            // total minted only grows
            r.is_ok() ==> final(self).supply == old(self).supply + amount
                && final(user).gt.amount == old(user).gt.amount + amount
                && final(self).total_minted == old(self).total_minted + amount
                && final(user).gt.total_minted == old(user).gt.total_minted + amount,
            // the step counter follows the total minted; the cost grows once per newly reached step
            r.is_ok() && amount != 0 ==> final(self).grow_step_amount == old(self).grow_step_amount && old(self).grow_step_amount != 0
                && (old(self).grow_steps as int == old(self).total_minted as int / old(self).grow_step_amount as int
                        ==> final(self).grow_steps as int == final(self).total_minted as int / final(self).grow_step_amount as int
                         && final(self).grow_steps >= old(self).grow_steps
                         && final(self).minting_cost as int == cost_after(old(self).minting_cost as int, old(self).minting_cost_grow_factor as int,
                                                                          (final(self).grow_steps - old(self).grow_steps) as nat)),
            r.is_ok() ==> final(self).minting_cost_grow_factor == old(self).minting_cost_grow_factor
                && final(self).max_rank == old(self).max_rank && final(self).ranks == old(self).ranks,
            // the rank is refreshed from the new balance
            r.is_ok() && amount != 0 ==> final(user).gt.rank as int == rank_spec(*final(self), final(user).gt.amount),
//@body

//@unit C30.GtState.get_mint_amount
//@ file programs/store/src/states/gt.rs
//@ within impl GtState
//@ fn get_mint_amount
//@ sig fn get_mint_amount(&self, size_in_value: u128) -> Result<(u64, u128, u128)>
//@ top :: proof { if self.minting_cost != 0 { lemma_fundamental_div_mod(size_in_value as int, self.minting_cost as int); lemma_mod_bound(size_in_value as int, self.minting_cost as int); lemma_mod_decreases(size_in_value as nat, self.minting_cost as nat); lemma_mul_is_commutative(self.minting_cost as int, size_in_value as int / self.minting_cost as int); } }
    pub fn get_mint_amount(&self, size_in_value: u128) -> (r: Result<(u64, u128, u128), E>)
        ensures
            self.minting_cost == 0 ==> r.is_err(),
            // whole units affordable at the current cost; the remainder stays unminted
            r.is_ok() ==> r.unwrap().0 as int == size_in_value as int / self.minting_cost as int
                && r.unwrap().1 as int == r.unwrap().0 as int * self.minting_cost as int
                && r.unwrap().2 == self.minting_cost
                && size_in_value - r.unwrap().1 < self.minting_cost
                && r.unwrap().1 <= size_in_value,
            (self.minting_cost != 0 && size_in_value as int / self.minting_cost as int <= u64::MAX) ==> r.is_ok(),
//@body

//@unit C30.GtState.unchecked_burn_from
//@ file programs/store/src/states/gt.rs
//@ within impl GtState
//@ fn unchecked_burn_from
//@ sig fn unchecked_burn_from(&mut self, user: &mut UserHeader, amount: u64) -> Result<()>
    pub fn unchecked_burn_from(&mut self, user: &mut UserHeader, amount: u64) -> (r: Result<(), E>)
        requires ranks_wf(*old(self))
        ensures
            // burning more than the balance is rejected, and a rejected burn changes nothing
            amount > old(user).gt.amount ==> r.is_err(),
            r.is_err() ==> *final(self) == *old(self) && final(user).gt.amount == old(user).gt.amount && final(user).gt.total_minted == old(user).gt.total_minted,
            // supply and balance move together (so supply == sum of balances is preserved); total minted untouched
            r.is_ok() ==> final(user).gt.amount == old(user).gt.amount - amount
                && final(self).supply == old(self).supply - amount
                && final(self).total_minted == old(self).total_minted
                && final(user).gt.total_minted == old(user).gt.total_minted
                && final(self).minting_cost == old(self).minting_cost && final(self).grow_steps == old(self).grow_steps,
            // the rank is refreshed from the new balance
            r.is_ok() && amount != 0 ==> final(user).gt.rank as int == rank_spec(*final(self), final(user).gt.amount),
//@body

//@unit C30.GtState.unchecked_update_rank
//@ file programs/store/src/states/gt.rs
//@ within impl GtState
//@ fn unchecked_update_rank
//@ sig fn unchecked_update_rank(&self, user: &mut UserHeader)
//@ sub self\.ranks\(\)\.len\(\) => (self.max_rank as usize)
//@ sub self\.ranks\(\)\.binary_search\(&user\.gt\.amount\) => ranks_binary_search(self, &user.gt.amount)
//@ before let rank = rank as u8; :: proof { lemma_rank_from_search(*self, user.gt.amount, rank as int); }
    pub fn unchecked_update_rank(&self, user: &mut UserHeader)
        requires ranks_wf(*self)
        ensures final(user).gt.rank as int == rank_spec(*self, old(user).gt.amount),
                final(user).gt.amount == old(user).gt.amount, final(user).gt.total_minted == old(user).gt.total_minted,
                final(user).gt.last_minted_at == old(user).gt.last_minted_at,
//@body
}

/// number of configured rank thresholds at or below `amount`
pub open spec fn rank_count(g: GtState, amount: u64, k: nat) -> int decreases k {
    if k == 0 { 0 } else { rank_count(g, amount, (k - 1) as nat) + (if k <= g.max_rank && k <= 15 && g.ranks[(k - 1) as int] <= amount { 1int } else { 0int }) }
}
pub open spec fn rank_spec(g: GtState, amount: u64) -> int { rank_count(g, amount, 15) }
/// wf(GtState) for ranks: what `GtState::init` / `set_ranks` enforce -- at most MAX_RANK thresholds, strictly increasing
pub open spec fn ranks_wf(g: GtState) -> bool {
    g.max_rank <= 15 && forall|a: int, b: int| 0 <= a < b < g.max_rank ==> g.ranks[a] < g.ranks[b]
}
/// ASSUMED std contract (no vstd spec): `self.ranks()` is `&self.ranks[0..max_rank]` and
/// `<[u64]>::binary_search` on a strictly increasing slice returns the position of the element, or
/// the insertion point that keeps it sorted.
#[verifier::external_body]
pub fn ranks_binary_search(g: &GtState, x: &u64) -> (r: Result<usize, usize>)
    requires ranks_wf(*g)
    ensures
        r.is_ok() ==> r.unwrap() < g.max_rank && g.ranks[r.unwrap() as int] == *x,
        r.is_err() ==> r.unwrap_err() <= g.max_rank
            && (forall|j: int| 0 <= j < r.unwrap_err() ==> g.ranks[j] < *x)
            && (forall|j: int| r.unwrap_err() <= j < g.max_rank ==> g.ranks[j] > *x),
{ unimplemented!() }

/// thresholds [0, split) are <= x and thresholds [split, max_rank) are > x  ==>  exactly `split` are at or below x
pub proof fn lemma_rank_count_split(g: GtState, x: u64, split: int, k: nat)
    requires ranks_wf(g), 0 <= split <= g.max_rank, k <= 15,
             forall|j: int| 0 <= j < split ==> g.ranks[j] <= x,
             forall|j: int| split <= j < g.max_rank ==> g.ranks[j] > x,
    ensures rank_count(g, x, k) == (if k <= split { k as int } else { split })
    decreases k
{
    if k > 0 { lemma_rank_count_split(g, x, split, (k - 1) as nat); }
}
/// the rank computed from the search result (Ok(i) => i + 1, Err(i) => i) is the number of thresholds at or below x
pub proof fn lemma_rank_from_search(g: GtState, x: u64, rank: int)
    requires ranks_wf(g), 0 <= rank <= g.max_rank,
             (rank >= 1 && g.ranks[rank - 1] == x) || ((forall|j: int| 0 <= j < rank ==> g.ranks[j] < x) && (forall|j: int| rank <= j < g.max_rank ==> g.ranks[j] > x)),
    ensures rank == rank_spec(g, x)
{
    lemma_rank_count_split(g, x, rank, 15);
}
} // verus!
