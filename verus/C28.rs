//@prelude u128
// =================================================================================================
// C28  Chainlink reports are decoded safely and converted faithfully
//      crates/chainlink-datastreams/src/report.rs :: decode_full_report   (bounds logic; the four slice / byte-order expressions are
//                                                                           carrier calls whose PRECONDITIONS are the panic conditions)
//      crates/chainlink-datastreams/src/gmsol.rs  :: <PriceFeedPrice as FromChainlinkReport>::from_chainlink_report
// =================================================================================================
verus! {
use vstd::slice::*;

// ---- decode_full_report ------------------------------------------------------------------------------------------------
/// big-endian value of a byte sequence
pub open spec fn be_val(s: Seq<u8>) -> nat decreases s.len() { if s.len() == 0 { 0 } else { be_val(s.drop_last()) * 256 + s.last() as nat } }
/// `payload[at..at + 32].try_into()` : panics unless at + 32 <= len (then the conversion to [u8; 32] cannot fail)
#[verifier::external_body]
pub fn word32(payload: &[u8], at: usize) -> (r: [u8; 32])
    requires at + 32 <= payload@.len()
    ensures r@ == payload@.subrange(at as int, at + 32)
{ unimplemented!() }
/// `usize::from_be_bytes(payload[w..w + 32][24..32].try_into()..)` for the word starting at `w = at - 24`: panics unless at + 8 <= len
#[verifier::external_body]
pub fn be_usize(payload: &[u8], at: usize) -> (r: usize)
    requires at + 8 <= payload@.len()
    ensures r as nat == be_val(payload@.subrange(at as int, at + 8))
{ unimplemented!() }

//@unit C28.decode_full_report
//@ file crates/chainlink-datastreams/src/report.rs
//@ fn decode_full_report
//@ sig fn decode_full_report(payload: &[u8]) -> Result<([[u8; 32]; 3], &[u8]), ReportError>
//@ sub ReportError::(\w+)\("[^"]*"\) => E::Other
//@ sub Report::WORD_SIZE => 32usize
//@ sub let mut report_context: \[\[u8; 32\]; 3\] = Default::default\(\); => let mut report_context: [[u8; 32]; 3] = [[0u8; 32]; 3];
//@ sub (?s)let context = payload\[idx \* 32usize\.\.\(idx \+ 1\) \* 32usize\]\s*\.try_into\(\)\s*\.map_err\(\|_e\| E::Other\)\?; => let context = word32(payload, idx * 32usize);
//@ sub (?s)usize::from_be_bytes\(\s*payload\[96\.\.128\]\[24\.\.32usize\][^;]*?\.map_err\(\|_e\| E::Other\)\?,\s*\) => be_usize(payload, 96 + 24)
//@ sub (?s)usize::from_be_bytes\(\s*payload\[offset\.\.length_end\]\[24\.\.32usize\][^;]*?\.map_err\(\|_e\| E::Other\)\?,\s*\) => be_usize(payload, offset + 24)
//@ sub &payload\[(\w+)\.\.(\w+)\] => slice_subrange(payload, \1, \2)
//@ loop 1: invariant payload@.len() >= 128, forall|j: int| 0 <= j < idx ==> report_context[j]@ == payload@.subrange(32 * j, 32 * j + 32),
pub fn decode_full_report(payload: &[u8]) -> (r: Result<([[u8; 32]; 3], &[u8]), E>)
    ensures
        // (never panics: every slice / conversion above is proved to be in range for EVERY byte string)
        // on success the context is the first three words and the blob is exactly the slice that the offset word (word 3) and the
        // length word found at that offset describe
        r.is_ok() ==> payload@.len() >= 128 && ({
            let (ctx, blob) = r.unwrap();
            let off = be_val(payload@.subrange(120, 128)) as int;
            &&& forall|j: int| 0 <= j < 3 ==> ctx[j]@ == payload@.subrange(32 * j, 32 * j + 32)
            &&& 128 <= off && off + 32 <= payload@.len()
            &&& off + 32 + be_val(payload@.subrange(off + 24, off + 32)) <= payload@.len()
            &&& blob@ == payload@.subrange(off + 32, off + 32 + be_val(payload@.subrange(off + 24, off + 32)))
        }),
        // too short a payload is rejected
        payload@.len() < 128 ==> r.is_err(),
//@body

// ---- from_chainlink_report ---------------------------------------------------------------------------------------------
/// ruint U192 (assumed contract on a dependency): an unsigned integer below 2^192 with comparison, division and power of ten
#[verifier::external_body] #[derive(Clone, Copy)] pub struct U192 { _p: [u64; 3] }
impl U192 { pub uninterp spec fn val(&self) -> nat; }
pub open spec fn pow10(d: nat) -> nat decreases d { if d == 0 { 1 } else { 10 * pow10((d - 1) as nat) } }
#[verifier::external_body] pub fn u192_lt(a: &U192, b: &U192) -> (r: bool) ensures r == (a.val() < b.val()) { unimplemented!() }
/// `TEN.pow(U192::from(d))` for d <= 18 (no wrap-around)
#[verifier::external_body] pub fn u192_pow10(d: u8) -> (r: U192) requires d <= 18 ensures r.val() == pow10(d as nat) { unimplemented!() }
#[verifier::external_body] pub fn u192_is_zero(a: &U192) -> (r: bool) ensures r == (a.val() == 0) { unimplemented!() }
/// `(a / divisor).try_into().unwrap()` to u128: panics on a zero divisor or a quotient that does not fit
#[verifier::external_body]
pub fn div_to_u128(a: U192, divisor: U192) -> (r: u128)
    requires divisor.val() != 0, a.val() / divisor.val() <= u128::MAX
    ensures r as nat == a.val() / divisor.val()
{ unimplemented!() }
/// ASSUMED (gmsol_utils::price::find_divisor_decimals: binary search in the table of u128::MAX x 10^i): the smallest number of
/// decimal digits to drop so that the number fits u128
#[verifier::external_body]
pub fn find_divisor_decimals(num: &U192) -> (r: u8) ensures num.val() / pow10(r as nat) <= u128::MAX, r <= 20 { unimplemented!() }

#[derive(Clone, Copy)] pub enum FeedMarketStatus { Disabled, Unknown, PreMarket, RegularHours, PostMarket, Overnight, Closed }
#[derive(Clone, Copy)] pub enum PriceFlag { Open, LastUpdateDiffEnabled, LastUpdateDiffSecs }
/// the fields of `Report` this conversion reads (sign and magnitude of the three prices)
pub struct Report { pub observations_timestamp: u32, pub last_update_timestamp: Option<u64>, pub price: (bool, U192), pub bid: (bool, U192), pub ask: (bool, U192), pub status: FeedMarketStatus }
impl Report {
    pub const DECIMALS: u8 = 18;
    /// `non_negative(num)`: Some(magnitude) iff the sign is Plus / NoSign-positive (`num.0 == true`)
    pub fn non_negative_price(&self) -> (r: Option<U192>) ensures r.is_some() == self.price.0, r.is_some() ==> r.unwrap() == self.price.1 { if self.price.0 { Some(self.price.1) } else { None } }
    pub fn non_negative_bid(&self) -> (r: Option<U192>) ensures r.is_some() == self.bid.0, r.is_some() ==> r.unwrap() == self.bid.1 { if self.bid.0 { Some(self.bid.1) } else { None } }
    pub fn non_negative_ask(&self) -> (r: Option<U192>) ensures r.is_some() == self.ask.0, r.is_some() ==> r.unwrap() == self.ask.1 { if self.ask.0 { Some(self.ask.1) } else { None } }
    pub fn last_update_timestamp(&self) -> (r: Option<u64>) ensures r == self.last_update_timestamp { self.last_update_timestamp }
}
fn canonical_market_status(report: &Report) -> (r: FeedMarketStatus) ensures r == report.status { report.status }

//@const crates/chainlink-datastreams/src/gmsol.rs :: NANOS_PER_SECOND :: u64 = 1_000_000_000
pub const NANOS_PER_SECOND: u64 = 1_000_000_000;
//@struct crates/utils/src/price/feed_price.rs :: pub struct PriceFeedPrice :: decimals, flags, market_status_value, padding, last_update_diff, ts, price, min_price, max_price
pub struct PriceFeedPrice { pub decimals: u8, pub open: bool, pub diff_enabled: bool, pub diff_secs: bool, pub status: FeedMarketStatus, pub last_update_diff: u32, pub ts: i64, pub price: u128, pub min_price: u128, pub max_price: u128 }
impl PriceFeedPrice {
    /// glue for `PriceFeedPrice::new` (flags default = all false, status Disabled)
    pub fn new(decimals: u8, ts: i64, price: u128, min_price: u128, max_price: u128, last_update_diff: u32) -> (r: PriceFeedPrice)
        ensures r == (PriceFeedPrice { decimals, open: false, diff_enabled: false, diff_secs: false, status: FeedMarketStatus::Disabled, last_update_diff, ts, price, min_price, max_price })
    { PriceFeedPrice { decimals, open: false, diff_enabled: false, diff_secs: false, status: FeedMarketStatus::Disabled, last_update_diff, ts, price, min_price, max_price } }
    pub fn set_flag(&mut self, flag: PriceFlag, value: bool) -> (r: bool)
        ensures *final(self) == (match flag { PriceFlag::Open => PriceFeedPrice { open: value, ..*old(self) }, PriceFlag::LastUpdateDiffEnabled => PriceFeedPrice { diff_enabled: value, ..*old(self) }, PriceFlag::LastUpdateDiffSecs => PriceFeedPrice { diff_secs: value, ..*old(self) } })
    { match flag { PriceFlag::Open => { let p = self.open; self.open = value; p } PriceFlag::LastUpdateDiffEnabled => { let p = self.diff_enabled; self.diff_enabled = value; p } PriceFlag::LastUpdateDiffSecs => { let p = self.diff_secs; self.diff_secs = value; p } } }
    pub fn set_market_status(&mut self, s: FeedMarketStatus) ensures *final(self) == (PriceFeedPrice { status: s, ..*old(self) }) { self.status = s; }

//@unit C28.from_chainlink_report
//@ file crates/chainlink-datastreams/src/gmsol.rs
//@ within impl super::FromChainlinkReport for PriceFeedPrice
//@ fn from_chainlink_report
//@ sig fn from_chainlink_report(report: &Report) -> Result<Self, crate::Error>
//@ sub E::(NegativePrice|InvalidRange)\b => E::Other
//@ sub if (ask|price|bid) < (ask|price|bid) \{ => if u192_lt(&\1, &\2) {
//@ sub let divisor = TEN\.pow\(U192::from\(divisor_decimals\)\); => let divisor = u192_pow10(divisor_decimals);
//@ sub assert\(!divisor\.is_zero\(\)\); => assert(divisor.val() != 0) by { lemma_pow10_positive(divisor_decimals as nat); }
//@ sub \((ask|price|bid) / divisor\)\.try_into\(\)\.unwrap\(\) => div_to_u128(\1, divisor)
//@ sub i64::from\(observations_timestamp\) => (observations_timestamp as i64)
//@ sub u64::from\(observations_timestamp\) => (observations_timestamp as u64)
//@ sub last_update_diff\.div_ceil\(NANOS_PER_SECOND\) => u64_div_ceil(last_update_diff, NANOS_PER_SECOND)
//@ sub observations_timestamp_ns\.abs_diff\(last_update_timestamp_ns\) => u64_abs_diff(observations_timestamp_ns, last_update_timestamp_ns)
//@ before let mut price = Self::new( :: proof { lemma_pow10_positive(divisor_decimals as nat); lemma_div_is_ordered(price.val() as int, ask.val() as int, divisor.val() as int); lemma_div_is_ordered(bid.val() as int, price.val() as int, divisor.val() as int); }
    pub fn from_chainlink_report(report: &Report) -> (r: Result<PriceFeedPrice, E>)
        ensures
            // (never panics: the divisions and the conversions to u128 are proved to be defined for every report)
            // negative or misordered bid / price / ask are rejected
            r.is_ok() ==> report.price.0 && report.bid.0 && report.ask.0 && report.bid.1.val() <= report.price.1.val() <= report.ask.1.val(),
            // all three are scaled by the SAME power of ten, which is recorded in the decimals, and their order is preserved
            r.is_ok() ==> exists|d: nat| #![auto] d <= 18 && r.unwrap().decimals == 18 - d
                && r.unwrap().price as nat == report.price.1.val() / pow10(d)
                && r.unwrap().min_price as nat == report.bid.1.val() / pow10(d)
                && r.unwrap().max_price as nat == report.ask.1.val() / pow10(d),
            r.is_ok() ==> r.unwrap().min_price <= r.unwrap().price <= r.unwrap().max_price,
            r.is_ok() ==> r.unwrap().ts == report.observations_timestamp as i64 && r.unwrap().status == report.status,
//@body
}
pub proof fn lemma_pow10_positive(d: nat) ensures pow10(d) > 0 decreases d { if d > 0 { lemma_pow10_positive((d - 1) as nat); } }
/// glue: u64::div_ceil / u64::abs_diff (no vstd specification)
pub fn u64_div_ceil(a: u64, b: u64) -> (r: u64) requires b > 0 ensures r as int == (a as int + b as int - 1) / (b as int)
{
    let q = a / b; let m = a % b;
    proof { lemma_fundamental_div_mod(a as int, b as int); }
    if m == 0 {
        proof { lemma_div_ceil_of_multiple(q as int, b as int); assert(a as int == (b as int) * (q as int)); lemma_mul_is_commutative(b as int, q as int); }
        q
    } else {
        proof { lemma_mod_bound(a as int, b as int); lemma_div_ceil_non_multiple(q as int, m as int, b as int); lemma_mul_is_commutative(b as int, q as int);
                assert(b >= 2);
                assert((q as int) * 2 <= (q as int) * (b as int)) by(nonlinear_arith) requires b >= 2, q >= 0; }
        q + 1
    }
}
pub proof fn lemma_div_ceil_of_multiple(q: int, b: int) requires b > 0, q >= 0 ensures (q * b + b - 1) / b == q
{ lemma_fundamental_div_mod_converse(q * b + b - 1, b, q, b - 1); lemma_mul_is_commutative(q, b); }
pub proof fn lemma_div_ceil_non_multiple(q: int, m: int, b: int) requires b > 0, q >= 0, 0 < m < b ensures (q * b + m + b - 1) / b == q + 1
{ lemma_mul_is_distributive_add_other_way(b, q, 1); lemma_fundamental_div_mod_converse(q * b + m + b - 1, b, q + 1, m - 1); lemma_mul_is_commutative(q + 1, b); }
pub fn u64_abs_diff(a: u64, b: u64) -> (r: u64) ensures r == (if a >= b { a - b } else { b - a }) { if a >= b { a - b } else { b - a } }
} // verus!
