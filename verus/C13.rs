//@include inc/model_base_u128.rs
// =================================================================================================
// C13  Borrowing accounting never goes negative
//      crates/model/src/market/borrowing.rs               :: BorrowingFeeMarketExt::{cumulative_borrowing_factor,
//                                                             next_cumulative_borrowing_factor, total_pending_borrowing_fees}
//      crates/model/src/action/update_borrowing_state.rs  :: UpdateBorrowingState::execute_one_side
//      crates/model/src/position.rs                       :: PositionMutExt::update_total_borrowing
//      crates/model/src/pool/mod.rs                       :: PoolExt::apply_delta_amount
// =================================================================================================
verus! {
pub struct Prices { pub tag: u8 }

/// A two-sided pool amount (`Self::Pool`): the `Balance`/`Pool` traits of the model: `amount(is_long)`,
/// `apply_delta_to_long_amount` / `apply_delta_to_short_amount` (checked signed addition; the store-side pool is C15).
#[derive(Clone, Copy)]
pub struct Sides { pub long: N, pub short: N }
pub open spec fn side(p: Sides, is_long: bool) -> int { if is_long { p.long@ } else { p.short@ } }
impl Sides {
    pub fn amount(&self, is_long: bool) -> (r: Result<N, E>)
        ensures r.is_ok() && r.unwrap() == (if is_long { self.long } else { self.short })
    { if is_long { Ok(self.long) } else { Ok(self.short) } }
    /// contract of `Pool::apply_delta_to_long_amount`: checked signed addition on that side only
    pub fn apply_delta_to_long_amount(&mut self, delta: &S) -> (r: Result<(), E>)
        ensures
            r.is_ok() == (0 <= old(self).long@ + delta@ <= umax()),
            r.is_ok() ==> final(self).long@ == old(self).long@ + delta@ && final(self).short == old(self).short,
            r.is_err() ==> *final(self) == *old(self),
    {
        match self.long.checked_add_with_signed(delta) { Some(v) => { self.long = v; Ok(()) } None => Err(E::Computation) }
    }
    pub fn apply_delta_to_short_amount(&mut self, delta: &S) -> (r: Result<(), E>)
        ensures
            r.is_ok() == (0 <= old(self).short@ + delta@ <= umax()),
            r.is_ok() ==> final(self).short@ == old(self).short@ + delta@ && final(self).long == old(self).long,
            r.is_err() ==> *final(self) == *old(self),
    {
        match self.short.checked_add_with_signed(delta) { Some(v) => { self.short = v; Ok(()) } None => Err(E::Computation) }
    }

//@unit C13.PoolExt.apply_delta_amount
//@ file crates/model/src/pool/mod.rs
//@ within pub trait PoolExt: Pool
//@ fn apply_delta_amount
//@ sig fn apply_delta_amount(&mut self, is_long: bool, delta: &Self::Signed) -> crate::Result<()>
    pub fn apply_delta_amount(&mut self, is_long: bool, delta: &S) -> (r: Result<(), E>)
        ensures
            r.is_ok() == (0 <= side(*old(self), is_long) + delta@ <= umax()),
            r.is_ok() ==> side(*final(self), is_long) == side(*old(self), is_long) + delta@ && side(*final(self), !is_long) == side(*old(self), !is_long),
            r.is_err() ==> *final(self) == *old(self),
//@body
}

impl N {
    pub fn from_u64(n: u64) -> (r: Option<N>) ensures r == Some(N(n as u128)) { Some(N(n as u128)) }
}

/// Carrier for `Self: BorrowingFeeMarket(+Mut)`: the reads of these methods, each fallible.
///   borrowing_factor_pool(), total_borrowing_pool(), open_interest(): two-sided amounts;
///   borrowing_factor_per_second(is_long, prices): the per-second rate (an unsigned value: reserve usage x factor, or the
///     kink model) -- read as a fallible table by side here, it is not under contract in this check;
///   passed_in_seconds_for_borrowing(): the clock.
pub struct BMarket {
    pub factor_pool: Option<Sides>, pub total_borrowing: Option<Sides>, pub oi: Option<Sides>,
    pub per_second_long: Option<N>, pub per_second_short: Option<N>, pub passed: Option<u64>,
}
pub open spec fn per_second(m: BMarket, is_long: bool) -> Option<N> { if is_long { m.per_second_long } else { m.per_second_short } }
impl BMarket {
    pub fn borrowing_factor_pool(&self) -> (r: Result<&Sides, E>)
        ensures r.is_ok() == self.factor_pool.is_some(), r.is_ok() ==> *r.unwrap() == self.factor_pool.unwrap()
    { match &self.factor_pool { Some(x) => Ok(x), None => Err(E::Other) } }
    pub fn borrowing_factor_pool_mut(&mut self) -> (r: Result<&mut Sides, E>)
        ensures
            r.is_ok() == old(self).factor_pool.is_some(),
            r.is_ok() ==> *r.unwrap() == old(self).factor_pool.unwrap() && *final(self) == (BMarket { factor_pool: Some(*final(r.unwrap())), ..*old(self) }),
            r.is_err() ==> *final(self) == *old(self),
    { match &mut self.factor_pool { Some(x) => Ok(x), None => Err(E::Other) } }
    pub fn total_borrowing_pool(&self) -> (r: Result<&Sides, E>)
        ensures r.is_ok() == self.total_borrowing.is_some(), r.is_ok() ==> *r.unwrap() == self.total_borrowing.unwrap()
    { match &self.total_borrowing { Some(x) => Ok(x), None => Err(E::Other) } }
    pub fn total_borrowing_pool_mut(&mut self) -> (r: Result<&mut Sides, E>)
        ensures
            r.is_ok() == old(self).total_borrowing.is_some(),
            r.is_ok() ==> *r.unwrap() == old(self).total_borrowing.unwrap() && *final(self) == (BMarket { total_borrowing: Some(*final(r.unwrap())), ..*old(self) }),
            r.is_err() ==> *final(self) == *old(self),
    { match &mut self.total_borrowing { Some(x) => Ok(x), None => Err(E::Other) } }
    pub fn open_interest(&self) -> (r: Result<Sides, E>)
        ensures r.is_ok() == self.oi.is_some(), r.is_ok() ==> r.unwrap() == self.oi.unwrap()
    { match self.oi { Some(x) => Ok(x), None => Err(E::Other) } }
    pub fn borrowing_factor_per_second(&self, is_long: bool, _prices: &Prices) -> (r: Result<N, E>)
        ensures r.is_ok() == per_second(*self, is_long).is_some(), r.is_ok() ==> r.unwrap() == per_second(*self, is_long).unwrap()
    { let v = if is_long { self.per_second_long } else { self.per_second_short }; match v { Some(x) => Ok(x), None => Err(E::Other) } }
    pub fn passed_in_seconds_for_borrowing(&self) -> (r: Result<u64, E>)
        ensures r.is_ok() == self.passed.is_some(), r.is_ok() ==> r.unwrap() == self.passed.unwrap()
    { match self.passed { Some(x) => Ok(x), None => Err(E::Other) } }

//@unit C13.cumulative_borrowing_factor
//@ file crates/model/src/market/borrowing.rs
//@ within pub trait BorrowingFeeMarketExt<const DECIMALS: u8>: BorrowingFeeMarket<DECIMALS>
//@ fn cumulative_borrowing_factor
//@ sig fn cumulative_borrowing_factor(&self, is_long: bool) -> crate::Result<Self::Num>
    pub fn cumulative_borrowing_factor(&self, is_long: bool) -> (r: Result<N, E>)
        ensures r.is_ok() == self.factor_pool.is_some(), r.is_ok() ==> r.unwrap()@ == side(self.factor_pool.unwrap(), is_long)
//@body

//@unit C13.next_cumulative_borrowing_factor
//@ file crates/model/src/market/borrowing.rs
//@ within pub trait BorrowingFeeMarketExt<const DECIMALS: u8>: BorrowingFeeMarket<DECIMALS>
//@ fn next_cumulative_borrowing_factor
//@ sig fn next_cumulative_borrowing_factor( &self, is_long: bool, prices: &Prices<Self::Num>, duration_in_second: u64, ) -> crate::Result<(Self::Num, Self::Num)>
//@ sub use num_traits::\{CheckedMul, FromPrimitive\}; =>
//@ sub Self::Num::from_u64 => N::from_u64
    pub fn next_cumulative_borrowing_factor(&self, is_long: bool, prices: &Prices, duration_in_second: u64) -> (r: Result<(N, N), E>)
        ensures
            r.is_ok() ==> self.factor_pool.is_some() && per_second(*self, is_long).is_some(),
            // the next cumulative factor is the current one plus rate x seconds: it never decreases
            r.is_ok() ==> r.unwrap().1@ == per_second(*self, is_long).unwrap()@ * duration_in_second
                && r.unwrap().0@ == side(self.factor_pool.unwrap(), is_long) + r.unwrap().1@
                && r.unwrap().0@ >= side(self.factor_pool.unwrap(), is_long),
            // it is computed whenever the sum is representable
            (self.factor_pool.is_some() && per_second(*self, is_long).is_some()
                && side(self.factor_pool.unwrap(), is_long) + per_second(*self, is_long).unwrap()@ * duration_in_second <= umax()) ==> r.is_ok(),
//@body

//@unit C13.total_pending_borrowing_fees
//@ file crates/model/src/market/borrowing.rs
//@ within pub trait BorrowingFeeMarketExt<const DECIMALS: u8>: BorrowingFeeMarket<DECIMALS>
//@ fn total_pending_borrowing_fees
//@ sig fn total_pending_borrowing_fees( &self, prices: &Prices<Self::Num>, is_long: bool, ) -> crate::Result<Self::Num>
//@ sub crate::utils::apply_factor\( => apply_factor(
//@ top :: proof { if self.oi.is_some() && self.passed.is_some() && self.factor_pool.is_some() && self.total_borrowing.is_some() && per_second(*self, is_long).is_some() { lemma_pending_computable(side(self.oi.unwrap(), is_long), side(self.factor_pool.unwrap(), is_long), next_factor(*self, is_long), side(self.total_borrowing.unwrap(), is_long)); } }
//@ sub \.and_then\(\|total\| total\.checked_sub\(&total_borrowing\)\) => .and_then(|total: N| -> (o: Option<N>) ensures o.is_some() == (total@ >= total_borrowing@), o.is_some() ==> o.unwrap()@ == total@ - total_borrowing@ { total.checked_sub(&total_borrowing) })
    pub fn total_pending_borrowing_fees(&self, prices: &Prices, is_long: bool) -> (r: Result<N, E>)
        ensures
            r.is_ok() ==> self.oi.is_some() && self.passed.is_some() && self.factor_pool.is_some() && self.total_borrowing.is_some() && per_second(*self, is_long).is_some(),
            // pending fees = open interest x next cumulative factor - recorded total borrowing, and never negative
            r.is_ok() ==> r.unwrap()@ == mul_div_floor(side(self.oi.unwrap(), is_long), next_factor(*self, is_long), uunit()) - side(self.total_borrowing.unwrap(), is_long)
                && r.unwrap()@ >= 0,
            // never fails to compute: with readable state, representable values and the accounting invariant
            // (recorded total borrowing <= open interest x current cumulative factor) the call succeeds
            (self.oi.is_some() && self.passed.is_some() && self.factor_pool.is_some() && self.total_borrowing.is_some() && per_second(*self, is_long).is_some()
                && next_factor(*self, is_long) <= umax()
                && mul_div_floor(side(self.oi.unwrap(), is_long), next_factor(*self, is_long), uunit()) <= umax()
                && borrowing_invariant(*self, is_long)) ==> r.is_ok(),
//@body
}
/// cumulative factor after the elapsed seconds
pub open spec fn next_factor(m: BMarket, is_long: bool) -> int { side(m.factor_pool.unwrap(), is_long) + per_second(m, is_long).unwrap()@ * m.passed.unwrap() }
/// the accounting invariant the statement talks about: the recorded total borrowing of a side is at most
/// open interest x cumulative factor (it is the sum over positions of size x the factor at their last settlement, each
/// rounded down, see lemma_total_borrowing_le)
pub open spec fn borrowing_invariant(m: BMarket, is_long: bool) -> bool {
    side(m.total_borrowing.unwrap(), is_long) <= mul_div_floor(side(m.oi.unwrap(), is_long), side(m.factor_pool.unwrap(), is_long), uunit())
}
pub proof fn lemma_pending_computable(oi: int, cum: int, next: int, total: int)
    requires oi >= 0, cum >= 0
    ensures next >= cum && total <= mul_div_floor(oi, cum, uunit()) ==> total <= mul_div_floor(oi, next, uunit())
{
    if next >= cum {
        lemma_mul_inequality(cum, next, oi);
        lemma_mul_is_commutative(oi, cum); lemma_mul_is_commutative(oi, next);
        lemma_div_is_ordered(oi * cum, oi * next, uunit());
    }
}

/// sum over positions of floor(size_i x factor_i / UNIT)
pub open spec fn sum_borrowing(sizes: Seq<int>, factors: Seq<int>) -> int decreases sizes.len() {
    if sizes.len() == 0 { 0 } else { sum_borrowing(sizes.drop_last(), factors.drop_last()) + mul_div_floor(sizes.last(), factors.last(), uunit()) }
}
pub open spec fn sum_sizes(sizes: Seq<int>) -> int decreases sizes.len() { if sizes.len() == 0 { 0 } else { sum_sizes(sizes.drop_last()) + sizes.last() } }
/// "total borrowing equals the sum over open positions of size x the factor at which each last settled, up to per-position
/// rounding" implies the invariant: every settlement factor is at most the current cumulative factor (it never decreases),
/// so the sum is at most open interest x cumulative factor
pub proof fn lemma_total_borrowing_le(sizes: Seq<int>, factors: Seq<int>, cum: int)
    requires sizes.len() == factors.len(), forall|i: int| #![trigger factors[i]] #![trigger sizes[i]] 0 <= i < sizes.len() ==> sizes[i] >= 0 && 0 <= factors[i] <= cum
    ensures 0 <= sum_borrowing(sizes, factors) <= mul_div_floor(sum_sizes(sizes), cum, uunit()), sum_sizes(sizes) >= 0
    decreases sizes.len()
{
    if sizes.len() > 0 {
        let s = sizes.drop_last(); let f = factors.drop_last();
        assert forall|i: int| #![trigger f[i]] #![trigger s[i]] 0 <= i < s.len() implies s[i] >= 0 && 0 <= f[i] <= cum by { assert(0 <= factors[i] <= cum); assert(f[i] == factors[i] && s[i] == sizes[i]); }
        lemma_total_borrowing_le(s, f, cum);
        let a = sum_sizes(s); let x = sizes.last(); let fx = factors.last();
        assert(0 <= fx <= cum) by { assert(fx == factors[sizes.len() - 1]); }
        assert(x >= 0) by { assert(x == sizes[sizes.len() - 1]); }
        // floor(a cum / U) + floor(x fx / U) <= floor((a + x) cum / U)
        lemma_mul_inequality(fx, cum, x); lemma_mul_is_commutative(x, fx); lemma_mul_is_commutative(x, cum);
        lemma_mul_nonnegative(x, fx); lemma_mul_nonnegative(a, cum);
        lemma_div_is_ordered(x * fx, x * cum, uunit());
        lemma_mul_is_distributive_add_other_way(cum, a, x);
        lemma_floor_superadditive(a * cum, x * cum, uunit());
        lemma_div_pos_is_pos(x * fx, uunit());
    } else {
        lemma_mul_basics(cum);
    }
}
pub proof fn lemma_floor_superadditive(p: int, q: int, d: int)
    requires p >= 0, q >= 0, d > 0
    ensures p / d + q / d <= (p + q) / d
{
    lemma_fundamental_div_mod(p, d); lemma_fundamental_div_mod(q, d); lemma_mod_bound(p, d); lemma_mod_bound(q, d);
    let k = p / d + q / d;
    lemma_mul_is_distributive_add(d, p / d, q / d);
    assert(p + q >= d * k);
    lemma_div_is_ordered(d * k, p + q, d);
    lemma_div_multiples_vanish(k, d);
}

/// Carrier for `UpdateBorrowingState<M>`
pub struct UpdateBorrowingState { pub market: BMarket, pub prices: Prices }
impl UpdateBorrowingState {
//@unit C13.execute_one_side
//@ file crates/model/src/action/update_borrowing_state.rs
//@ within impl<M: BorrowingFeeMarketMut<DECIMALS>, const DECIMALS: u8> UpdateBorrowingState<M, DECIMALS>
//@ fn execute_one_side
//@ sig fn execute_one_side( &mut self, is_long: bool, duration_in_seconds: u64, ) -> crate::Result<M::Num>
    pub fn execute_one_side(&mut self, is_long: bool, duration_in_seconds: u64) -> (r: Result<N, E>)
        ensures
            // the stored cumulative factor of that side grows by exactly rate x seconds (never decreases), the other side
            // and everything else stay as they are. (Failure atomicity is not stated: Verus does not resolve the outstanding
            // `&mut` temporary of `pool_mut()?.apply_delta_amount(.., &delta.to_signed()?)` at the inner `?` exit.)
            r.is_ok() ==> old(self).market.factor_pool.is_some() && per_second(old(self).market, is_long).is_some()
                && final(self).market.factor_pool.is_some()
                && side(final(self).market.factor_pool.unwrap(), is_long) == side(old(self).market.factor_pool.unwrap(), is_long) + per_second(old(self).market, is_long).unwrap()@ * duration_in_seconds
                && side(final(self).market.factor_pool.unwrap(), is_long) >= side(old(self).market.factor_pool.unwrap(), is_long)
                && side(final(self).market.factor_pool.unwrap(), !is_long) == side(old(self).market.factor_pool.unwrap(), !is_long)
                && r.unwrap()@ == side(final(self).market.factor_pool.unwrap(), is_long)
                && final(self).market.total_borrowing == old(self).market.total_borrowing && final(self).market.oi == old(self).market.oi,
//@body
}

/// Carrier for `Self: PositionMut`
pub struct Pos { pub long: bool, pub usd: N, pub factor: N, pub mkt: BMarket }
impl Pos {
    pub fn is_long(&self) -> (r: bool) ensures r == self.long { self.long }
    pub fn size_in_usd(&self) -> (r: &N) ensures *r == self.usd { &self.usd }
    pub fn borrowing_factor(&self) -> (r: &N) ensures *r == self.factor { &self.factor }
    pub fn market_mut(&mut self) -> (r: &mut BMarket)
        ensures *r == old(self).mkt, *final(self) == (Pos { mkt: *final(r), ..*old(self) })
    { &mut self.mkt }

//@unit C13.update_total_borrowing
//@ file crates/model/src/position.rs
//@ within pub trait PositionMutExt<const DECIMALS: u8>: PositionMut<DECIMALS>
//@ fn update_total_borrowing
//@ sig fn update_total_borrowing( &mut self, next_size_in_usd: &Self::Num, next_borrowing_factor: &Self::Num, ) -> crate::Result<()>
//@ sub crate::utils::apply_factor\( => apply_factor(
    pub fn update_total_borrowing(&mut self, next_size_in_usd: &N, next_borrowing_factor: &N) -> (r: Result<(), E>)
        ensures
            // the side's total borrowing moves by exactly (next size x next factor) - (size x factor at last settlement),
            // each product rounded down: the position's own term of the sum is replaced, nothing else changes
            r.is_ok() ==> old(self).mkt.total_borrowing.is_some() && final(self).mkt.total_borrowing.is_some()
                && side(final(self).mkt.total_borrowing.unwrap(), old(self).long) == side(old(self).mkt.total_borrowing.unwrap(), old(self).long)
                        + mul_div_floor(next_size_in_usd@, next_borrowing_factor@, uunit()) - mul_div_floor(old(self).usd@, old(self).factor@, uunit())
                && side(final(self).mkt.total_borrowing.unwrap(), !old(self).long) == side(old(self).mkt.total_borrowing.unwrap(), !old(self).long)
                && final(self).mkt.factor_pool == old(self).mkt.factor_pool && final(self).mkt.oi == old(self).mkt.oi,
            // the position's own fields are not touched here (size and factor are updated by the caller afterwards)
            final(self).usd == old(self).usd && final(self).factor == old(self).factor && final(self).long == old(self).long,
            r.is_err() ==> final(self).mkt == old(self).mkt,
//@body
}
} // verus!
