//@include inc/model_base_u128.rs
//@include inc/price.rs
//@include inc/perp_tracked.rs
//@include inc/decrease_position.rs
// =================================================================================================
// C07 (decrease half)  Open interest and collateral totals always match the open positions
//      crates/model/src/position.rs                     :: PositionExt::size_delta_in_tokens
//      crates/model/src/action/decrease_position/mod.rs :: DecreasePositionFlags::init, DecreasePosition::{try_new,
//            will_size_remain, is_full_close, is_remaining_size_too_small, check_close, check_partial_close, execute}
// =================================================================================================
verus! {
impl Pos {
    /// ASSUMED here (read-only; under contract in C09)
    #[verifier::external_body]
    pub fn validate(&self, prices: &Prices, a: bool, b: bool) -> (r: Result<(), E>) { unimplemented!() }
}
impl DecreasePosition {
    /// ASSUMED (liquidation check: C09 material): read-only
    #[verifier::external_body]
    fn check_liquidation(&self) -> (r: Result<(), E>) { unimplemented!() }

//@unit C07.DecreasePosition.execute
//@ file crates/model/src/action/decrease_position/mod.rs
//@ within impl<const DECIMALS: u8, P: PositionMut<DECIMALS>> MarketAction for DecreasePosition<P, DECIMALS>
//@ fn execute
//@ sig fn execute(mut self) -> crate::Result<Self::Report>
//@ sub (?s)assert\(\s*self\.size_delta_usd <= \*self\.position\.size_in_usd_mut\(\)\s*\); => assert(self.size_delta_usd@ <= self.position.size_in_usd@);
//@ sub (?s)assert\(\s*self\.withdrawable_collateral_amount <= \*self\.position\.collateral_amount_mut\(\)\s*\); => assert(self.withdrawable_collateral_amount@ <= self.position.collateral_amount@);
//@ cut_after self.position.on_decreased()?; :: Ok(DecreaseOutcome { should_remove, size_delta_usd: self.size_delta_usd, execution })
//@ loop 1: invariant _k21 <= 2, self.params == prm1, self.size_delta_usd == sdu1, self.position.mkt == mkt1, self.position.size_in_usd == usd1, self.position.size_in_tokens == tok1, self.position.collateral_amount == col1, self.position.long == old(self).position.long, self.position.collateral_long == old(self).position.collateral_long, self.position.tb_log == tb1, self.position.borrowing_factor == bf1, decreases 2 - _k21,
//@ before self.position.update_open_interest( :: proof { if old(self).position.size_in_usd@ > 0 { lemma_sdt_zero(old(self).position.long, old(self).position.size_in_tokens@, old(self).position.size_in_usd@); } }
//@ before let _arr21 = [true, false]; :: let ghost mkt1 = self.position.mkt; let ghost usd1 = self.position.size_in_usd; let ghost tok1 = self.position.size_in_tokens; let ghost col1 = self.position.collateral_amount; let ghost sdu1 = self.size_delta_usd; let ghost prm1 = self.params; let ghost tb1 = self.position.tb_log; let ghost bf1 = self.position.borrowing_factor;
    fn execute(&mut self) -> (r: Result<DecreaseOutcome, E>)
        requires pos_wf(old(self).position),
            // established by try_new (DecreasePositionFlags::init caps or rejects) and kept by construction
            old(self).size_delta_usd@ <= old(self).position.size_in_usd@,
            old(self).withdrawable_collateral_amount@ <= old(self).position.collateral_amount@,
        ensures
            r.is_ok() ==> ({
                let p0 = old(self).position; let p1 = final(self).position; let (l, c) = (p0.long, p0.collateral_long);
                let d_usd = r.unwrap().size_delta_usd@; let d_tok = r.unwrap().execution.size_delta_in_tokens@; let d_col = p0.collateral_amount@ - p1.collateral_amount@;
                // the position's size (usd and tokens) and its side's open interest shrink by the same amounts
                &&& p1.size_in_usd@ == p0.size_in_usd@ - d_usd && oi(p1.mkt, l, c) == oi(p0.mkt, l, c) - d_usd
                &&& p1.size_in_tokens@ == p0.size_in_tokens@ - d_tok && oit(p1.mkt, l, c) == oit(p0.mkt, l, c) - d_tok
                // the position's collateral and its side's collateral total shrink by the same amount
                &&& d_col >= 0 && col(p1.mkt, l, c) == col(p0.mkt, l, c) - d_col
                // a position reported as removed has zero size and zero collateral; one that stays is well-formed and non-empty
                &&& r.unwrap().should_remove ==> p1.size_in_usd@ == 0 && p1.size_in_tokens@ == 0 && p1.collateral_amount@ == 0
                &&& !r.unwrap().should_remove ==> p1.size_in_usd@ > 0 && p1.size_in_tokens@ > 0
                &&& pos_wf(p1)
                // no other side / collateral token is touched
                &&& oi(p1.mkt, l, !c) == oi(p0.mkt, l, !c) && oi(p1.mkt, !l, true) == oi(p0.mkt, !l, true) && oi(p1.mkt, !l, false) == oi(p0.mkt, !l, false)
                &&& oit(p1.mkt, l, !c) == oit(p0.mkt, l, !c) && oit(p1.mkt, !l, true) == oit(p0.mkt, !l, true) && oit(p1.mkt, !l, false) == oit(p0.mkt, !l, false)
                &&& col(p1.mkt, l, !c) == col(p0.mkt, l, !c) && col(p1.mkt, !l, true) == col(p0.mkt, !l, true) && col(p1.mkt, !l, false) == col(p0.mkt, !l, false)
                &&& p1.long == l && p1.collateral_long == c
                // BORROWING ORDER (C13): the total borrowing is updated exactly once, while the position STILL HOLDS its old size and
                // borrowing factor, and with exactly the size and factor the position ends with
                &&& p1.tb_log@ == p0.tb_log@.push(TbUpdate { prev_size: p0.size_in_usd, prev_factor: p0.borrowing_factor, next_size: p1.size_in_usd, next_factor: p1.borrowing_factor })
            }),
//@body
}
} // verus!
