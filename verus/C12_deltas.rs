//@include inc/model_base_u128.rs
//@include inc/price.rs
//@include inc/funding_deltas.rs
// =================================================================================================
// C12 (the deltas)  crates/model/src/action/update_funding_state.rs :: UpdateFundingState::set_deltas, with pack / unpack /
//      flags_to_index (verus/inc/funding_deltas.rs, shared with C08): for each collateral token the PAYERS' index delta is the funding
//      value packed over the payer side's open interest in that token at the token's MAX price, both divisions rounded UP, and the
//      RECEIVERS' claimable delta is the same value at the same price over the receiver interest, rounded DOWN; stored in the slot
//      of (paying side, token) / (receiving side, token). Replaces the two text anchors "computed by pack" of contracts/C12.py.
//      From the statement, over that contract: an index delta is never negative, and - over the same interest - the receivers'
//      delta never exceeds the payers'.
// =================================================================================================
verus! {
pub proof fn lemma_delta_never_negative(adj: int, funding_value: int, open_interest: int, price: int, up: bool)
    requires adj >= 0, funding_value >= 0, open_interest >= 0, price > 0
    ensures pack_spec(adj, funding_value, open_interest, price, up) >= 0
{
    if funding_value != 0 && open_interest != 0 {
        let n = adj * uunit();
        lemma_mul_nonnegative(adj, uunit());
        lemma_mul_nonnegative(funding_value, n);
        let x = funding_value * n;
        lemma_div_pos_is_pos(x, open_interest);
        lemma_div_pos_is_pos(x + open_interest - 1, open_interest);
        lemma_div_pos_is_pos(x / open_interest, price);
        lemma_div_pos_is_pos((x + open_interest - 1) / open_interest + price - 1, price);
    }
}
pub proof fn lemma_receivers_never_above_payers(adj: int, funding_value: int, open_interest: int, price: int)
    requires adj >= 0, funding_value >= 0, open_interest > 0, price > 0
    ensures pack_spec(adj, funding_value, open_interest, price, true) >= pack_spec(adj, funding_value, open_interest, price, false)
{
    if funding_value != 0 {
        let n = adj * uunit();
        lemma_mul_nonnegative(adj, uunit());
        lemma_mul_nonnegative(funding_value, n);
        let x = funding_value * n;
        let a = (x + open_interest - 1) / open_interest;
        let b = x / open_interest;
        lemma_div_is_ordered(x, x + open_interest - 1, open_interest);
        lemma_div_pos_is_pos(x, open_interest);
        lemma_div_is_ordered(b, a + price - 1, price);
    }
}
} // verus!
