//@prelude u128
//@include inc/specs_arith.rs
// =================================================================================================
// C01  Fixed-point arithmetic is exact with the documented rounding (instance: u128 / i128, 20 dec)
// Every unit below is the function text of /repo, extracted on this run; the contract above each
// body is written from the property statement: result == integer spec in the documented
// direction, failure exactly on the stated set.
// =================================================================================================
//@include inc/leaf_u128.rs
//@include inc/num_common.rs
//@include inc/fixed.rs
//@include inc/utils_common.rs
