//@prelude u128
// =================================================================================================
// C21  Uncommitted market operations never leak into stored state  (the revertible buffer)
//      programs/store/src/states/market/revertible/buffer.rs :: trait Cache::{cache_get_with, cache_get_mut_with},
//            impl_cache!{is_dirty, set_rev, rev}, RevertiblePoolBuffer::{start_revertible_operation, commit_to_storage, pool, pool_mut},
//            RevertibleBuffer::{clocks, clocks_mut, other, other_mut, rev, start_revertible_operation}
//      programs/store/src/states/market/pool.rs              :: PoolStorage::{pool, pool_mut}
//      RevertibleBuffer::{pool, pool_mut, commit_to_storage} (enum-keyed pool table): verus/C21_market.rs
//      (loop over PoolKind::iter(); the event emission is cut).
// =================================================================================================
verus! {
/// payloads: arbitrary data (the code only copies them)
#[derive(Clone, Copy)] pub struct ClockData { pub a: i64, pub b: i64 }
#[derive(Clone, Copy)] pub struct OtherData { pub a: u64, pub b: u64 }
#[derive(Clone, Copy)] pub struct Pool { pub a: u128, pub b: u128 }
//@struct programs/store/src/states/market/mod.rs :: pub struct Clocks :: padding, rev, price_impact_distribution, borrowing, funding, adl_for_long, adl_for_short, reserved
#[derive(Clone, Copy)] pub struct Clocks { pub rev: u64, pub t: ClockData }
//@struct programs/store/src/states/market/mod.rs :: pub struct OtherState :: padding, rev, trade_count, long_token_balance, short_token_balance, funding_factor_per_second, reserved
#[derive(Clone, Copy)] pub struct OtherState { pub rev: u64, pub d: OtherData }
//@struct programs/store/src/states/market/pool.rs :: pub struct PoolStorage :: rev, padding, pool
#[derive(Clone, Copy)] pub struct PoolStorage { pub rev: u64, pub pool: Pool }

impl PoolStorage {
//@unit C21.PoolStorage.pool
//@ file programs/store/src/states/market/pool.rs
//@ within impl PoolStorage
//@ fn pool
//@ sig fn pool(&self) -> &Pool
    pub fn pool(&self) -> (r: &Pool) ensures *r == self.pool
//@body
//@unit C21.PoolStorage.pool_mut
//@ file programs/store/src/states/market/pool.rs
//@ within impl PoolStorage
//@ fn pool_mut
//@ sig fn pool_mut(&mut self) -> &mut Pool
    pub fn pool_mut(&mut self) -> (r: &mut Pool) ensures *r == old(self).pool, *final(self) == (PoolStorage { pool: *final(r), ..*old(self) })
//@body
}

// ---- Cache for Clocks (impl_cache!(Clocks) + the default methods of trait Cache) ---------------------------------------
impl Clocks {
//@unit C21.Clocks.rev
//@ file programs/store/src/states/market/revertible/buffer.rs
//@ within impl Revision for $cache
//@ fn rev
//@ sig fn rev(&self) -> u64
    pub fn rev(&self) -> (r: u64) ensures r == self.rev
//@body
//@unit C21.Clocks.is_dirty
//@ file programs/store/src/states/market/revertible/buffer.rs
//@ within impl Cache for $cache
//@ fn is_dirty
//@ sig fn is_dirty(&self, rev: u64) -> bool
    pub fn is_dirty(&self, rev: u64) -> (r: bool) ensures r == (self.rev == rev)
//@body
//@unit C21.Clocks.set_rev
//@ file programs/store/src/states/market/revertible/buffer.rs
//@ within impl Cache for $cache
//@ fn set_rev
//@ sig fn set_rev(&mut self, mut rev: u64) -> u64
    pub fn set_rev(&mut self, mut rev: u64) -> (r: u64) ensures r == old(self).rev, *final(self) == (Clocks { rev: rev, ..*old(self) })
//@body
//@unit C21.Clocks.cache_get_with
//@ file programs/store/src/states/market/revertible/buffer.rs
//@ within pub(crate) trait Cache: Revision
//@ fn cache_get_with
//@ sig fn cache_get_with<'a>(&'a self, rev: u64, f: impl FnOnce() -> &'a Self) -> &'a Self
    pub fn cache_get_with<'a, F: FnOnce() -> &'a Clocks>(&'a self, rev: u64, f: F) -> (r: &'a Clocks)
        requires f.requires(())
        ensures
            // a value written during this operation (revision `rev`) is read back; otherwise the fallback (the stored value) is read
            self.rev == rev ==> *r == *self,
            self.rev != rev ==> f.ensures((), r),
//@body
//@unit C21.Clocks.cache_get_mut_with
//@ file programs/store/src/states/market/revertible/buffer.rs
//@ within pub(crate) trait Cache: Revision
//@ fn cache_get_mut_with
//@ sig fn cache_get_mut_with(&mut self, rev: u64, f: impl FnOnce() -> Self) -> &mut Self
    pub fn cache_get_mut_with<F: FnOnce() -> Clocks>(&mut self, rev: u64, f: F) -> (r: &mut Clocks)
        requires f.requires(())
        ensures
            // the first write of an operation starts from the fallback (the stored value) and marks the entry with the
            // operation's revision; later writes continue from the operation's own value
            old(self).rev == rev ==> *r == *old(self),
            old(self).rev != rev ==> r.rev == rev && exists|v: Clocks| f.ensures((), v) && *r == (Clocks { rev: rev, ..v }),
            *final(self) == *final(r),
//@body
}

// ---- Cache for OtherState (impl_cache!(OtherState) + the default methods of trait Cache) ---------------------------------------
impl OtherState {
//@unit C21.OtherState.rev
//@ file programs/store/src/states/market/revertible/buffer.rs
//@ within impl Revision for $cache
//@ fn rev
//@ sig fn rev(&self) -> u64
    pub fn rev(&self) -> (r: u64) ensures r == self.rev
//@body
//@unit C21.OtherState.is_dirty
//@ file programs/store/src/states/market/revertible/buffer.rs
//@ within impl Cache for $cache
//@ fn is_dirty
//@ sig fn is_dirty(&self, rev: u64) -> bool
    pub fn is_dirty(&self, rev: u64) -> (r: bool) ensures r == (self.rev == rev)
//@body
//@unit C21.OtherState.set_rev
//@ file programs/store/src/states/market/revertible/buffer.rs
//@ within impl Cache for $cache
//@ fn set_rev
//@ sig fn set_rev(&mut self, mut rev: u64) -> u64
    pub fn set_rev(&mut self, mut rev: u64) -> (r: u64) ensures r == old(self).rev, *final(self) == (OtherState { rev: rev, ..*old(self) })
//@body
//@unit C21.OtherState.cache_get_with
//@ file programs/store/src/states/market/revertible/buffer.rs
//@ within pub(crate) trait Cache: Revision
//@ fn cache_get_with
//@ sig fn cache_get_with<'a>(&'a self, rev: u64, f: impl FnOnce() -> &'a Self) -> &'a Self
    pub fn cache_get_with<'a, F: FnOnce() -> &'a OtherState>(&'a self, rev: u64, f: F) -> (r: &'a OtherState)
        requires f.requires(())
        ensures
            // a value written during this operation (revision `rev`) is read back; otherwise the fallback (the stored value) is read
            self.rev == rev ==> *r == *self,
            self.rev != rev ==> f.ensures((), r),
//@body
//@unit C21.OtherState.cache_get_mut_with
//@ file programs/store/src/states/market/revertible/buffer.rs
//@ within pub(crate) trait Cache: Revision
//@ fn cache_get_mut_with
//@ sig fn cache_get_mut_with(&mut self, rev: u64, f: impl FnOnce() -> Self) -> &mut Self
    pub fn cache_get_mut_with<F: FnOnce() -> OtherState>(&mut self, rev: u64, f: F) -> (r: &mut OtherState)
        requires f.requires(())
        ensures
            // the first write of an operation starts from the fallback (the stored value) and marks the entry with the
            // operation's revision; later writes continue from the operation's own value
            old(self).rev == rev ==> *r == *old(self),
            old(self).rev != rev ==> r.rev == rev && exists|v: OtherState| f.ensures((), v) && *r == (OtherState { rev: rev, ..v }),
            *final(self) == *final(r),
//@body
}

// ---- Cache for PoolStorage (impl_cache!(PoolStorage) + the default methods of trait Cache) ---------------------------------------
impl PoolStorage {
//@unit C21.PoolStorage.rev
//@ file programs/store/src/states/market/revertible/buffer.rs
//@ within impl Revision for $cache
//@ fn rev
//@ sig fn rev(&self) -> u64
    pub fn rev(&self) -> (r: u64) ensures r == self.rev
//@body
//@unit C21.PoolStorage.is_dirty
//@ file programs/store/src/states/market/revertible/buffer.rs
//@ within impl Cache for $cache
//@ fn is_dirty
//@ sig fn is_dirty(&self, rev: u64) -> bool
    pub fn is_dirty(&self, rev: u64) -> (r: bool) ensures r == (self.rev == rev)
//@body
//@unit C21.PoolStorage.set_rev
//@ file programs/store/src/states/market/revertible/buffer.rs
//@ within impl Cache for $cache
//@ fn set_rev
//@ sig fn set_rev(&mut self, mut rev: u64) -> u64
    pub fn set_rev(&mut self, mut rev: u64) -> (r: u64) ensures r == old(self).rev, *final(self) == (PoolStorage { rev: rev, ..*old(self) })
//@body
//@unit C21.PoolStorage.cache_get_with
//@ file programs/store/src/states/market/revertible/buffer.rs
//@ within pub(crate) trait Cache: Revision
//@ fn cache_get_with
//@ sig fn cache_get_with<'a>(&'a self, rev: u64, f: impl FnOnce() -> &'a Self) -> &'a Self
    pub fn cache_get_with<'a, F: FnOnce() -> &'a PoolStorage>(&'a self, rev: u64, f: F) -> (r: &'a PoolStorage)
        requires f.requires(())
        ensures
            // a value written during this operation (revision `rev`) is read back; otherwise the fallback (the stored value) is read
            self.rev == rev ==> *r == *self,
            self.rev != rev ==> f.ensures((), r),
//@body
//@unit C21.PoolStorage.cache_get_mut_with
//@ file programs/store/src/states/market/revertible/buffer.rs
//@ within pub(crate) trait Cache: Revision
//@ fn cache_get_mut_with
//@ sig fn cache_get_mut_with(&mut self, rev: u64, f: impl FnOnce() -> Self) -> &mut Self
    pub fn cache_get_mut_with<F: FnOnce() -> PoolStorage>(&mut self, rev: u64, f: F) -> (r: &mut PoolStorage)
        requires f.requires(())
        ensures
            // the first write of an operation starts from the fallback (the stored value) and marks the entry with the
            // operation's revision; later writes continue from the operation's own value
            old(self).rev == rev ==> *r == *old(self),
            old(self).rev != rev ==> r.rev == rev && exists|v: PoolStorage| f.ensures((), v) && *r == (PoolStorage { rev: rev, ..v }),
            *final(self) == *final(r),
//@body
}

// ---- the single-pool buffer (virtual inventories) ------------------------------------------------------------------
//@struct programs/store/src/states/market/revertible/buffer.rs :: pub(crate) struct RevertiblePoolBuffer :: rev, padding, pool
pub struct RevertiblePoolBuffer { pub rev: u64, pub pool: PoolStorage }
/// what an operation of the current revision reads: its own write if there is one, else the stored value
pub open spec fn pool_view(b: RevertiblePoolBuffer, storage: PoolStorage) -> Pool { if b.pool.rev == b.rev { b.pool.pool } else { storage.pool } }
/// cached entries never carry a revision from the future
pub open spec fn pool_buffer_wf(b: RevertiblePoolBuffer) -> bool { b.pool.rev <= b.rev }
impl RevertiblePoolBuffer {
//@unit C21.RevertiblePoolBuffer.start_revertible_operation
//@ file programs/store/src/states/market/revertible/buffer.rs
//@ within impl RevertiblePoolBuffer
//@ fn start_revertible_operation
//@ sig fn start_revertible_operation(&mut self)
    pub fn start_revertible_operation(&mut self)
        requires pool_buffer_wf(*old(self)), old(self).rev < u64::MAX
        ensures
            pool_buffer_wf(*final(self)), final(self).rev == old(self).rev + 1, final(self).pool == old(self).pool,
            // a new operation never reads what an earlier (committed or abandoned) operation left in the buffer
            forall|storage: PoolStorage| pool_view(*final(self), storage) == storage.pool,
//@body

//@unit C21.RevertiblePoolBuffer.commit_to_storage
//@ file programs/store/src/states/market/revertible/buffer.rs
//@ within impl RevertiblePoolBuffer
//@ fn commit_to_storage
//@ sig fn commit_to_storage(&mut self, storage: &mut PoolStorage)
    pub fn commit_to_storage(&mut self, storage: &mut PoolStorage)
        ensures
            // after a commit the stored pool is exactly what the operation observed (its write, or the old stored value if it wrote nothing)
            final(storage).pool == pool_view(*old(self), *old(storage)),
            old(self).pool.rev != old(self).rev ==> *final(storage) == *old(storage),
            *final(self) == *old(self),
//@body

//@unit C21.RevertiblePoolBuffer.pool
//@ file programs/store/src/states/market/revertible/buffer.rs
//@ within impl RevertiblePoolBuffer
//@ fn pool
//@ sig fn pool<'a>(&'a self, storage: &'a PoolStorage) -> &'a Pool
//@ closure0 &'a PoolStorage
    pub fn pool<'a>(&'a self, storage: &'a PoolStorage) -> (r: &'a Pool)
        ensures *r == pool_view(*self, *storage)
//@body

//@unit C21.RevertiblePoolBuffer.pool_mut
//@ file programs/store/src/states/market/revertible/buffer.rs
//@ within impl RevertiblePoolBuffer
//@ fn pool_mut
//@ sig fn pool_mut<'a>(&'a mut self, storage: &'a PoolStorage) -> &'a mut Pool
//@ closure0 PoolStorage
    pub fn pool_mut<'a>(&'a mut self, storage: &'a PoolStorage) -> (r: &'a mut Pool)
        requires pool_buffer_wf(*old(self))
        ensures
            // the write handle starts from what the operation currently observes, and what is written through it is what the
            // operation observes afterwards; the stored value is not touched (it is a shared reference)
            *r == pool_view(*old(self), *storage),
            pool_view(*final(self), *storage) == *final(r),
            final(self).rev == old(self).rev, pool_buffer_wf(*final(self)),
//@body
}

// ---- the market buffer: clocks and other state (the pool table is not covered) -----------------------------------
pub struct StateC { pub clocks: Clocks, pub other: OtherState }
//@struct programs/store/src/states/market/revertible/buffer.rs :: pub(crate) struct RevertibleBuffer :: rev, padding, state
pub struct RevertibleBuffer { pub rev: u64, pub state: StateC }
pub open spec fn clocks_view(b: RevertibleBuffer, s: StateC) -> Clocks { if b.state.clocks.rev == b.rev { b.state.clocks } else { s.clocks } }
pub open spec fn other_view(b: RevertibleBuffer, s: StateC) -> OtherState { if b.state.other.rev == b.rev { b.state.other } else { s.other } }
pub open spec fn buffer_wf(b: RevertibleBuffer) -> bool { b.state.clocks.rev <= b.rev && b.state.other.rev <= b.rev }
impl RevertibleBuffer {
//@unit C21.RevertibleBuffer.rev
//@ file programs/store/src/states/market/revertible/buffer.rs
//@ within impl RevertibleBuffer
//@ fn rev
//@ sig fn rev(&self) -> u64
    pub fn rev(&self) -> (r: u64) ensures r == self.rev
//@body
//@unit C21.RevertibleBuffer.start_revertible_operation
//@ file programs/store/src/states/market/revertible/buffer.rs
//@ within impl RevertibleBuffer
//@ fn start_revertible_operation
//@ sig fn start_revertible_operation(&mut self)
    pub fn start_revertible_operation(&mut self)
        requires buffer_wf(*old(self)), old(self).rev < u64::MAX
        ensures
            buffer_wf(*final(self)), final(self).rev == old(self).rev + 1, final(self).state == old(self).state,
            // a new operation reads the stored clocks and other state, never what an abandoned operation wrote
            forall|s: StateC| clocks_view(*final(self), s) == s.clocks && other_view(*final(self), s) == s.other,
//@body
//@unit C21.RevertibleBuffer.clocks
//@ file programs/store/src/states/market/revertible/buffer.rs
//@ within impl RevertibleBuffer
//@ fn clocks
//@ sig fn clocks<'a>(&'a self, storage: &'a State) -> &'a Clocks
//@ closure0 &'a Clocks
    pub fn clocks<'a>(&'a self, storage: &'a StateC) -> (r: &'a Clocks)
        ensures *r == clocks_view(*self, *storage)
//@body
//@unit C21.RevertibleBuffer.clocks_mut
//@ file programs/store/src/states/market/revertible/buffer.rs
//@ within impl RevertibleBuffer
//@ fn clocks_mut
//@ sig fn clocks_mut(&mut self, storage: &State) -> &mut Clocks
//@ closure0 Clocks
    pub fn clocks_mut(&mut self, storage: &StateC) -> (r: &mut Clocks)
        requires buffer_wf(*old(self))
        ensures
            r.t == clocks_view(*old(self), *storage).t, r.rev == old(self).rev,
            final(self).rev == old(self).rev, final(self).state.other == old(self).state.other, final(self).state.clocks == *final(r),
//@body
//@unit C21.RevertibleBuffer.other
//@ file programs/store/src/states/market/revertible/buffer.rs
//@ within impl RevertibleBuffer
//@ fn other
//@ sig fn other<'a>(&'a self, storage: &'a State) -> &'a OtherState
//@ closure0 &'a OtherState
    pub fn other<'a>(&'a self, storage: &'a StateC) -> (r: &'a OtherState)
        ensures *r == other_view(*self, *storage)
//@body
//@unit C21.RevertibleBuffer.other_mut
//@ file programs/store/src/states/market/revertible/buffer.rs
//@ within impl RevertibleBuffer
//@ fn other_mut
//@ sig fn other_mut(&mut self, storage: &State) -> &mut OtherState
//@ closure0 OtherState
    pub fn other_mut(&mut self, storage: &StateC) -> (r: &mut OtherState)
        requires buffer_wf(*old(self))
        ensures
            r.d == other_view(*old(self), *storage).d, r.rev == old(self).rev,
            final(self).rev == old(self).rev, final(self).state.clocks == old(self).state.clocks, final(self).state.other == *final(r),
//@body
}
} // verus!
