//@prelude u128
// =================================================================================================
// C40  The SDK market model agrees with the on-chain program - the part that lives behind the program's
//      RevertibleMarket (account loaders, event emitters: out of Kani's reach) is decided here as
//      TWO IMPLEMENTATIONS AGAINST ONE SPEC FUNCTION: the program's text and the SDK's text of the same
//      trait method are both extracted and both must satisfy the same postcondition.
//
//      program: programs/store/src/states/market/revertible/market.rs :: RevertibleMarket::{balance_for_token,
//                   record_transferred_in, record_transferred_out, swap_fee_params, order_fee_params}
//               programs/store/src/states/market/model.rs             :: Market::{swap_fee_params, order_fee_params}
//      SDK:     crates/programs/src/model/market.rs                   :: MarketModel::{balance_for_token,
//                   record_transferred_in, record_transferred_out, swap_fee_params, order_fee_params},
//                   MarketMeta::token_side
//               crates/utils/src/market.rs                            :: MarketMeta::to_token_side (the program's)
//      Everything reachable without a RevertibleMarket is decided on the compiled crates by the relational
//      Kani harnesses (kani/rel/src/c40.rs).
// =================================================================================================
verus! {
#[derive(Clone, Copy, Eq)]
pub struct Pubkey { pub hi: u128, pub lo: u128 }
impl PartialEqSpecImpl for Pubkey {
    open spec fn obeys_eq_spec() -> bool { true }
    open spec fn eq_spec(&self, other: &Pubkey) -> bool { *self == *other }
}
impl PartialEq for Pubkey {
    fn eq(&self, other: &Pubkey) -> (r: bool) { self.hi == other.hi && self.lo == other.lo }
}

// ---------------------------------------------------------------------------------------------
// the ONE specification both sides are held to
// ---------------------------------------------------------------------------------------------
/// recorded balance of a token side: a pure market keeps everything on the long side
pub open spec fn recorded_of(pure: bool, long: u64, short: u64, is_long_token: bool) -> int {
    if is_long_token || pure { long as int } else { short as int }
}
/// which side a token is on: the long token first (a pure market has long == short: the long side)
pub open spec fn side_of(m: MarketMeta, token: Pubkey) -> Option<bool> {
    if token == m.long_token_mint { Some(true) } else if token == m.short_token_mint { Some(false) } else { None }
}
/// swap fee parameters by pricing kind: a shift pays no swap fee factors, every other kind the configured ones
pub open spec fn swap_fee_of(c: Cfg, k: SwapPricingKind) -> FeeParams {
    match k {
        SwapPricingKind::Shift => FeeParams { positive: 0, negative: 0, receiver: c.swap_fee_receiver_factor, discount: None },
        _ => FeeParams { positive: c.swap_fee_factor_for_positive_impact, negative: c.swap_fee_factor_for_negative_impact, receiver: c.swap_fee_receiver_factor, discount: None },
    }
}
/// order fee parameters: the configured factors with the discount factor of the order's owner
pub open spec fn order_fee_of(c: Cfg, discount: u128) -> FeeParams {
    FeeParams { positive: c.order_fee_factor_for_positive_impact, negative: c.order_fee_factor_for_negative_impact, receiver: c.order_fee_receiver_factor, discount: Some(discount) }
}

// ---------------------------------------------------------------------------------------------
// carriers shared by both sides
// ---------------------------------------------------------------------------------------------
//@struct crates/utils/src/market.rs :: pub struct MarketMeta :: market_token_mint, index_token_mint, long_token_mint, short_token_mint
#[derive(Clone, Copy)]
pub struct MarketMeta { pub market_token_mint: Pubkey, pub index_token_mint: Pubkey, pub long_token_mint: Pubkey, pub short_token_mint: Pubkey }

/// the six configuration fields the two fee groups read (same field names in the program's `MarketConfig` and in the
/// IDL-declared SDK type: a renamed field on either side no longer compiles here = undecided, never an alarm)
#[derive(Clone, Copy)]
pub struct Cfg {
    pub swap_fee_receiver_factor: u128, pub swap_fee_factor_for_positive_impact: u128, pub swap_fee_factor_for_negative_impact: u128,
    pub order_fee_receiver_factor: u128, pub order_fee_factor_for_positive_impact: u128, pub order_fee_factor_for_negative_impact: u128,
}

/// both crates declare their own `SwapPricingKind` with these four variants
#[derive(Clone, Copy)]
pub enum SwapPricingKind { Swap, Deposit, Withdrawal, Shift }

/// `gmsol_model::params::FeeParams<u128>` with its typed-builder (derive macro of a dependency: carrier, trusted):
/// the three factor setters fill their field, the discount defaults to `None`, `build` needs all three
#[derive(Clone, Copy)]
pub struct FeeParams { pub positive: u128, pub negative: u128, pub receiver: u128, pub discount: Option<u128> }
pub struct FeeParamsBuilder { pub positive: Option<u128>, pub negative: Option<u128>, pub receiver: Option<u128> }
impl FeeParams {
    pub fn builder() -> (r: FeeParamsBuilder) ensures r.positive.is_none() && r.negative.is_none() && r.receiver.is_none()
    { FeeParamsBuilder { positive: None, negative: None, receiver: None } }
    pub fn receiver_factor(&self) -> (r: &u128) ensures *r == self.receiver { &self.receiver }
    pub fn with_discount_factor(self, factor: u128) -> (r: FeeParams) ensures r == (FeeParams { discount: Some(factor), ..self })
    { FeeParams { discount: Some(factor), ..self } }
}
impl FeeParamsBuilder {
    pub fn fee_receiver_factor(self, v: u128) -> (r: FeeParamsBuilder) requires self.receiver.is_none() ensures r == (FeeParamsBuilder { receiver: Some(v), ..self })
    { FeeParamsBuilder { receiver: Some(v), ..self } }
    pub fn positive_impact_fee_factor(self, v: u128) -> (r: FeeParamsBuilder) requires self.positive.is_none() ensures r == (FeeParamsBuilder { positive: Some(v), ..self })
    { FeeParamsBuilder { positive: Some(v), ..self } }
    pub fn negative_impact_fee_factor(self, v: u128) -> (r: FeeParamsBuilder) requires self.negative.is_none() ensures r == (FeeParamsBuilder { negative: Some(v), ..self })
    { FeeParamsBuilder { negative: Some(v), ..self } }
    pub fn build(self) -> (r: FeeParams) requires self.positive.is_some() && self.negative.is_some() && self.receiver.is_some()
        ensures r == (FeeParams { positive: self.positive.unwrap(), negative: self.negative.unwrap(), receiver: self.receiver.unwrap(), discount: None })
    { FeeParams { positive: self.positive.unwrap(), negative: self.negative.unwrap(), receiver: self.receiver.unwrap(), discount: None } }
}

//@struct programs/store/src/states/market/mod.rs :: pub struct OtherState :: padding, rev, trade_count, long_token_balance, short_token_balance, funding_factor_per_second, reserved
#[derive(Clone, Copy)]
pub struct OtherState { pub long_token_balance: u64, pub short_token_balance: u64 }

// ---------------------------------------------------------------------------------------------
// the token side: the program's MarketMeta::to_token_side and the SDK's MarketMeta::token_side
// ---------------------------------------------------------------------------------------------
impl MarketMeta {
//@unit C40.prog.MarketMeta.to_token_side
//@ file crates/utils/src/market.rs
//@ within impl MarketMeta
//@ fn to_token_side
//@ sig fn to_token_side(&self, token: &Pubkey) -> MarketResult<bool>
//@ sub MarketError::NotACollateralToken => E::Other
    pub fn to_token_side(&self, token: &Pubkey) -> (r: Result<bool, E>)
        ensures r.is_ok() == side_of(*self, *token).is_some(), r.is_ok() ==> r.unwrap() == side_of(*self, *token).unwrap()
//@body

//@unit C40.sdk.MarketMeta.token_side
//@ file crates/programs/src/model/market.rs
//@ within impl MarketMeta
//@ fn token_side
//@ sig fn token_side(&self, token: &Pubkey) -> gmsol_model::Result<bool>
    pub fn token_side(&self, token: &Pubkey) -> (r: Result<bool, E>)
        ensures r.is_ok() == side_of(*self, *token).is_some(), r.is_ok() ==> r.unwrap() == side_of(*self, *token).unwrap()
//@body
}

// ---------------------------------------------------------------------------------------------
// program side
// ---------------------------------------------------------------------------------------------
/// carrier of the program's `Market` as RevertibleMarket sees it: its configuration and its purity flag
/// (`is_pure()` == the Pure bit; bit agreement with the SDK is a Kani obligation: c40_base_config_agrees)
pub struct PMarket { pub config: Cfg, pub pure: bool }
impl PMarket {
    pub fn is_pure(&self) -> (r: bool) ensures r == self.pure { self.pure }

//@unit C40.prog.Market.swap_fee_params
//@ file programs/store/src/states/market/model.rs
//@ within impl gmsol_model::SwapMarket<{ constants::MARKET_DECIMALS }> for Market
//@ fn swap_fee_params
//@ sig fn swap_fee_params(&self) -> gmsol_model::Result<FeeParams<Self::Num>>
    pub fn swap_fee_params(&self) -> (r: Result<FeeParams, E>)
        ensures r.is_ok() && r.unwrap() == swap_fee_of(self.config, SwapPricingKind::Swap)
//@body

//@unit C40.prog.Market.order_fee_params
//@ file programs/store/src/states/market/model.rs
//@ within impl gmsol_model::PerpMarket<{ constants::MARKET_DECIMALS }> for Market
//@ fn order_fee_params
//@ sig fn order_fee_params(&self) -> gmsol_model::Result<FeeParams<Self::Num>>
    pub fn order_fee_params(&self) -> (r: Result<FeeParams, E>)
        ensures r.is_ok() && r.unwrap() == (FeeParams { discount: None, ..order_fee_of(self.config, 0) })
//@body
}

/// carrier of `RevertibleMarket`: the market, the recorded balances behind `other()` / `other_mut()` (the revertible
/// buffer's copy of `OtherState`, C16), the discount factor and the pricing kind
pub struct RM { pub market: PMarket, pub other_state: OtherState, pub order_fee_discount_factor: u128, pub swap_pricing: SwapPricingKind }
impl RM {
    fn other(&self) -> (r: &OtherState) ensures *r == self.other_state { &self.other_state }
    fn other_mut(&mut self) -> (r: &mut OtherState)
        ensures *r == old(self).other_state, *final(self) == (RM { other_state: *final(r), ..*old(self) })
    { &mut self.other_state }

//@unit C40.prog.RevertibleMarket.balance_for_token
//@ file programs/store/src/states/market/revertible/market.rs
//@ within impl<'a, 'info> RevertibleMarket<'a, 'info>
//@ fn balance_for_token
//@ sig fn balance_for_token(&self, is_long_token: bool) -> u64
    fn balance_for_token(&self, is_long_token: bool) -> (r: u64)
        ensures r == recorded_of(self.market.pure, self.other_state.long_token_balance, self.other_state.short_token_balance, is_long_token)
//@body

//@unit C40.prog.RevertibleMarket.record_transferred_in
//@ file programs/store/src/states/market/revertible/market.rs
//@ within impl<'a, 'info> RevertibleMarket<'a, 'info>
//@ fn record_transferred_in
//@ sig fn record_transferred_in(&mut self, is_long_token: bool, amount: u64) -> Result<()>
    fn record_transferred_in(&mut self, is_long_token: bool, amount: u64) -> (r: Result<(), E>)
        ensures
            r.is_ok() == (recorded_of(old(self).market.pure, old(self).other_state.long_token_balance, old(self).other_state.short_token_balance, is_long_token) + amount <= u64::MAX),
            r.is_ok() ==> final(self).other_state == moved_in(old(self).market.pure, old(self).other_state, is_long_token, amount),
            r.is_err() ==> final(self).other_state == old(self).other_state,
            *final(self) == (RM { other_state: final(self).other_state, ..*old(self) }),
//@body

//@unit C40.prog.RevertibleMarket.record_transferred_out
//@ file programs/store/src/states/market/revertible/market.rs
//@ within impl<'a, 'info> RevertibleMarket<'a, 'info>
//@ fn record_transferred_out
//@ sig fn record_transferred_out(&mut self, is_long_token: bool, amount: u64) -> Result<()>
    fn record_transferred_out(&mut self, is_long_token: bool, amount: u64) -> (r: Result<(), E>)
        ensures
            r.is_ok() == (amount <= recorded_of(old(self).market.pure, old(self).other_state.long_token_balance, old(self).other_state.short_token_balance, is_long_token)),
            r.is_ok() ==> final(self).other_state == moved_out(old(self).market.pure, old(self).other_state, is_long_token, amount),
            r.is_err() ==> final(self).other_state == old(self).other_state,
            *final(self) == (RM { other_state: final(self).other_state, ..*old(self) }),
//@body

//@unit C40.prog.RevertibleMarket.swap_fee_params
//@ file programs/store/src/states/market/revertible/market.rs
//@ within impl gmsol_model::SwapMarket<{ constants::MARKET_DECIMALS }> for RevertibleMarket<'_, '_>
//@ fn swap_fee_params
//@ sig fn swap_fee_params(&self) -> gmsol_model::Result<FeeParams<Factor>>
    pub fn swap_fee_params(&self) -> (r: Result<FeeParams, E>)
        ensures r.is_ok() && r.unwrap() == swap_fee_of(self.market.config, self.swap_pricing)
//@body

//@unit C40.prog.RevertibleMarket.order_fee_params
//@ file programs/store/src/states/market/revertible/market.rs
//@ within impl gmsol_model::PerpMarket<{ constants::MARKET_DECIMALS }> for RevertibleMarket<'_, '_>
//@ fn order_fee_params
//@ sig fn order_fee_params(&self) -> gmsol_model::Result<FeeParams<Self::Num>>
    pub fn order_fee_params(&self) -> (r: Result<FeeParams, E>)
        ensures r.is_ok() && r.unwrap() == order_fee_of(self.market.config, self.order_fee_discount_factor)
//@body
}

/// the whole effect of recording an incoming / outgoing amount on the two recorded balances
pub open spec fn moved_in(pure: bool, o: OtherState, is_long_token: bool, amount: u64) -> OtherState {
    if pure || is_long_token { OtherState { long_token_balance: (o.long_token_balance + amount) as u64, ..o } }
    else { OtherState { short_token_balance: (o.short_token_balance + amount) as u64, ..o } }
}
pub open spec fn moved_out(pure: bool, o: OtherState, is_long_token: bool, amount: u64) -> OtherState {
    if pure || is_long_token { OtherState { long_token_balance: (o.long_token_balance - amount) as u64, ..o } }
    else { OtherState { short_token_balance: (o.short_token_balance - amount) as u64, ..o } }
}

// ---------------------------------------------------------------------------------------------
// SDK side
// ---------------------------------------------------------------------------------------------
/// the SDK's private copy of the market flag names (bit positions: Kani, c40_base_config_agrees / c40_closed_market_params_agree)
pub enum MarketFlag { Enabled, Pure, AutoDeleveragingEnabledForLong, AutoDeleveragingEnabledForShort, GTEnabled, Closed }
pub struct SdkState { pub other: OtherState }
/// carrier of the SDK's IDL-declared `Market` (behind `Arc`; `Deref` / `Arc::make_mut` of a model are the market itself)
pub struct SMarket { pub config: Cfg, pub state: SdkState, pub pure: bool }
impl SMarket {
    pub fn flag(&self, flag: MarketFlag) -> (r: bool) ensures flag is Pure ==> r == self.pure
    { match flag { MarketFlag::Pure => self.pure, _ => false } }
}
pub struct MM { pub market: SMarket, pub supply: u64, pub swap_pricing: SwapPricingKind, pub order_fee_discount_factor: u128 }
impl MM {
//@unit C40.sdk.MarketModel.balance_for_token
//@ file crates/programs/src/model/market.rs
//@ within impl MarketModel
//@ fn balance_for_token
//@ sig fn balance_for_token(&self, is_long_token: bool) -> u64
//@ sub &self\.state\.other => &self.market.state.other
    fn balance_for_token(&self, is_long_token: bool) -> (r: u64)
        ensures r == recorded_of(self.market.pure, self.market.state.other.long_token_balance, self.market.state.other.short_token_balance, is_long_token)
//@body

//@unit C40.sdk.MarketModel.record_transferred_in
//@ file crates/programs/src/model/market.rs
//@ within impl MarketModel
//@ fn record_transferred_in
//@ sig fn record_transferred_in( &mut self, is_long_token: bool, amount: u64, ) -> gmsol_model::Result<()>
//@ sub self\.make_market_mut\(\) => self.market
    fn record_transferred_in(&mut self, is_long_token: bool, amount: u64) -> (r: Result<(), E>)
        ensures
            r.is_ok() == (recorded_of(old(self).market.pure, old(self).market.state.other.long_token_balance, old(self).market.state.other.short_token_balance, is_long_token) + amount <= u64::MAX),
            r.is_ok() ==> final(self).market.state.other == moved_in(old(self).market.pure, old(self).market.state.other, is_long_token, amount),
            r.is_err() ==> final(self).market.state.other == old(self).market.state.other,
            *final(self) == (MM { market: SMarket { state: SdkState { other: final(self).market.state.other }, ..old(self).market }, ..*old(self) }),
//@body

//@unit C40.sdk.MarketModel.record_transferred_out
//@ file crates/programs/src/model/market.rs
//@ within impl MarketModel
//@ fn record_transferred_out
//@ sig fn record_transferred_out( &mut self, is_long_token: bool, amount: u64, ) -> gmsol_model::Result<()>
//@ sub self\.make_market_mut\(\) => self.market
    fn record_transferred_out(&mut self, is_long_token: bool, amount: u64) -> (r: Result<(), E>)
        ensures
            r.is_ok() == (amount <= recorded_of(old(self).market.pure, old(self).market.state.other.long_token_balance, old(self).market.state.other.short_token_balance, is_long_token)),
            r.is_ok() ==> final(self).market.state.other == moved_out(old(self).market.pure, old(self).market.state.other, is_long_token, amount),
            r.is_err() ==> final(self).market.state.other == old(self).market.state.other,
            *final(self) == (MM { market: SMarket { state: SdkState { other: final(self).market.state.other }, ..old(self).market }, ..*old(self) }),
//@body

//@unit C40.sdk.MarketModel.swap_fee_params
//@ file crates/programs/src/model/market.rs
//@ within impl gmsol_model::SwapMarket<{ constants::MARKET_DECIMALS }> for MarketModel
//@ fn swap_fee_params
//@ sig fn swap_fee_params(&self) -> gmsol_model::Result<FeeParams<Self::Num>>
//@ sub self\.config\. => self.market.config.
    pub fn swap_fee_params(&self) -> (r: Result<FeeParams, E>)
        ensures r.is_ok() && r.unwrap() == swap_fee_of(self.market.config, self.swap_pricing)
//@body

//@unit C40.sdk.MarketModel.order_fee_params
//@ file crates/programs/src/model/market.rs
//@ within impl gmsol_model::PerpMarket<{ constants::MARKET_DECIMALS }> for MarketModel
//@ fn order_fee_params
//@ sig fn order_fee_params(&self) -> gmsol_model::Result<FeeParams<Self::Num>>
//@ sub self\.config\. => self.market.config.
    pub fn order_fee_params(&self) -> (r: Result<FeeParams, E>)
        ensures r.is_ok() && r.unwrap() == order_fee_of(self.market.config, self.order_fee_discount_factor)
//@body
}

// ---------------------------------------------------------------------------------------------
// the agreement, as consequences of the contracts above (same state in, same result and same state out)
// ---------------------------------------------------------------------------------------------
pub open spec fn same_view(p: RM, s: MM) -> bool {
    p.market.pure == s.market.pure && p.market.config == s.market.config && p.other_state == s.market.state.other
        && p.order_fee_discount_factor == s.order_fee_discount_factor && p.swap_pricing == s.swap_pricing
}

/// running the same operation on both sides from the same view ends in the same view with the same result
fn twin_run(p: &mut RM, s: &mut MM, is_long_token: bool, amount: u64, incoming: bool)
    requires same_view(*old(p), *old(s)),
    ensures same_view(*final(p), *final(s)),
{
    let a = p.balance_for_token(is_long_token);
    let b = s.balance_for_token(is_long_token);
    assert(a == b);
    let x = p.swap_fee_params();
    let y = s.swap_fee_params();
    assert(x.unwrap() == y.unwrap());
    let x = p.order_fee_params();
    let y = s.order_fee_params();
    assert(x.unwrap() == y.unwrap());
    if incoming {
        let ra = p.record_transferred_in(is_long_token, amount);
        let rb = s.record_transferred_in(is_long_token, amount);
        assert(ra.is_ok() == rb.is_ok());
    } else {
        let ra = p.record_transferred_out(is_long_token, amount);
        let rb = s.record_transferred_out(is_long_token, amount);
        assert(ra.is_ok() == rb.is_ok());
    }
}
} // verus!
