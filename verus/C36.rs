//@prelude u128
// =================================================================================================
// C36  Timelocked instructions run only as approved, after the delay  (header state machine and delay)
//      programs/timelock/src/states/instruction.rs :: InstructionHeader::{approve, is_approved, approved_at, apporver, is_executable}
//      programs/timelock/src/states/config.rs      :: TimelockConfig::{increase_delay, delay}
//      crates/utils/src/pubkey.rs                  :: optional_address
// =================================================================================================
verus! {
// ASSUMED std contract (vstd has none). Not used by the repaired code; kept so that the defect repaired by the
// `fix:` commit (saturating sum) is reported as a VIOLATION, not as an unsupported construct, if it ever returns.
pub assume_specification [i64::saturating_add_unsigned] (a: i64, b: u64) -> (r: i64)
    ensures r == (if a + b <= i64::MAX { a + b } else { i64::MAX as int });

/// 32-byte address as two 128-bit words (a faithful value carrier; equality is structural)
#[derive(Clone, Copy, Eq)]
pub struct Pubkey { pub hi: u128, pub lo: u128 }
impl PartialEqSpecImpl for Pubkey {
    open spec fn obeys_eq_spec() -> bool { true }
    open spec fn eq_spec(&self, other: &Pubkey) -> bool { *self == *other }
}
impl PartialEq for Pubkey {
    fn eq(&self, other: &Pubkey) -> (r: bool) { self.hi == other.hi && self.lo == other.lo }
}
/// `Pubkey::new_from_array([0; 32])`
pub const DEFAULT_PUBKEY: Pubkey = Pubkey { hi: 0, lo: 0 };

/// solana Clock sysvar: only the field read here. `Clock::get()` is an arbitrary (possibly failing) read.
pub struct Clock { pub unix_timestamp: i64 }
/// the clock value observed by the call under verification (uninterpreted: any i64)
pub uninterp spec fn now_spec() -> i64;
#[verifier::external_body]
pub fn clock_get() -> (r: Result<Clock, E>) ensures r.is_ok() ==> r.unwrap().unix_timestamp == now_spec() { unimplemented!() }

pub enum InstructionFlag { Approved }
/// Carrier for the flags!-generated bit container (one flag)
#[derive(Clone, Copy)]
pub struct InstructionFlagContainer { pub approved: bool }
impl InstructionFlagContainer {
    pub fn get_flag(&self, flag: InstructionFlag) -> (r: bool) ensures r == self.approved { self.approved }
    pub fn set_flag(&mut self, flag: InstructionFlag, value: bool) -> (r: bool)
        ensures final(self).approved == value, r == old(self).approved
    { let o = self.approved; self.approved = value; o }
}

//@unit C36.optional_address
//@ file crates/utils/src/pubkey.rs
//@ fn optional_address
//@ sig fn optional_address(pubkey: &Pubkey) -> Option<&Pubkey>
pub fn optional_address(pubkey: &Pubkey) -> (r: Option<&Pubkey>)
    ensures r.is_some() <==> *pubkey != DEFAULT_PUBKEY, r.is_some() ==> *r.unwrap() == *pubkey
//@body

//@struct programs/timelock/src/states/instruction.rs :: pub struct InstructionHeader :: version, flags, wallet_bump, padding_0, approved_at, executor, program_id, num_accounts, data_len, padding_1, rent_receiver, approver, reserved
#[derive(Clone, Copy)]
pub struct InstructionHeader { pub flags: InstructionFlagContainer, pub approved_at: i64, pub approver: Pubkey, pub executor: Pubkey, pub program_id: Pubkey, pub num_accounts: u16, pub data_len: u16 }

/// the Approved flag is set exactly when an approver is recorded (established by zero-init, preserved by approve)
pub open spec fn header_wf(h: InstructionHeader) -> bool { h.flags.approved <==> h.approver != DEFAULT_PUBKEY }

impl InstructionHeader {
//@unit C36.InstructionHeader.is_approved
//@ file programs/timelock/src/states/instruction.rs
//@ within impl InstructionHeader
//@ fn is_approved
//@ sig fn is_approved(&self) -> bool
    pub fn is_approved(&self) -> (r: bool)
        ensures r == self.flags.approved
//@body

//@unit C36.InstructionHeader.approved_at
//@ file programs/timelock/src/states/instruction.rs
//@ within impl InstructionHeader
//@ fn approved_at
//@ sig fn approved_at(&self) -> Option<i64>
//@ sub self\.is_approved\(\)\.then_some\(self\.approved_at\) => (if self.is_approved() { Some(self.approved_at) } else { None })
    pub fn approved_at(&self) -> (r: Option<i64>)
        ensures r == (if self.flags.approved { Some(self.approved_at) } else { None::<i64> })
//@body

//@unit C36.InstructionHeader.apporver
//@ file programs/timelock/src/states/instruction.rs
//@ within impl InstructionHeader
//@ fn apporver
//@ sig fn apporver(&self) -> Option<&Pubkey>
    pub fn apporver(&self) -> (r: Option<&Pubkey>)
        ensures r.is_some() <==> self.approver != DEFAULT_PUBKEY, r.is_some() ==> *r.unwrap() == self.approver
//@body

//@unit C36.InstructionHeader.approve
//@ file programs/timelock/src/states/instruction.rs
//@ within impl InstructionHeader
//@ fn approve
//@ sig fn approve(&mut self, approver: Pubkey) -> Result<()>
//@ sub Clock::get\(\)\? => clock_get()?
    pub fn approve(&mut self, approver: Pubkey) -> (r: Result<(), E>)
        ensures
            // approval happens at most once: an approved header rejects, and nothing changes on rejection
            // (header_wf: the Approved flag and the recorded approver are set together -- approve is the only writer)
            (header_wf(*old(self)) && old(self).flags.approved) ==> r.is_err(),
            r.is_ok() ==> header_wf(*final(self)),
            approver == DEFAULT_PUBKEY ==> r.is_err(),
            r.is_err() ==> *final(self) == *old(self),
            // success records the approver and marks the header approved; the buffered instruction is untouched
            r.is_ok() ==> final(self).flags.approved && final(self).approver == approver && approver != DEFAULT_PUBKEY && final(self).approved_at == now_spec()
                && final(self).executor == old(self).executor && final(self).program_id == old(self).program_id
                && final(self).num_accounts == old(self).num_accounts && final(self).data_len == old(self).data_len,
//@body

//@unit C36.InstructionHeader.is_executable
//@ file programs/timelock/src/states/instruction.rs
//@ within impl InstructionHeader
//@ fn is_executable
//@ sig fn is_executable(&self, delay: u32) -> Result<bool>
//@ sub Clock::get\(\)\? => clock_get()?
    pub fn is_executable(&self, delay: u32) -> (r: Result<bool, E>)
        ensures
            // executable only if approved AND at least `delay` seconds have passed since the approval
            r.is_ok() && r.unwrap() ==> self.flags.approved && now_spec() - self.approved_at >= delay,
            // and exactly then
            r.is_ok() && !r.unwrap() ==> !self.flags.approved || now_spec() < self.approved_at + delay,
//@body
}
//@struct programs/timelock/src/states/config.rs :: pub struct TimelockConfig :: version, bump, padding_0, delay, padding_1, store, reserved
pub struct TimelockConfig { pub delay: u32, pub store: Pubkey }
impl TimelockConfig {
//@unit C36.TimelockConfig.increase_delay
//@ file programs/timelock/src/states/config.rs
//@ within impl TimelockConfig
//@ fn increase_delay
//@ sig fn increase_delay(&mut self, delta: u32) -> Result<u32>
    pub fn increase_delay(&mut self, delta: u32) -> (r: Result<u32, E>)
        ensures
            // the delay can only increase
            final(self).delay >= old(self).delay,
            r.is_ok() ==> final(self).delay == old(self).delay + delta && r.unwrap() == final(self).delay,
            r.is_err() ==> *final(self) == *old(self),
            r.is_ok() <==> old(self).delay + delta <= u32::MAX,
            final(self).store == old(self).store,
//@body

//@unit C36.TimelockConfig.delay
//@ file programs/timelock/src/states/config.rs
//@ within impl TimelockConfig
//@ fn delay
//@ sig fn delay(&self) -> u32
    pub fn delay(&self) -> (r: u32)
        ensures r == self.delay
//@body
}
} // verus!
