//@include inc/model_base_u128.rs
//@include inc/glue_u128.rs
//@include inc/price.rs
//@include inc/pow10.rs
//@include inc/decimal.rs
// =================================================================================================
// C29  An adjusted oracle price stays inside the allowed band
//      programs/store/src/states/oracle/mod.rs :: try_adjust_price_with_max_deviation_factor
//      (private free function, extracted by text: no hook needed)
// =================================================================================================
//@const programs/store/src/constants/mod.rs :: MARKET_DECIMALS :: u8 = Decimal::MAX_DECIMALS
//@include inc/oracle_price.rs
verus! {
//@unit C29.try_adjust_price_with_max_deviation_factor
//@ file programs/store/src/states/oracle/mod.rs
//@ fn try_adjust_price_with_max_deviation_factor
//@ sig fn try_adjust_price_with_max_deviation_factor( factor: &u128, price: &gmsol_utils::Price, ref_price: Option<&Decimal>, ) -> Option<gmsol_utils::Price>
//@ sub use gmsol_model::utils::apply_factor; => 
//@ top :: proof { let reference = reference_of(*price, ref_price); let dev = dev_of(*price, ref_price, *factor); lemma_p10_pos(price.max.decimal_multiplier as nat); lemma_p10_pos(price.min.decimal_multiplier as nat); if reference + dev >= 0 { lemma_floor_step(reference + dev, p10(price.max.decimal_multiplier as nat)); } if reference - dev >= 0 { lemma_ceil_step(reference - dev, p10(price.min.decimal_multiplier as nat)); } }
//@ sub gmsol_model::price::Price::<u128>::from\(price\) => PriceP::from(price)
//@ sub adjusted_price\.get_or_insert\(\*price\)\.(max|min) = ([^;]*); => { let mut slot_ = match adjusted_price { Some(a_) => a_, None => *price }; slot_.\1 = \2; adjusted_price = Some(slot_); }
pub fn try_adjust_price_with_max_deviation_factor(factor: &u128, price: &UPrice, ref_price: Option<&Decimal>) -> (r: Option<UPrice>)
    requires
        dec_wf(price.min), dec_wf(price.max),
        ref_price.is_some() ==> dec_wf(*ref_price.unwrap()),
    ensures
        // The statement: an adjusted price that is not inverted (min <= max) lies entirely inside
        // [reference - deviation, reference + deviation]; reference = explicit ref price or the mid price,
        // deviation = floor(reference * factor / 10^20). (Inverted results and the `None` case -- nothing to
        // adjust, or cannot adjust -- are rejected/validated by the caller's PriceValidator, C24.)
        r.is_some() && unit_price(r.unwrap().min) <= unit_price(r.unwrap().max)
            ==> in_band(unit_price(r.unwrap().min), reference_of(*price, ref_price), dev_of(*price, ref_price, *factor))
             && in_band(unit_price(r.unwrap().max), reference_of(*price, ref_price), dev_of(*price, ref_price, *factor)),
        // side by side, also for a result that ends up inverted: the max side is never above the band, and it is inside the band unless
        // it IS the upper bound rounded down to the price's own step (a band narrower than one step); the min side is never below the
        // band, and inside it unless it IS the lower bound rounded up. In particular a side that lies on the wrong side of the
        // reference is always reset.
        r.is_some() ==> ({
            let reference = reference_of(*price, ref_price); let dev = dev_of(*price, ref_price, *factor);
            let (mx, mn) = (unit_price(r.unwrap().max), unit_price(r.unwrap().min));
            let (kx, kn) = (p10(price.max.decimal_multiplier as nat), p10(price.min.decimal_multiplier as nat));
            &&& mx <= reference + dev && (mx >= reference - dev || mx == ((reference + dev) / kx) * kx)
            &&& mn >= reference - dev && (mn <= reference + dev || mn == ((reference - dev + kn - 1) / kn) * kn)
        }),
//@body

} // verus!
