//@include inc/model_base_u128.rs
//@include inc/glue_u128.rs
//@include inc/price.rs
//@include inc/pow10.rs
//@include inc/decimal.rs
// =================================================================================================
// C29  An adjusted oracle price stays inside the allowed band
//      programs/store/src/states/oracle/mod.rs :: try_adjust_price_with_max_deviation_factor
//      (private free function, extracted by text: no hook needed)
// =================================================================================================
//@const programs/store/src/constants/mod.rs :: MARKET_DECIMALS :: u8 = Decimal::MAX_DECIMALS
verus! {
// ASSUMED std contract (vstd has none)
pub assume_specification [u128::abs_diff] (a: u128, b: u128) -> (r: u128)
    ensures r == (if a >= b { a - b } else { b - a });

//@struct crates/utils/src/price/mod.rs :: pub struct Price :: min, max
#[derive(Clone, Copy, Debug)]
pub struct UPrice { pub min: Decimal, pub max: Decimal }

impl Price {
//@unit C29.Price.checked_mid
//@ file crates/model/src/price.rs
//@ within impl<T> Price<T> where T: CheckedAdd + CheckedDiv + num_traits::One,
//@ fn checked_mid
//@ sig fn checked_mid(&self) -> Option<T>
//@ sub \.and_then\(\|p\| p\.checked_div\(&two\)\) => .and_then(|p: N| -> (o: Option<N>) ensures o == Some(N((p@ / 2) as u128)) { p.checked_div(&two) })
    pub fn checked_mid(&self) -> (r: Option<N>)
        ensures
            r.is_some() <==> self.min@ + self.max@ <= umax(),
            r.is_some() ==> r.unwrap()@ == (self.min@ + self.max@) / 2,
//@body
}

impl PriceP {
//@unit C29.PriceP.from
//@ file crates/model/src/price.rs
//@ within impl<'a> From<&'a gmsol_utils::price::Price> for Price<u128>
//@ fn from
//@ sig fn from(value: &'a gmsol_utils::price::Price) -> Self
    pub fn from(value: &UPrice) -> (r: PriceP)
        requires dec_wf(value.min), dec_wf(value.max)
        ensures r.min == unit_price(value.min), r.max == unit_price(value.max)
//@body

    /// glue: u128-typed forwarding wrapper to the N-level verified `Price::checked_mid`
    pub fn checked_mid(&self) -> (r: Option<u128>)
        ensures
            r.is_some() <==> self.min + self.max <= umax(),
            r.is_some() ==> r.unwrap() == (self.min + self.max) / 2,
    {
        match (Price { min: N(self.min), max: N(self.max) }).checked_mid() { Some(x) => Some(x.0), None => None }
    }
}

/// the allowed band around the reference: [ref - dev, ref + dev], dev = floor(ref * factor / U)
pub open spec fn deviation(reference: int, factor: int) -> int { mul_div_floor(reference, factor, uunit()) }
pub open spec fn reference_of(price: UPrice, ref_price: Option<&Decimal>) -> int {
    match ref_price { Some(d) => unit_price(*d), None => (unit_price(price.min) + unit_price(price.max)) / 2 }
}
pub open spec fn dev_of(price: UPrice, ref_price: Option<&Decimal>, factor: u128) -> int { deviation(reference_of(price, ref_price), factor as int) }
pub open spec fn in_band(p: int, reference: int, dev: int) -> bool { reference - dev <= p <= reference + dev }

//@unit C29.try_adjust_price_with_max_deviation_factor
//@ file programs/store/src/states/oracle/mod.rs
//@ fn try_adjust_price_with_max_deviation_factor
//@ sig fn try_adjust_price_with_max_deviation_factor( factor: &u128, price: &gmsol_utils::Price, ref_price: Option<&Decimal>, ) -> Option<gmsol_utils::Price>
//@ sub use gmsol_model::utils::apply_factor; => 
//@ top :: proof { let reference = reference_of(*price, ref_price); let dev = dev_of(*price, ref_price, *factor); lemma_p10_pos(price.max.decimal_multiplier as nat); lemma_p10_pos(price.min.decimal_multiplier as nat); if reference + dev >= 0 { lemma_floor_step(reference + dev, p10(price.max.decimal_multiplier as nat)); } if reference - dev >= 0 { lemma_ceil_step(reference - dev, p10(price.min.decimal_multiplier as nat)); } }
//@ sub gmsol_model::price::Price::<u128>::from\(price\) => PriceP::from(price)
//@ sub adjusted_price\.get_or_insert\(\*price\)\.(max|min) = ([^;]*); => { let mut slot_ = match adjusted_price { Some(a_) => a_, None => *price }; slot_.\1 = \2; adjusted_price = Some(slot_); }
pub fn try_adjust_price_with_max_deviation_factor(factor: &u128, price: &UPrice, ref_price: Option<&Decimal>) -> (r: Option<UPrice>)
    requires
        dec_wf(price.min), dec_wf(price.max),
        ref_price.is_some() ==> dec_wf(*ref_price.unwrap()),
    ensures
        // The statement: an adjusted price that is not inverted (min <= max) lies entirely inside
        // [reference - deviation, reference + deviation]; reference = explicit ref price or the mid price,
        // deviation = floor(reference * factor / 10^20). (Inverted results and the `None` case -- nothing to
        // adjust, or cannot adjust -- are rejected/validated by the caller's PriceValidator, C24.)
        r.is_some() && unit_price(r.unwrap().min) <= unit_price(r.unwrap().max)
            ==> in_band(unit_price(r.unwrap().min), reference_of(*price, ref_price), dev_of(*price, ref_price, *factor))
             && in_band(unit_price(r.unwrap().max), reference_of(*price, ref_price), dev_of(*price, ref_price, *factor)),
//@body

pub proof fn lemma_floor_step(x: int, k: int) requires x >= 0, k > 0 ensures (x / k) * k <= x
{ lemma_fundamental_div_mod(x, k); lemma_mod_bound(x, k); lemma_mul_is_commutative(x / k, k); }
pub proof fn lemma_ceil_step(x: int, k: int) requires x >= 0, k > 0 ensures ((x + k - 1) / k) * k >= x
{ lemma_fundamental_div_mod(x + k - 1, k); lemma_mod_bound(x + k - 1, k); lemma_mul_is_commutative((x + k - 1) / k, k); }
} // verus!
