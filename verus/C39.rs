//@prelude u128
// =================================================================================================
// C39  Competition: the leaderboard step and the end-time extension
//      programs/competition/src/instructions/trade_callback.rs :: OnExecuted::{update_leaderboard, extend_competition_time}
// =================================================================================================
verus! {
// ASSUMED std contract (vstd has none)
pub assume_specification [i64::saturating_add] (a: i64, b: i64) -> (r: i64)
    ensures r == (if a + b > i64::MAX { i64::MAX as int } else if a + b < i64::MIN { i64::MIN as int } else { a + b });

#[derive(Clone, Copy, Eq)]
pub struct Pubkey { pub hi: u128, pub lo: u128 }
impl PartialEqSpecImpl for Pubkey {
    open spec fn obeys_eq_spec() -> bool { true }
    open spec fn eq_spec(&self, other: &Pubkey) -> bool { *self == *other }
}
impl PartialEq for Pubkey {
    fn eq(&self, other: &Pubkey) -> (r: bool) { self.hi == other.hi && self.lo == other.lo }
}
/// solana Clock sysvar: one uninterpreted clock value per call
pub struct Clock { pub unix_timestamp: i64 }
pub uninterp spec fn now_spec() -> i64;
#[verifier::external_body]
pub fn clock_get() -> (r: Result<Clock, E>) ensures r.is_ok() ==> r.unwrap().unix_timestamp == now_spec() { unimplemented!() }

//@struct programs/competition/src/states.rs :: pub struct Competition :: bump, authority, start_time, end_time, leaderboard, volume_threshold, extension_duration, extension_cap, extension_triggerer, only_count_increase, volume_merge_window
pub struct Competition { pub start_time: i64, pub end_time: i64, pub leaderboard: Vec<LeaderEntry>, pub volume_threshold: u128, pub extension_duration: i64, pub extension_cap: i64, pub extension_triggerer: Option<Pubkey>, pub only_count_increase: bool, pub volume_merge_window: i64 }
//@struct programs/competition/src/states.rs :: pub struct LeaderEntry :: address, volume
#[derive(Clone, Copy)]
pub struct LeaderEntry { pub address: Pubkey, pub volume: u128 }
//@struct programs/competition/src/states.rs :: pub struct Participant :: bump, competition, trader, volume, last_updated_at, merged_volume
pub struct Participant { pub trader: Pubkey, pub volume: u128, pub last_updated_at: i64, pub merged_volume: u128 }

/// wf(Competition): what initialize_competition enforces (start > now >= 0, end > start, duration > 0, cap >= duration)
pub open spec fn comp_wf(c: Competition) -> bool { c.end_time >= 0 && c.extension_duration > 0 && c.extension_cap >= c.extension_duration }
pub open spec fn later(a: int, b: int) -> int { if a >= b { a } else { b } }

//@unit C39.extend_competition_time
//@ file programs/competition/src/instructions/trade_callback.rs
//@ within impl OnExecuted<'_>
//@ fn extend_competition_time
//@ sig fn extend_competition_time( comp: &mut Competition, part: &Participant, volume: u128, ) -> Result<()>
//@ sub Clock::get\(\)\? => clock_get()?
pub fn extend_competition_time(comp: &mut Competition, part: &Participant, volume: u128) -> (r: Result<(), E>)
    requires comp_wf(*old(comp))
    ensures
        // never earlier
        final(comp).end_time >= old(comp).end_time,
        // never past the later of the old end time and trigger time + cap
        r.is_ok() ==> final(comp).end_time <= later(old(comp).end_time as int, now_spec() + old(comp).extension_cap),
        r.is_err() ==> *final(comp) == *old(comp),
        // the invariant assumed above is preserved (so the bound holds for every later extension too)
        comp_wf(*final(comp)),
        // only the end time and the recorded triggerer change
        *final(comp) == (Competition { end_time: final(comp).end_time, extension_triggerer: final(comp).extension_triggerer, ..*old(comp) }),
//@body

// ---- leaderboard -------------------------------------------------------------------------------------------
//@const programs/competition/src/states.rs :: MAX_LEADERBOARD_LEN :: u8 = 5
pub const MAX_LEADERBOARD_LEN: u8 = 5;

/// `slice::Iter::position`: index of the first element (front to back) satisfying the predicate (rule R17)
pub fn slice_position<F: Fn(&LeaderEntry) -> bool>(s: &Vec<LeaderEntry>, f: F) -> (r: Option<usize>)
    requires forall|x: &LeaderEntry| f.requires((x,))
    ensures
        r.is_some() ==> r.unwrap() < s.len() && f.ensures((&s[r.unwrap() as int],), true)
            && forall|j: int| 0 <= j < r.unwrap() ==> f.ensures((#[trigger] &s[j],), false),
        r.is_none() ==> forall|j: int| 0 <= j < s.len() ==> f.ensures((#[trigger] &s[j],), false),
{
    let mut i: usize = 0;
    while i < s.len()
        invariant i <= s.len(), forall|x: &LeaderEntry| f.requires((x,)), forall|j: int| 0 <= j < i ==> f.ensures((#[trigger] &s[j],), false)
        decreases s.len() - i
    {
        if f(&s[i]) { return Some(i); }
        i += 1;
    }
    None
}
/// `slice::Iter::rposition`: index (from the front) of the last element satisfying the predicate (rule R17)
pub fn slice_rposition<F: Fn(&LeaderEntry) -> bool>(s: &Vec<LeaderEntry>, f: F) -> (r: Option<usize>)
    requires forall|x: &LeaderEntry| f.requires((x,))
    ensures
        r.is_some() ==> r.unwrap() < s.len() && f.ensures((&s[r.unwrap() as int],), true)
            && forall|j: int| r.unwrap() < j < s.len() ==> f.ensures((#[trigger] &s[j],), false),
        r.is_none() ==> forall|j: int| 0 <= j < s.len() ==> f.ensures((#[trigger] &s[j],), false),
{
    let mut i: usize = s.len();
    while i > 0
        invariant i <= s.len(), forall|x: &LeaderEntry| f.requires((x,)), forall|j: int| i <= j < s.len() ==> f.ensures((#[trigger] &s[j],), false)
        decreases i
    {
        i -= 1;
        if f(&s[i]) { return Some(i); }
    }
    None
}

/// at most five entries, non-increasing volumes, pairwise distinct traders
pub open spec fn board_wf(b: Seq<LeaderEntry>) -> bool {
    &&& b.len() <= 5
    &&& forall|i: int, j: int| 0 <= i < j < b.len() ==> b[i].volume >= b[j].volume
    &&& forall|i: int, j: int| 0 <= i < j < b.len() ==> b[i].address != b[j].address
}
pub open spec fn shown(b: Seq<LeaderEntry>, k: Pubkey) -> bool { exists|i: int| 0 <= i < b.len() && b[i].address == k }
pub open spec fn shown_with(b: Seq<LeaderEntry>, k: Pubkey, v: u128) -> bool { exists|i: int| 0 <= i < b.len() && b[i].address == k && b[i].volume == v }
/// a participant who is left off: never traded, or the board is full and its last entry has at least as much volume
pub open spec fn left_off_ok(b: Seq<LeaderEntry>, volume: u128) -> bool { volume == 0 || (b.len() == 5 && volume <= b[4].volume) }

/// Precondition of one counted trade: the board is well formed, and a trader's cumulative volume only grows
/// (`part.volume = part.volume.saturating_add(volume)` at the call site), so it is at least the volume they are shown with.
#[verifier::opaque]
pub open spec fn step_pre(b0: Seq<LeaderEntry>, trader: Pubkey, vol: u128) -> bool {
    &&& board_wf(b0)
    &&& forall|i: int| 0 <= i < b0.len() && b0[i].address == trader ==> (#[trigger] b0[i]).volume <= vol
}
/// Postcondition of one counted trade (old board b0, new board b3), from the statement.
#[verifier::opaque]
pub open spec fn step_post(b0: Seq<LeaderEntry>, b3: Seq<LeaderEntry>, trader: Pubkey, vol: u128) -> bool {
    // at most five distinct traders in non-increasing order of volume
    &&& board_wf(b3)
    // the trader is shown with their latest volume, or is left off a full board whose last entry has at least as much
    &&& (shown_with(b3, trader, vol) || (!shown(b3, trader) && b3.len() == 5 && vol <= b3[4].volume))
    // every other trader that was shown is still shown with the same volume, or has been pushed off a full board whose
    // last entry has at least as much volume
    &&& forall|i: int| 0 <= i < b0.len() && b0[i].address != trader ==>
            shown_with(b3, (#[trigger] b0[i]).address, b0[i].volume) || (!shown(b3, b0[i].address) && b3.len() == 5 && b0[i].volume <= b3[4].volume)
    // nobody else appears
    &&& forall|i: int| 0 <= i < b3.len() ==> (#[trigger] b3[i]).address == trader || shown(b0, b3[i].address)
    // the board never loses a place, and the volume needed to stay on a full board never drops
    &&& b3.len() >= b0.len()
    &&& (b0.len() == 5 ==> b3[4].volume >= b0[4].volume)
}

pub open spec fn sub_board(a: Seq<LeaderEntry>, b: Seq<LeaderEntry>) -> bool { forall|j: int| 0 <= j < a.len() ==> shown_with(b, (#[trigger] a[j]).address, a[j].volume) }
/// state after the first half of update_leaderboard (the trader's old record, if any, removed): b1
#[verifier::opaque]
pub open spec fn step1_ok(b0: Seq<LeaderEntry>, b1: Seq<LeaderEntry>, trader: Pubkey, vol: u128) -> bool {
    &&& board_wf(b0) && board_wf(b1) && !shown(b1, trader) && sub_board(b1, b0)
    &&& forall|i: int| 0 <= i < b0.len() && b0[i].address != trader ==> shown_with(b1, (#[trigger] b0[i]).address, b0[i].volume)
    &&& ((b1.len() == b0.len() && !shown(b0, trader)) || (b1.len() == b0.len() - 1 && shown(b0, trader)))
    &&& (b0.len() > 0 ==> forall|j: int| 0 <= j < b1.len() ==> (#[trigger] b1[j]).volume >= b0[b0.len() - 1].volume)
    &&& (shown(b0, trader) ==> vol >= b0[b0.len() - 1].volume)
}
/// the insert position found by rposition: everything before has at least the new volume, everything from it on has less
#[verifier::opaque]
pub open spec fn pos_ok(b1: Seq<LeaderEntry>, ip: int, vol: u128) -> bool {
    &&& 0 <= ip <= b1.len()
    &&& forall|j: int| 0 <= j < ip ==> (#[trigger] b1[j]).volume >= vol
    &&& forall|j: int| ip <= j < b1.len() ==> (#[trigger] b1[j]).volume <= vol
}
pub open spec fn truncated(b2: Seq<LeaderEntry>) -> Seq<LeaderEntry> { if b2.len() > 5 { b2.subrange(0, 5) } else { b2 } }
pub open spec fn after_insert(b1: Seq<LeaderEntry>, ip: int, e: LeaderEntry) -> Seq<LeaderEntry> {
    if ip < 5 { truncated(b1.insert(ip, e)) } else { b1 }
}

/// inserting behind a full board and truncating again changes nothing (keeps the proof independent of whether the
/// code skips that insertion)
pub proof fn lemma_insert_at_end_of_full_board(b1: Seq<LeaderEntry>, e: LeaderEntry)
    ensures b1.len() == 5 ==> truncated(b1.insert(5, e)) =~= b1
{
}
pub proof fn lemma_no_removal(b0: Seq<LeaderEntry>, trader: Pubkey, vol: u128)
    requires step_pre(b0, trader, vol), forall|j: int| 0 <= j < b0.len() ==> (#[trigger] b0[j]).address != trader
    ensures step1_ok(b0, b0, trader, vol)
{
    reveal(step_pre); reveal(step1_ok);
    assert forall|j: int| 0 <= j < b0.len() implies shown_with(b0, (#[trigger] b0[j]).address, b0[j].volume) by { assert(b0[j].address == b0[j].address && b0[j].volume == b0[j].volume); }
    if b0.len() > 0 {
        assert forall|j: int| 0 <= j < b0.len() implies (#[trigger] b0[j]).volume >= b0[b0.len() - 1].volume by { if j < b0.len() - 1 { assert(b0[j].volume >= b0[b0.len() - 1].volume); } }
    }
}

pub proof fn lemma_remove_step(b0: Seq<LeaderEntry>, pos: int, trader: Pubkey, vol: u128)
    requires step_pre(b0, trader, vol), 0 <= pos < b0.len(), b0[pos].address == trader
    ensures step1_ok(b0, b0.remove(pos), trader, vol)
{
    reveal(step_pre); reveal(step1_ok);
    let b1 = b0.remove(pos);
    assert forall|j: int| 0 <= j < b1.len() implies b1[j] == b0[if j < pos { j } else { j + 1 }] by {}
    assert forall|j: int| 0 <= j < b1.len() implies shown_with(b0, (#[trigger] b1[j]).address, b1[j].volume) by {
        let w = if j < pos { j } else { j + 1 }; assert(b0[w].address == b1[j].address && b0[w].volume == b1[j].volume);
    }
    assert forall|i: int| 0 <= i < b0.len() && b0[i].address != trader implies shown_with(b1, (#[trigger] b0[i]).address, b0[i].volume) by {
        let w = if i < pos { i } else { i - 1 }; assert(b1[w].address == b0[i].address && b1[w].volume == b0[i].volume);
    }
    assert(!shown(b1, trader)) by {
        if shown(b1, trader) { let j = choose|j: int| 0 <= j < b1.len() && b1[j].address == trader; let w = if j < pos { j } else { j + 1 }; assert(b0[w].address == trader); assert(w != pos); if w < pos { assert(b0[w].address != b0[pos].address); } else { assert(b0[pos].address != b0[w].address); } }
    }
    assert forall|i: int, j: int| 0 <= i < j < b1.len() implies b1[i].volume >= b1[j].volume && b1[i].address != b1[j].address by {
        let wi = if i < pos { i } else { i + 1 }; let wj = if j < pos { j } else { j + 1 }; assert(wi < wj); assert(b0[wi].volume >= b0[wj].volume && b0[wi].address != b0[wj].address);
    }
    assert forall|j: int| 0 <= j < b1.len() implies (#[trigger] b1[j]).volume >= b0[b0.len() - 1].volume by {
        let w = if j < pos { j } else { j + 1 }; if w < b0.len() - 1 { assert(b0[w].volume >= b0[b0.len() - 1].volume); }
    }
    assert(shown(b0, trader));
    assert(b0[pos].volume <= vol);
    if pos < b0.len() - 1 { assert(b0[pos].volume >= b0[b0.len() - 1].volume); }
}

pub proof fn lemma_pos(b0: Seq<LeaderEntry>, b1: Seq<LeaderEntry>, trader: Pubkey, vol: u128, ip: int)
    requires step1_ok(b0, b1, trader, vol), 0 <= ip <= b1.len(), ip > 0 ==> b1[ip - 1].volume >= vol,
        forall|j: int| ip <= j < b1.len() ==> (#[trigger] b1[j]).volume <= vol,
    ensures pos_ok(b1, ip, vol), b1.len() <= 5
{
    reveal(step1_ok); reveal(pos_ok);
    assert forall|j: int| 0 <= j < ip implies (#[trigger] b1[j]).volume >= vol by { if j < ip - 1 { assert(b1[j].volume >= b1[ip - 1].volume); } }
}

pub proof fn lemma_insert_step(b1: Seq<LeaderEntry>, ip: int, e: LeaderEntry)
    requires board_wf(b1), !shown(b1, e.address), 0 <= ip <= b1.len(),
        forall|j: int| 0 <= j < ip ==> (#[trigger] b1[j]).volume >= e.volume,
        forall|j: int| ip <= j < b1.len() ==> (#[trigger] b1[j]).volume <= e.volume,
    ensures ({ let b2 = b1.insert(ip, e);
        &&& b2.len() == b1.len() + 1 && b2[ip] == e
        &&& forall|i: int, j: int| 0 <= i < j < b2.len() ==> b2[i].volume >= b2[j].volume && b2[i].address != b2[j].address
        &&& sub_board(b1, b2)
        &&& forall|i: int| 0 <= i < b2.len() ==> (#[trigger] b2[i]) == e || shown_with(b1, b2[i].address, b2[i].volume)
    })
{
    let b2 = b1.insert(ip, e);
    assert forall|i: int| 0 <= i < b2.len() implies b2[i] == (if i < ip { b1[i] } else if i == ip { e } else { b1[i - 1] }) by {}
    assert forall|j: int| 0 <= j < b1.len() implies shown_with(b2, (#[trigger] b1[j]).address, b1[j].volume) by {
        let w = if j < ip { j } else { j + 1 }; assert(b2[w] == b1[j]);
    }
    assert forall|i: int| 0 <= i < b2.len() implies (#[trigger] b2[i]) == e || shown_with(b1, b2[i].address, b2[i].volume) by {
        if i != ip { let w = if i < ip { i } else { i - 1 }; assert(b1[w] == b2[i]); }
    }
    assert forall|i: int, j: int| 0 <= i < j < b2.len() implies b2[i].volume >= b2[j].volume && b2[i].address != b2[j].address by {
        let wi = if i < ip { i } else { i - 1 }; let wj = if j < ip { j } else { j - 1 };
        if i == ip { assert(b1[wj].volume <= e.volume); assert(b1[wj].address != e.address); }
        else if j == ip { assert(b1[wi].volume >= e.volume); assert(b1[wi].address != e.address); }
        else { assert(wi < wj); assert(b1[wi].volume >= b1[wj].volume && b1[wi].address != b1[wj].address); }
    }
}

pub open spec fn ordered_distinct(b: Seq<LeaderEntry>) -> bool {
    forall|i: int, j: int| 0 <= i < j < b.len() ==> b[i].volume >= b[j].volume && b[i].address != b[j].address
}
pub proof fn lemma_trunc(b2: Seq<LeaderEntry>)
    requires ordered_distinct(b2), b2.len() <= 6
    ensures ({ let b3 = truncated(b2);
        &&& board_wf(b3) && b3.len() <= b2.len()
        &&& forall|i: int| 0 <= i < b3.len() ==> b3[i] == b2[i]
        &&& b2.len() == 6 ==> b3.len() == 5 && b2[5].volume <= b3[4].volume && !shown(b3, b2[5].address)
        &&& b2.len() <= 5 ==> b3 == b2
    })
{
    let b3 = truncated(b2);
    assert forall|i: int, j: int| 0 <= i < j < b3.len() implies b3[i].volume >= b3[j].volume && b3[i].address != b3[j].address by {
        assert(b2[i].volume >= b2[j].volume && b2[i].address != b2[j].address);
    }
    if b2.len() == 6 {
        assert(b2[4].volume >= b2[5].volume);
        assert(!shown(b3, b2[5].address)) by {
            if shown(b3, b2[5].address) { let y = choose|y: int| 0 <= y < b3.len() && b3[y].address == b2[5].address; assert(b2[y].address != b2[5].address); }
        }
    }
}
/// an entry of b1 survives insert + truncate, or is the one pushed off a full board
pub proof fn lemma_survives(b1: Seq<LeaderEntry>, ip: int, e: LeaderEntry, w: int)
    requires board_wf(b1), !shown(b1, e.address), 0 <= ip <= b1.len(), ip < 5, 0 <= w < b1.len(),
        forall|j: int| 0 <= j < ip ==> (#[trigger] b1[j]).volume >= e.volume,
        forall|j: int| ip <= j < b1.len() ==> (#[trigger] b1[j]).volume <= e.volume,
    ensures ({ let b3 = truncated(b1.insert(ip, e));
        shown_with(b3, b1[w].address, b1[w].volume) || (!shown(b3, b1[w].address) && b3.len() == 5 && b1[w].volume <= b3[4].volume) })
{
    lemma_insert_step(b1, ip, e);
    let b2 = b1.insert(ip, e);
    lemma_trunc(b2);
    let b3 = truncated(b2);
    let x = if w < ip { w } else { w + 1 };
    assert(b2[x] == b1[w]);
    if x < b3.len() { assert(b3[x] == b2[x]); } else { assert(x == 5 && b2.len() == 6); }
}
pub proof fn lemma_nobody_else(b0: Seq<LeaderEntry>, b1: Seq<LeaderEntry>, b2: Seq<LeaderEntry>, b3: Seq<LeaderEntry>, e: LeaderEntry, i: int)
    requires sub_board(b1, b0), 0 <= i < b3.len(), b3.len() <= b2.len(), b3[i] == b2[i],
        forall|k: int| 0 <= k < b2.len() ==> (#[trigger] b2[k]) == e || shown_with(b1, b2[k].address, b2[k].volume),
    ensures b3[i].address == e.address || shown(b0, b3[i].address)
{
    if b2[i] != e {
        let w = choose|w: int| 0 <= w < b1.len() && b1[w].address == b2[i].address && b1[w].volume == b2[i].volume;
        assert(shown_with(b0, b1[w].address, b1[w].volume));
    }
}
pub proof fn lemma_last_volume(b0: Seq<LeaderEntry>, b1: Seq<LeaderEntry>, e: LeaderEntry, ip: int)
    requires board_wf(b0), board_wf(b1), b0.len() == 5, 0 <= ip <= b1.len(), ip < 5,
        b1.len() == 5 || (b1.len() == 4 && e.volume >= b0[4].volume),
        forall|j: int| 0 <= j < b1.len() ==> (#[trigger] b1[j]).volume >= b0[4].volume,
        forall|j: int| ip <= j < b1.len() ==> (#[trigger] b1[j]).volume <= e.volume,
    ensures truncated(b1.insert(ip, e))[4].volume >= b0[4].volume
{
    let b2 = b1.insert(ip, e);
    if ip == 4 { assert(b2[4] == e); if b1.len() == 5 { assert(b1[4].volume <= e.volume); } }
    else { assert(b2[4] == b1[3]); }
}

pub proof fn lemma_finish(b0: Seq<LeaderEntry>, b1: Seq<LeaderEntry>, trader: Pubkey, vol: u128, ip: int, b3: Seq<LeaderEntry>)
    requires step1_ok(b0, b1, trader, vol), pos_ok(b1, ip, vol), b3 == after_insert(b1, ip, LeaderEntry { address: trader, volume: vol })
    ensures step_post(b0, b3, trader, vol)
{
    reveal(step1_ok); reveal(pos_ok); reveal(step_post);
    let e = LeaderEntry { address: trader, volume: vol };
    if ip < 5 {
        lemma_insert_step(b1, ip, e);
        let b2 = b1.insert(ip, e);
        lemma_trunc(b2);
        assert(b3 == truncated(b2));
        assert(b3[ip] == e);
        assert(shown_with(b3, trader, vol));
        assert forall|i: int| 0 <= i < b3.len() implies (#[trigger] b3[i]).address == trader || shown(b0, b3[i].address) by {
            lemma_nobody_else(b0, b1, b2, b3, e, i);
        }
        assert forall|i: int| 0 <= i < b0.len() && b0[i].address != trader implies
            shown_with(b3, (#[trigger] b0[i]).address, b0[i].volume) || (!shown(b3, b0[i].address) && b3.len() == 5 && b0[i].volume <= b3[4].volume) by {
            let w = choose|w: int| 0 <= w < b1.len() && b1[w].address == b0[i].address && b1[w].volume == b0[i].volume;
            lemma_survives(b1, ip, e, w);
        }
        if b0.len() == 5 { lemma_last_volume(b0, b1, e, ip); }
    } else {
        assert(b1.len() == 5 && b0.len() == 5 && ip == 5);
        assert(b1[4].volume >= vol);
        assert forall|i: int| 0 <= i < b3.len() implies (#[trigger] b3[i]).address == trader || shown(b0, b3[i].address) by {
            assert(shown_with(b0, b1[i].address, b1[i].volume));
        }
    }
}

//@unit C39.update_leaderboard
//@ file programs/competition/src/instructions/trade_callback.rs
//@ within impl OnExecuted<'_>
//@ fn update_leaderboard
//@ sig fn update_leaderboard(comp: &mut Competition, part: &Participant)
//@ closures LeaderEntry usize
//@ top :: let ghost b0 = comp.leaderboard@;
//@ after let mut old = comp.leaderboard.remove(pos); :: proof { lemma_remove_step(b0, pos as int, part.trader, part.volume); }
//@ before let insert_pos = :: let ghost b1 = comp.leaderboard@; proof { if b1.len() == b0.len() { lemma_no_removal(b0, part.trader, part.volume); } }
//@ before if insert_pos :: proof { lemma_pos(b0, b1, part.trader, part.volume, insert_pos as int); }
//@ bottom :: proof { lemma_insert_at_end_of_full_board(b1, LeaderEntry { address: part.trader, volume: part.volume }); assert(comp.leaderboard@ =~= after_insert(b1, insert_pos as int, LeaderEntry { address: part.trader, volume: part.volume })); lemma_finish(b0, b1, part.trader, part.volume, insert_pos as int, comp.leaderboard@); }
pub fn update_leaderboard(comp: &mut Competition, part: &Participant)
    requires
        step_pre(old(comp).leaderboard@, part.trader, part.volume),
    ensures
        step_post(old(comp).leaderboard@, final(comp).leaderboard@, part.trader, part.volume),
        // nothing else of the competition changes
        final(comp).end_time == old(comp).end_time && final(comp).extension_triggerer == old(comp).extension_triggerer,
        final(comp).start_time == old(comp).start_time && final(comp).volume_threshold == old(comp).volume_threshold && final(comp).extension_duration == old(comp).extension_duration
            && final(comp).extension_cap == old(comp).extension_cap && final(comp).only_count_increase == old(comp).only_count_increase && final(comp).volume_merge_window == old(comp).volume_merge_window,
//@body

/// History step for everybody else: a participant who was left off (and did not trade) stays left off, still with no more
/// volume than the last entry of a full board.
pub proof fn lemma_left_off_preserved(b0: Seq<LeaderEntry>, b3: Seq<LeaderEntry>, trader: Pubkey, vol: u128, q: Pubkey, q_volume: u128)
    requires step_post(b0, b3, trader, vol), q != trader, !shown(b0, q), left_off_ok(b0, q_volume),
    ensures !shown(b3, q), left_off_ok(b3, q_volume)
{
    reveal(step_post);
}
/// vacuity guard for the precondition of update_leaderboard (the generic canary skips `&mut` signatures)
pub proof fn lemma_step_pre_satisfiable(k: Pubkey, k2: Pubkey, v: u128)
    requires k != k2
    ensures step_pre(Seq::<LeaderEntry>::empty(), k, v), step_pre(seq![LeaderEntry { address: k, volume: 7 }, LeaderEntry { address: k2, volume: 3 }], k, 9)
{
    reveal(step_pre);
}
/// the empty board of a new competition satisfies the invariant
pub proof fn lemma_empty_board_wf()
    ensures board_wf(Seq::<LeaderEntry>::empty())
{
}
} // verus!
