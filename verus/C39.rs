//@prelude u128
// =================================================================================================
// C39  Competition: volume extensions never move the end time earlier nor past the cap
//      programs/competition/src/instructions/trade_callback.rs :: OnExecuted::extend_competition_time
//      (the leaderboard half of the property is NOT covered here: Vec remove/insert with iterator closures)
// =================================================================================================
verus! {
// ASSUMED std contract (vstd has none)
pub assume_specification [i64::saturating_add] (a: i64, b: i64) -> (r: i64)
    ensures r == (if a + b > i64::MAX { i64::MAX as int } else if a + b < i64::MIN { i64::MIN as int } else { a + b });

#[derive(Clone, Copy, Eq)]
pub struct Pubkey { pub hi: u128, pub lo: u128 }
impl PartialEqSpecImpl for Pubkey {
    open spec fn obeys_eq_spec() -> bool { true }
    open spec fn eq_spec(&self, other: &Pubkey) -> bool { *self == *other }
}
impl PartialEq for Pubkey {
    fn eq(&self, other: &Pubkey) -> (r: bool) { self.hi == other.hi && self.lo == other.lo }
}
/// solana Clock sysvar: one uninterpreted clock value per call
pub struct Clock { pub unix_timestamp: i64 }
pub uninterp spec fn now_spec() -> i64;
#[verifier::external_body]
pub fn clock_get() -> (r: Result<Clock, E>) ensures r.is_ok() ==> r.unwrap().unix_timestamp == now_spec() { unimplemented!() }

//@struct programs/competition/src/states.rs :: pub struct Competition :: bump, authority, start_time, end_time, leaderboard, volume_threshold, extension_duration, extension_cap, extension_triggerer, only_count_increase, volume_merge_window
pub struct Competition { pub start_time: i64, pub end_time: i64, pub volume_threshold: u128, pub extension_duration: i64, pub extension_cap: i64, pub extension_triggerer: Option<Pubkey> }
//@struct programs/competition/src/states.rs :: pub struct Participant :: bump, competition, trader, volume, last_updated_at, merged_volume
pub struct Participant { pub trader: Pubkey, pub volume: u128 }

/// wf(Competition): what initialize_competition enforces (start > now >= 0, end > start, duration > 0, cap >= duration)
pub open spec fn comp_wf(c: Competition) -> bool { c.end_time >= 0 && c.extension_duration > 0 && c.extension_cap >= c.extension_duration }
pub open spec fn later(a: int, b: int) -> int { if a >= b { a } else { b } }

//@unit C39.extend_competition_time
//@ file programs/competition/src/instructions/trade_callback.rs
//@ within impl OnExecuted<'_>
//@ fn extend_competition_time
//@ sig fn extend_competition_time( comp: &mut Competition, part: &Participant, volume: u128, ) -> Result<()>
//@ sub Clock::get\(\)\? => clock_get()?
pub fn extend_competition_time(comp: &mut Competition, part: &Participant, volume: u128) -> (r: Result<(), E>)
    requires comp_wf(*old(comp))
    ensures
        // never earlier
        final(comp).end_time >= old(comp).end_time,
        // never past the later of the old end time and trigger time + cap
        r.is_ok() ==> final(comp).end_time <= later(old(comp).end_time as int, now_spec() + old(comp).extension_cap),
        r.is_err() ==> *final(comp) == *old(comp),
        // the invariant assumed above is preserved (so the bound holds for every later extension too)
        comp_wf(*final(comp)),
//@body
} // verus!
