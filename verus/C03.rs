//@include inc/model_base_u128.rs
// =================================================================================================
// C03  Price impact penalises imbalance and cannot be farmed by round trips
//      crates/model/src/params/price_impact.rs :: PriceImpactParams::{adjusted_factors, exponent, ...}
//      crates/model/src/pool/delta.rs          :: PoolValue::diff_value, PoolDelta::{initial_diff_value, next_diff_value,
//                                                 is_same_side_rebalance, price_impact, price_impact_for_same_side_rebalance,
//                                                 price_impact_for_cross_over_rebalance}
// =================================================================================================
verus! {
//@struct crates/model/src/params/price_impact.rs :: pub struct PriceImpactParams<T> :: exponent, positive_factor, negative_factor
#[derive(Clone, Copy)]
pub struct PriceImpactParams { pub exponent: N, pub positive_factor: N, pub negative_factor: N }

/// the positive factor actually used: never above the negative one
pub open spec fn pos_adj(p: PriceImpactParams) -> int { if p.positive_factor@ > p.negative_factor@ { p.negative_factor@ } else { p.positive_factor@ } }
/// impact value of an imbalance `v` under factor `f`: floor(v^e * f / UNIT)  (apply_factors, C01)
pub open spec fn af(v: int, f: int, e: int) -> int { apply_factors_spec(v, f, e) }

impl PriceImpactParams {
//@unit C03.PriceImpactParams.exponent
//@ file crates/model/src/params/price_impact.rs
//@ within impl<T> PriceImpactParams<T>
//@ fn exponent
//@ sig fn exponent(&self) -> &T
    pub fn exponent(&self) -> (r: &N) ensures *r == self.exponent
//@body

//@unit C03.PriceImpactParams.adjusted_factors
//@ file crates/model/src/params/price_impact.rs
//@ within impl<T> PriceImpactParams<T>
//@ fn adjusted_factors
//@ sig fn adjusted_factors(&self) -> (&T, &T)
    pub fn adjusted_factors(&self) -> (r: (&N, &N))
        ensures
            // the positive factor is never allowed to exceed the negative one
            r.0@ == pos_adj(*self), r.1@ == self.negative_factor@, r.0@ <= r.1@,
//@body
}

//@struct crates/model/src/pool/delta.rs :: pub struct PoolValue<T> :: long_token_usd_value, short_token_usd_value
#[derive(Clone, Copy)]
pub struct PoolValue { pub long_token_usd_value: N, pub short_token_usd_value: N }
impl PoolValue {
//@unit C03.PoolValue.diff_value
//@ file crates/model/src/pool/delta.rs
//@ within impl<T: Unsigned + Clone> PoolValue<T>
//@ fn diff_value
//@ sig fn diff_value(&self) -> T
    pub fn diff_value(&self) -> (r: N)
        ensures r@ == abs(self.long_token_usd_value@ - self.short_token_usd_value@)
//@body
}

//@struct crates/model/src/pool/delta.rs :: pub enum BalanceChange ::
#[derive(Clone, Copy)]
pub enum BalanceChange { Improved, Worsened, Unchanged }
//@struct crates/model/src/pool/delta.rs :: pub struct PriceImpact<T> :: value, balance_change
pub struct PriceImpact { pub value: S, pub balance_change: BalanceChange }

//@struct crates/model/src/pool/delta.rs :: pub struct PoolDelta<T: Unsigned> :: current, next, delta, long_token_price, short_token_price
pub struct PoolDelta { pub current: PoolValue, pub next: PoolValue }

pub open spec fn imbalance(v: PoolValue) -> int { abs(v.long_token_usd_value@ - v.short_token_usd_value@) }
pub open spec fn same_side(d: PoolDelta) -> bool {
    (d.current.long_token_usd_value@ <= d.current.short_token_usd_value@) == (d.next.long_token_usd_value@ <= d.next.short_token_usd_value@)
}
/// impact of moving the imbalance from `initial` to `next` while the heavy side stays the same
pub open spec fn same_side_impact(initial: int, next: int, p: PriceImpactParams) -> int {
    if next < initial { abs(af(initial, pos_adj(p), p.exponent@) - af(next, pos_adj(p), p.exponent@)) }
    else { -abs(af(initial, p.negative_factor@, p.exponent@) - af(next, p.negative_factor@, p.exponent@)) }
}
/// impact when the heavy side flips
pub open spec fn cross_over_impact(initial: int, next: int, p: PriceImpactParams) -> int {
    af(initial, pos_adj(p), p.exponent@) - af(next, p.negative_factor@, p.exponent@)
}

impl PoolDelta {
//@unit C03.PoolDelta.initial_diff_value
//@ file crates/model/src/pool/delta.rs
//@ within impl<T: Unsigned + Clone + Ord> PoolDelta<T>
//@ fn initial_diff_value
//@ sig fn initial_diff_value(&self) -> T
    pub fn initial_diff_value(&self) -> (r: N) ensures r@ == imbalance(self.current)
//@body
//@unit C03.PoolDelta.next_diff_value
//@ file crates/model/src/pool/delta.rs
//@ within impl<T: Unsigned + Clone + Ord> PoolDelta<T>
//@ fn next_diff_value
//@ sig fn next_diff_value(&self) -> T
    pub fn next_diff_value(&self) -> (r: N) ensures r@ == imbalance(self.next)
//@body
//@unit C03.PoolDelta.is_same_side_rebalance
//@ file crates/model/src/pool/delta.rs
//@ within impl<T: Unsigned + Clone + Ord> PoolDelta<T>
//@ fn is_same_side_rebalance
//@ sig fn is_same_side_rebalance(&self) -> bool
    pub fn is_same_side_rebalance(&self) -> (r: bool) ensures r == same_side(*self)
//@body

//@unit C03.PoolDelta.price_impact_for_same_side_rebalance
//@ file crates/model/src/pool/delta.rs
//@ within impl<T: Unsigned + Clone + Ord> PoolDelta<T>
//@ fn price_impact_for_same_side_rebalance
//@ sig fn price_impact_for_same_side_rebalance<const DECIMALS: u8>( initial: T, next: T, params: &PriceImpactParams<T>, ) -> crate::Result<T::Signed>
//@ sub utils::apply_factors\( => apply_factors(
//@ sub let delta: S = initial\s*\.diff\(next\)\s*\.try_into\(\) => let delta: S = S::try_from(initial.diff(next))
    fn price_impact_for_same_side_rebalance(initial: N, next: N, params: &PriceImpactParams) -> (r: Result<S, E>)
        requires params.exponent@ % uunit() == 0
        ensures
            r.is_ok() ==> r.unwrap()@ == same_side_impact(initial@, next@, *params),
            // worsened (or unchanged) never positive, improved never negative
            r.is_ok() && next@ >= initial@ ==> r.unwrap()@ <= 0,
            r.is_ok() && next@ < initial@ ==> r.unwrap()@ >= 0,
//@body

//@unit C03.PoolDelta.price_impact_for_cross_over_rebalance
//@ file crates/model/src/pool/delta.rs
//@ within impl<T: Unsigned + Clone + Ord> PoolDelta<T>
//@ fn price_impact_for_cross_over_rebalance
//@ sig fn price_impact_for_cross_over_rebalance<const DECIMALS: u8>( initial: T, next: T, params: &PriceImpactParams<T>, ) -> crate::Result<T::Signed>
//@ sub utils::apply_factors\( => apply_factors(
//@ sub let delta: S = positive_impact\s*\.diff\(negative_impact\)\s*\.try_into\(\) => let delta: S = S::try_from(positive_impact.diff(negative_impact))
//@ top :: proof { lemma_af_monotone(initial@, next@, pos_adj(*params), params.negative_factor@, params.exponent@); }
    fn price_impact_for_cross_over_rebalance(initial: N, next: N, params: &PriceImpactParams) -> (r: Result<S, E>)
        requires params.exponent@ % uunit() == 0
        ensures
            r.is_ok() ==> r.unwrap()@ == cross_over_impact(initial@, next@, *params),
            // worsened (or unchanged) never positive
            r.is_ok() && next@ >= initial@ ==> r.unwrap()@ <= 0,
//@body

//@unit C03.PoolDelta.price_impact
//@ file crates/model/src/pool/delta.rs
//@ within impl<T: Unsigned + Clone + Ord> PoolDelta<T>
//@ fn price_impact
//@ sig fn price_impact<const DECIMALS: u8>( &self, params: &PriceImpactParams<T>, ) -> crate::Result<PriceImpact<T::Signed>>
    pub fn price_impact(&self, params: &PriceImpactParams) -> (r: Result<PriceImpact, E>)
        requires params.exponent@ % uunit() == 0
        ensures
            // the balance-change tag says what happened to the imbalance
            r.is_ok() ==> (r.unwrap().balance_change is Worsened <==> imbalance(self.next) > imbalance(self.current))
                && (r.unwrap().balance_change is Improved <==> imbalance(self.next) < imbalance(self.current))
                && (r.unwrap().balance_change is Unchanged <==> imbalance(self.next) == imbalance(self.current)),
            // which formula
            r.is_ok() ==> r.unwrap().value@ == (if same_side(*self) { same_side_impact(imbalance(self.current), imbalance(self.next), *params) }
                                                else { cross_over_impact(imbalance(self.current), imbalance(self.next), *params) }),
            // a change that worsens the balance never receives a positive impact
            r.is_ok() && imbalance(self.next) >= imbalance(self.current) ==> r.unwrap().value@ <= 0,
            // a change that improves the balance without flipping the heavy side never receives a negative impact
            r.is_ok() && imbalance(self.next) < imbalance(self.current) && same_side(*self) ==> r.unwrap().value@ >= 0,
//@body
}

// ---- monotonicity of the impact value --------------------------------------------------------------------------
pub proof fn lemma_pow_fixed_monotone(a: int, b: int, k: nat)
    requires 0 <= a <= b
    ensures 0 <= pow_fixed(a, k) <= pow_fixed(b, k)
    decreases k
{
    if k > 0 {
        lemma_pow_fixed_monotone(a, b, (k - 1) as nat);
        let x = pow_fixed(a, (k - 1) as nat); let y = pow_fixed(b, (k - 1) as nat);
        lemma_mul_nonnegative(x, a);
        lemma_mul_inequality(x, y, a); lemma_mul_inequality(a, b, y); lemma_mul_is_commutative(y, a); lemma_mul_is_commutative(y, b);
        lemma_div_is_ordered(x * a, y * b, uunit());
        lemma_div_pos_is_pos(x * a, uunit());
    }
}
pub proof fn lemma_pow_fixed_unit(k: nat)
    ensures pow_fixed(uunit(), k) == uunit()
    decreases k
{
    if k > 0 { lemma_pow_fixed_unit((k - 1) as nat); lemma_div_multiples_vanish(uunit(), uunit()); }
}
/// v^e (as the code evaluates it for whole-unit exponents) is monotone in v
pub proof fn lemma_aef_monotone(v1: int, v2: int, e: int)
    requires 0 <= v1 <= v2, e >= 0, e % uunit() == 0
    ensures 0 <= aef(v1, e) <= aef(v2, e)
{
    let k = (e / uunit()) as nat;
    lemma_pow_fixed_monotone(v1, v2, k);
    lemma_pow_fixed_unit(k);
    if v2 > uunit() && e != 0 && e != uunit() {
        lemma_pow_fixed_monotone(uunit(), v2, k);
        if v1 > uunit() { lemma_pow_fixed_monotone(uunit(), v1, k); }
    }
}
/// the impact value is monotone in the imbalance and in the factor
pub proof fn lemma_af_monotone(v1: int, v2: int, f1: int, f2: int, e: int)
    requires 0 <= v1, 0 <= v2, 0 <= f1 <= f2, e >= 0, e % uunit() == 0
    ensures v1 <= v2 ==> 0 <= af(v1, f1, e) <= af(v2, f2, e), 0 <= af(v1, f1, e) <= af(v1, f2, e)
{
    lemma_aef_monotone(v1, v1, e);
    lemma_mul_nonnegative(aef(v1, e), f1);
    lemma_mul_inequality(f1, f2, aef(v1, e)); lemma_mul_is_commutative(aef(v1, e), f1); lemma_mul_is_commutative(aef(v1, e), f2);
    lemma_div_is_ordered(aef(v1, e) * f1, aef(v1, e) * f2, uunit());
    lemma_div_pos_is_pos(aef(v1, e) * f1, uunit());
    if v1 <= v2 {
        lemma_aef_monotone(v1, v2, e);
        lemma_mul_inequality(aef(v1, e), aef(v2, e), f2);
        lemma_div_is_ordered(aef(v1, e) * f2, aef(v2, e) * f2, uunit());
    }
}

// ---- round trips -------------------------------------------------------------------------------------------------
/// A balance change whose heavy side flips, followed by its exact reverse (which flips it back): the total impact is
/// never positive -- exactly, because the positive factor never exceeds the negative one.
pub proof fn lemma_cross_over_round_trip(a: int, b: int, p: PriceImpactParams)
    requires a >= 0, b >= 0, p.exponent@ % uunit() == 0
    ensures cross_over_impact(a, b, p) + cross_over_impact(b, a, p) <= 0
{
    lemma_af_monotone(a, a, pos_adj(p), p.negative_factor@, p.exponent@);
    lemma_af_monotone(b, b, pos_adj(p), p.negative_factor@, p.exponent@);
}
/// The same on one side: up to the rounding of the four impact values the total is not positive: it never exceeds one
/// unit (10^-20 USD). See the known finding for the literal "<= 0".
pub proof fn lemma_same_side_round_trip(a: int, b: int, p: PriceImpactParams)
    requires a >= 0, b >= 0, p.exponent@ % uunit() == 0
    ensures same_side_impact(a, b, p) + same_side_impact(b, a, p) <= 1
{
    let e = p.exponent@; let pf = pos_adj(p); let nf = p.negative_factor@;
    if a == b { } else {
        let hi = if a > b { a } else { b }; let lo = if a > b { b } else { a };
        lemma_aef_monotone(lo, hi, e);
        let x = aef(hi, e); let y = aef(lo, e);
        lemma_af_monotone(lo, hi, pf, pf, e); lemma_af_monotone(lo, hi, nf, nf, e);
        // (floor(x pf/U) - floor(y pf/U)) - (floor(x nf/U) - floor(y nf/U)) <= 1
        lemma_floor_diff_le(x, y, pf, nf);
    }
}
/// for x >= y >= 0 and 0 <= pf <= nf:  (floor(x pf/U) - floor(y pf/U)) - (floor(x nf/U) - floor(y nf/U)) <= 1
pub proof fn lemma_floor_diff_le(x: int, y: int, pf: int, nf: int)
    requires x >= y >= 0, 0 <= pf <= nf
    ensures (mul_div_floor(x, pf, uunit()) - mul_div_floor(y, pf, uunit())) - (mul_div_floor(x, nf, uunit()) - mul_div_floor(y, nf, uunit())) <= 1
{
    let u = uunit();
    lemma_mul_nonnegative(x, pf); lemma_mul_nonnegative(y, pf); lemma_mul_nonnegative(x, nf); lemma_mul_nonnegative(y, nf);
    lemma_fundamental_div_mod(x * pf, u); lemma_mod_bound(x * pf, u);
    lemma_fundamental_div_mod(y * pf, u); lemma_mod_bound(y * pf, u);
    lemma_fundamental_div_mod(x * nf, u); lemma_mod_bound(x * nf, u);
    lemma_fundamental_div_mod(y * nf, u); lemma_mod_bound(y * nf, u);
    // (x - y) pf <= (x - y) nf
    lemma_mul_inequality(pf, nf, x - y);
    lemma_mul_is_commutative(x - y, pf); lemma_mul_is_commutative(x - y, nf);
    lemma_mul_is_distributive_sub_other_way(pf, x, y); lemma_mul_is_distributive_sub_other_way(nf, x, y);
    let a1 = (x * pf) / u; let a2 = (y * pf) / u; let b1 = (x * nf) / u; let b2 = (y * nf) / u;
    // u*(a1 - a2) <= x pf - y pf + (u - 1);  u*(b1 - b2) >= x nf - y nf - (u - 1)
    lemma_mul_is_distributive_sub(u, a1, a2); lemma_mul_is_distributive_sub(u, b1, b2);
    assert(u * (a1 - a2) - u * (b1 - b2) <= 2 * (u - 1));
    lemma_mul_is_distributive_sub(u, a1 - a2, b1 - b2);
    let d = (a1 - a2) - (b1 - b2);
    if d >= 2 { lemma_mul_inequality(2, d, u); lemma_mul_is_commutative(u, d); lemma_mul_is_commutative(u, 2); }
}

/// KNOWN FINDING (known_findings.txt): "an improving change never receives a negative impact", read literally, for a change
/// that flips the heavy side. The cross-over formula charges the new imbalance at the (larger) negative factor, so it can
/// be negative although the imbalance shrank. See finding_witness_cross_over (also reproduced natively).
pub proof fn finding_improved_cross_over_is_negative(initial: int, next: int, p: PriceImpactParams)
    requires 0 <= next < initial, p.exponent@ % uunit() == 0
    ensures cross_over_impact(initial, next, p) >= 0
{
}
/// witness: imbalance 10 units -> 5 units on the other side, exponent 1, positive factor 0, negative factor 1%: impact -0.05 units
pub proof fn finding_witness_cross_over()
    ensures ({
        let u = 100000000000000000000int;
        let p = PriceImpactParams { exponent: N(100000000000000000000), positive_factor: N(0), negative_factor: N(1000000000000000000) };
        cross_over_impact(10 * u, 5 * u, p) == -5000000000000000000
    })
{
    let u = 100000000000000000000int;
    assert(uunit() == u);
    assert(aef(10 * u, u) == 10 * u); assert(aef(5 * u, u) == 5 * u);
    assert((10 * u * 0) / u == 0) by (compute);
    assert((5 * u * 1000000000000000000int) / u == 5000000000000000000) by (compute);
}
/// KNOWN FINDING (known_findings.txt): the literal "a change and its exact reverse never yield a positive total" on one side:
/// the four roundings can leave +1 unit (10^-20 USD). lemma_same_side_round_trip proves it is never more than that.
pub proof fn finding_same_side_round_trip_gains_one_unit(a: int, b: int, p: PriceImpactParams)
    requires a >= 0, b >= 0, p.exponent@ % uunit() == 0
    ensures same_side_impact(a, b, p) + same_side_impact(b, a, p) <= 0
{
}
/// witness: imbalance 1.6 <-> 1.5 units, exponent 1, factors (5, 6) * 10^-20: improving leg +1, worsening leg 0
pub proof fn finding_witness_round_trip()
    ensures ({
        let u = 100000000000000000000int;
        let p = PriceImpactParams { exponent: N(100000000000000000000), positive_factor: N(5), negative_factor: N(6) };
        same_side_impact(16 * u / 10, 15 * u / 10, p) + same_side_impact(15 * u / 10, 16 * u / 10, p) == 1
    })
{
    let u = 100000000000000000000int;
    assert(uunit() == u);
    let a = 160000000000000000000int; let b = 150000000000000000000int;
    assert(16 * u / 10 == a && 15 * u / 10 == b) by (compute);
    assert(aef(a, u) == a); assert(aef(b, u) == b);
    assert((a * 5) / u == 8) by (compute); assert((b * 5) / u == 7) by (compute);
    assert((a * 6) / u == 9) by (compute); assert((b * 6) / u == 9) by (compute);
}
} // verus!
