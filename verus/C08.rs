//@include inc/model_base_u128.rs
//@include inc/price.rs
//@include inc/funding_deltas.rs
// =================================================================================================
// C08  Market token accounting is conserved and funding payouts stay backed   (partial: the two mechanisms under contract)
//      crates/model/src/action/update_funding_state.rs :: pack_to_funding_amount_per_size, unpack_to_funding_amount_delta, flags_to_index
//      crates/model/src/action/decrease_position/collateral_processor.rs :: State::{do_pay_for_cost, pnl_token_price,
//            output_token_price, are_pnl_and_output_tokens_the_same}, CollateralProcessor::{add_pnl_token_amount, pay_to_primary_pool},
//            Context::{add_pnl_if_positive, add_price_impact_if_positive}
//      Lemma (from the statement): for one funding update, whatever the receivers' positions can claim in a collateral token is
//      covered by what the payers' positions owe in that token (payer index rounded up twice, receiver index rounded down twice).
// =================================================================================================
verus! {
//@struct crates/model/src/params/fee.rs :: pub struct FundingFees<T> :: amount, claimable_long_token_amount, claimable_short_token_amount
pub struct FundingFees { pub amount: N, pub claimable_long_token_amount: N, pub claimable_short_token_amount: N }
/// glue for `#[derive(TypedBuilder)]`: each setter stores its argument, `build` copies the three fields
pub struct FundingFeesBuilder { pub amount: N, pub claimable_long_token_amount: N, pub claimable_short_token_amount: N }
impl FundingFees {
    pub fn builder() -> (r: FundingFeesBuilder) { FundingFeesBuilder { amount: N(0), claimable_long_token_amount: N(0), claimable_short_token_amount: N(0) } }
}
impl FundingFeesBuilder {
    pub fn amount(self, v: N) -> (r: FundingFeesBuilder) ensures r == (FundingFeesBuilder { amount: v, ..self }) { FundingFeesBuilder { amount: v, ..self } }
    pub fn claimable_long_token_amount(self, v: N) -> (r: FundingFeesBuilder) ensures r == (FundingFeesBuilder { claimable_long_token_amount: v, ..self }) { FundingFeesBuilder { claimable_long_token_amount: v, ..self } }
    pub fn claimable_short_token_amount(self, v: N) -> (r: FundingFeesBuilder) ensures r == (FundingFeesBuilder { claimable_short_token_amount: v, ..self }) { FundingFeesBuilder { claimable_short_token_amount: v, ..self } }
    pub fn build(self) -> (r: FundingFees) ensures r.amount == self.amount, r.claimable_long_token_amount == self.claimable_long_token_amount, r.claimable_short_token_amount == self.claimable_short_token_amount
    { FundingFees { amount: self.amount, claimable_long_token_amount: self.claimable_long_token_amount, claimable_short_token_amount: self.claimable_short_token_amount } }
}
/// the market's cumulative per-size indices as a position reads them: funding index by (side, collateral), claimable index by (side, token)
pub struct IdxMarket { pub adjustment: N, pub funding: spec_fn(bool, bool) -> Option<N>, pub claimable: spec_fn(bool, bool) -> Option<N> }
impl IdxMarket {
    #[verifier::external_body]
    pub fn funding_amount_per_size_adjustment(&self) -> (r: N) ensures r == self.adjustment { unimplemented!() }
    #[verifier::external_body]
    pub fn funding_fee_amount_per_size(&self, is_long: bool, is_long_collateral: bool) -> (r: Result<N, E>)
        ensures r.is_ok() == (self.funding)(is_long, is_long_collateral).is_some(), r.is_ok() ==> r.unwrap() == (self.funding)(is_long, is_long_collateral).unwrap() { unimplemented!() }
    #[verifier::external_body]
    pub fn claimable_funding_fee_amount_per_size(&self, is_long: bool, is_long_collateral: bool) -> (r: Result<N, E>)
        ensures r.is_ok() == (self.claimable)(is_long, is_long_collateral).is_some(), r.is_ok() ==> r.unwrap() == (self.claimable)(is_long, is_long_collateral).unwrap() { unimplemented!() }
}
/// carrier for `Self: Position` as pending_funding_fees reads it
pub struct FPos { pub long: bool, pub collateral_long: bool, pub size_in_usd: N, pub funding_fee_amount_per_size: N, pub claimable_long: N, pub claimable_short: N, pub mkt: Ghost<IdxMarket> }
impl FPos {
    pub fn is_long(&self) -> (r: bool) ensures r == self.long { self.long }
    pub fn is_collateral_token_long(&self) -> (r: bool) ensures r == self.collateral_long { self.collateral_long }
    pub fn size_in_usd(&self) -> (r: &N) ensures *r == self.size_in_usd { &self.size_in_usd }
    pub fn funding_fee_amount_per_size(&self) -> (r: &N) ensures *r == self.funding_fee_amount_per_size { &self.funding_fee_amount_per_size }
    pub fn claimable_funding_fee_amount_per_size(&self, is_long_collateral: bool) -> (r: &N) ensures *r == (if is_long_collateral { self.claimable_long } else { self.claimable_short })
    { if is_long_collateral { &self.claimable_long } else { &self.claimable_short } }
    #[verifier::external_body]
    pub fn market(&self) -> (r: &IdxMarket) ensures *r == self.mkt@ { unimplemented!() }

//@unit C08.PositionExt.pending_funding_fees
//@ file crates/model/src/position.rs
//@ within pub trait PositionExt<const DECIMALS: u8>: Position<DECIMALS>
//@ fn pending_funding_fees
//@ sig fn pending_funding_fees(&self) -> crate::Result<FundingFees<Self::Num>>
    pub fn pending_funding_fees(&self) -> (r: Result<FundingFees, E>)
        ensures
            // what the position OWES is unpacked rounded UP from the index of its own (side, collateral token); what it may CLAIM in
            // each token is unpacked rounded DOWN from the claimable index of its side
            r.is_ok() ==> ({
                let m = self.mkt@; let f = r.unwrap();
                &&& (m.funding)(self.long, self.collateral_long).is_some() && (m.claimable)(self.long, true).is_some() && (m.claimable)(self.long, false).is_some()
                &&& f.amount@ == unpack_spec(m.adjustment@, (m.funding)(self.long, self.collateral_long).unwrap()@ - self.funding_fee_amount_per_size@, self.size_in_usd@, true)
                &&& f.claimable_long_token_amount@ == unpack_spec(m.adjustment@, (m.claimable)(self.long, true).unwrap()@ - self.claimable_long@, self.size_in_usd@, false)
                &&& f.claimable_short_token_amount@ == unpack_spec(m.adjustment@, (m.claimable)(self.long, false).unwrap()@ - self.claimable_short@, self.size_in_usd@, false)
            }),
//@body
}

// ---- the backing lemma ---------------------------------------------------------------------------------------------------
pub open spec fn sum_sizes(s: Seq<int>) -> int decreases s.len() { if s.len() == 0 { 0 } else { s.last() + sum_sizes(s.drop_last()) } }
pub open spec fn sum_unpacked(s: Seq<int>, adj: int, diff: int, up: bool) -> int decreases s.len() {
    if s.len() == 0 { 0 } else { unpack_spec(adj, diff, s.last(), up) + sum_unpacked(s.drop_last(), adj, diff, up) }
}
pub open spec fn all_nonneg(s: Seq<int>) -> bool { forall|i: int| 0 <= i < s.len() ==> s[i] >= 0 }

pub proof fn lemma_ceil_cover(a: int, d: int) requires a >= 0, d > 0 ensures div_ceil(a, d) * d >= a, div_ceil(a, d) >= 0 {
    lemma_fundamental_div_mod(a + d - 1, d); lemma_mod_bound(a + d - 1, d); lemma_mul_is_commutative(d, (a + d - 1) / d);
    lemma_div_pos_is_pos(a + d - 1, d);
}
pub proof fn lemma_floor_under(a: int, d: int) requires a >= 0, d > 0 ensures (a / d) * d <= a, a / d >= 0 {
    lemma_fundamental_div_mod(a, d); lemma_mod_bound(a, d); lemma_mul_is_commutative(d, a / d); lemma_div_pos_is_pos(a, d);
}
/// payers together owe at least sum(size) x diff / D; receivers together may claim at most that
pub proof fn lemma_sum_unpacked(s: Seq<int>, adj: int, diff: int)
    requires all_nonneg(s), adj > 0, diff >= 0
    ensures sum_unpacked(s, adj, diff, true) * (adj * uunit()) >= sum_sizes(s) * diff,
            sum_unpacked(s, adj, diff, false) * (adj * uunit()) <= sum_sizes(s) * diff,
            sum_unpacked(s, adj, diff, false) >= 0
    decreases s.len()
{
    let d = adj * uunit();
    assert(d > 0) by(nonlinear_arith) requires adj > 0, d == adj * uunit(), uunit() > 0;
    if s.len() > 0 {
        let x = s.last();
        assert(x >= 0);
        assert(all_nonneg(s.drop_last()));
        lemma_sum_unpacked(s.drop_last(), adj, diff);
        lemma_mul_nonnegative(x, diff);
        lemma_ceil_cover(x * diff, d);
        lemma_floor_under(x * diff, d);
        let up = sum_unpacked(s.drop_last(), adj, diff, true); let dn = sum_unpacked(s.drop_last(), adj, diff, false);
        lemma_mul_is_distributive_add_other_way(d, unpack_spec(adj, diff, x, true), up);
        lemma_mul_is_distributive_add_other_way(d, unpack_spec(adj, diff, x, false), dn);
        lemma_mul_is_distributive_add_other_way(diff, x, sum_sizes(s.drop_last()));
    }
}
/// FUNDING IS BACKED (one update, one collateral token): payer positions whose sizes add up to the payer-side open interest of
/// that token owe at least what receiver positions whose sizes add up to (at most) the receiver-side open interest may claim.
pub proof fn lemma_funding_backed(adj: int, funding_value: int, oi_payers: int, oi_receivers: int, price: int, payers: Seq<int>, receivers: Seq<int>)
    requires adj > 0, funding_value >= 0, price > 0, oi_payers > 0, oi_receivers > 0,
        all_nonneg(payers), all_nonneg(receivers), sum_sizes(payers) == oi_payers, sum_sizes(receivers) <= oi_receivers,
    ensures
        sum_unpacked(receivers, adj, pack_spec(adj, funding_value, oi_receivers, price, false), false)
            <= sum_unpacked(payers, adj, pack_spec(adj, funding_value, oi_payers, price, true), true)
{
    let d = adj * uunit();
    assert(d > 0) by(nonlinear_arith) requires adj > 0, d == adj * uunit(), uunit() > 0;
    let dp = pack_spec(adj, funding_value, oi_payers, price, true);
    let dr = pack_spec(adj, funding_value, oi_receivers, price, false);
    let paid = sum_unpacked(payers, adj, dp, true);
    let claim = sum_unpacked(receivers, adj, dr, false);
    if funding_value == 0 {
        lemma_sum_unpacked(payers, adj, 0); lemma_sum_unpacked(receivers, adj, 0);
        assert(claim * d <= 0) by(nonlinear_arith) requires claim * d <= sum_sizes(receivers) * 0;
        assert(claim <= 0) by(nonlinear_arith) requires claim * d <= 0, d > 0, claim >= 0;
        assert(paid >= 0) by(nonlinear_arith) requires paid * d >= sum_sizes(payers) * 0, d > 0;
    } else {
        lemma_mul_nonnegative(funding_value, d);
        let fd = funding_value * d;
        // payer index: dp * price * oi_payers >= funding_value * d
        let per_p = mul_div_ceil(funding_value, d, oi_payers);
        lemma_ceil_cover(fd, oi_payers);
        lemma_ceil_cover(per_p, price);
        assert(dp * price * oi_payers >= fd) by(nonlinear_arith) requires dp * price >= per_p, per_p * oi_payers >= fd, oi_payers > 0;
        // receiver index: dr * price * oi_receivers <= funding_value * d
        let per_r = mul_div_floor(funding_value, d, oi_receivers);
        lemma_floor_under(fd, oi_receivers);
        lemma_floor_under(per_r, price);
        assert(dr * price * oi_receivers <= fd) by(nonlinear_arith) requires dr * price <= per_r, per_r * oi_receivers <= fd, oi_receivers > 0, dr >= 0, per_r >= 0;
        assert(dp >= 0 && dr >= 0);
        lemma_sum_unpacked(payers, adj, dp); lemma_sum_unpacked(receivers, adj, dr);
        // paid * d >= oi_payers * dp   and   claim * d <= sum(receivers) * dr <= oi_receivers * dr
        assert(claim * d <= oi_receivers * dr) by(nonlinear_arith) requires claim * d <= sum_sizes(receivers) * dr, sum_sizes(receivers) <= oi_receivers, dr >= 0;
        assert(paid * d * price >= fd) by(nonlinear_arith) requires paid * d >= oi_payers * dp, dp * price * oi_payers >= fd, price > 0;
        assert(claim * d * price <= fd) by(nonlinear_arith) requires claim * d <= oi_receivers * dr, dr * price * oi_receivers <= fd, price > 0;
        assert(claim <= paid) by(nonlinear_arith) requires claim * d * price <= paid * d * price, d > 0, price > 0;
    }
}

// ---- collateral processor ----------------------------------------------------------------------------------------------
/// `State<T>` with the `ProcessResult` it derefs to flattened in (the claimable and insolvency fields are not touched here)
//@struct crates/model/src/action/decrease_position/claimable.rs :: pub struct ClaimableCollateral<T> :: output_token_amount, secondary_output_token_amount
#[derive(Clone, Copy)]
pub struct ClaimableCollateral { pub output_token_amount: N, pub secondary_output_token_amount: N }
impl ClaimableCollateral {
//@unit C08.ClaimableCollateral.try_add_amount
//@ file crates/model/src/action/decrease_position/claimable.rs
//@ within impl<T> ClaimableCollateral<T>
//@ fn try_add_amount
//@ sig fn try_add_amount(&mut self, amount: &T, is_output_token: bool) -> crate::Result<&mut Self>
//@ sub Ok\(self\) => Ok(())
//@ sub (?s)let current = if is_output_token \{\s*&mut self\.output_token_amount\s*\} else \{\s*&mut self\.secondary_output_token_amount\s*\};\s*\*current = current\.checked_add\(amount\)\.ok_or\(E::Overflow\)\?; => if is_output_token { self.output_token_amount = self.output_token_amount.checked_add(amount).ok_or(E::Overflow)?; } else { self.secondary_output_token_amount = self.secondary_output_token_amount.checked_add(amount).ok_or(E::Overflow)?; }
    pub fn try_add_amount(&mut self, amount: &N, is_output_token: bool) -> (r: Result<(), E>)
        ensures r.is_ok() && is_output_token ==> final(self).output_token_amount@ == old(self).output_token_amount@ + amount@ && final(self).secondary_output_token_amount == old(self).secondary_output_token_amount,
            r.is_ok() && !is_output_token ==> final(self).secondary_output_token_amount@ == old(self).secondary_output_token_amount@ + amount@ && final(self).output_token_amount == old(self).output_token_amount,
//@body
}
//@struct crates/model/src/action/decrease_position/collateral_processor.rs :: pub(super) struct ProcessResult<T> :: output_amount, secondary_output_amount, remaining_collateral_amount, for_holding, for_user, insolvent_close_step
//@struct crates/model/src/action/decrease_position/collateral_processor.rs :: struct State<T> :: prices, is_output_token_long, is_pnl_token_long, are_pnl_and_collateral_tokens_the_same, report
pub struct State { pub prices: Prices, pub is_output_token_long: bool, pub is_pnl_token_long: bool, pub are_pnl_and_collateral_tokens_the_same: bool,
                   pub output_amount: N, pub secondary_output_amount: N, pub remaining_collateral_amount: N, pub for_holding: ClaimableCollateral, pub for_user: ClaimableCollateral }
pub open spec fn out_price(s: State) -> Price { if s.is_output_token_long { s.prices.long_token_price } else { s.prices.short_token_price } }
pub open spec fn pnl_price(s: State) -> Price { if s.is_pnl_token_long { s.prices.long_token_price } else { s.prices.short_token_price } }

/// EXACT semantics of do_pay_for_cost: (output', collateral', secondary', paid in collateral token, paid in secondary token, cost left)
pub struct Paid { pub o: int, pub c: int, pub s: int, pub pc: int, pub ps: int, pub cost: int }
pub open spec fn imin2(a: int, b: int) -> int { if a < b { a } else { b } }
pub open spec fn pay_spec(o: int, c: int, s: int, cost: int, pout: int, ppnl: int) -> Paid {
    if cost == 0 { Paid { o, c, s, pc: 0, ps: 0, cost: 0 } } else {
        let rem = div_ceil(cost, pout);                 // the cost in collateral tokens at the min price, rounded UP
        let t1 = imin2(o, rem); let rem1 = rem - t1;    // first from the output amount
        let t2 = imin2(c, rem1); let rem2 = rem1 - t2;  // then from the collateral
        if rem2 == 0 { Paid { o: o - t1, c: c - t2, s, pc: t1 + t2, ps: 0, cost: 0 } } else {
            let remsec = mul_div_floor(rem2, pout, ppnl);   // what is left, in secondary tokens, rounded DOWN
            let t3 = imin2(s, remsec);
            Paid { o: o - t1, c: c - t2, s: s - t3, pc: t1 + t2, ps: t3, cost: (remsec - t3) * ppnl }
        }
    }
}
/// KNOWN FINDING (known_findings.txt): "a cost reported as paid in full, with nothing paid in the secondary token, was paid in full
/// in collateral tokens". FALSE: what is left after output and collateral are exhausted is converted to secondary tokens rounded
/// DOWN, so a remainder worth less than one secondary token unit is forgiven and reported as paid (witness below; reproduced on the
/// real text by native/C08.rs). pay_for_fees_excluding_funding then credits the pool and the fee receiver with the FULL fee.
pub proof fn finding_remainder_below_one_secondary_unit_is_forgiven(o: int, c: int, s: int, cost: int, pout: int, ppnl: int)
    requires o >= 0, c >= 0, s >= 0, cost > 0, pout > 0, ppnl > 0
    ensures ({ let r = pay_spec(o, c, s, cost, pout, ppnl); r.cost == 0 && r.ps == 0 ==> r.pc == div_ceil(cost, pout) })
{
}
/// witness: cost 1, collateral-token price 1, secondary-token price 2, nothing left to pay with => "paid" (0, 0), cost left 0
pub proof fn finding_witness_forgiven()
    ensures ({ let r = pay_spec(0, 0, 0, 1, 1, 2); r.cost == 0 && r.ps == 0 && r.pc == 0 && div_ceil(1, 1) == 1 })
{
    assert(div_ceil(1, 1) == 1) by(compute);
    assert(mul_div_floor(1, 1, 2) == 0) by(compute);
}

impl State {
//@unit C08.State.are_pnl_and_output_tokens_the_same
//@ file crates/model/src/action/decrease_position/collateral_processor.rs
//@ within impl<T> State<T>
//@ fn are_pnl_and_output_tokens_the_same
//@ sig fn are_pnl_and_output_tokens_the_same(&self) -> bool
    fn are_pnl_and_output_tokens_the_same(&self) -> (r: bool) ensures r == self.are_pnl_and_collateral_tokens_the_same
//@body
//@unit C08.State.pnl_token_price
//@ file crates/model/src/action/decrease_position/collateral_processor.rs
//@ within impl<T> State<T>
//@ fn pnl_token_price
//@ sig fn pnl_token_price(&self) -> &Price<T>
    fn pnl_token_price(&self) -> (r: &Price) ensures *r == pnl_price(*self)
//@body
//@unit C08.State.output_token_price
//@ file crates/model/src/action/decrease_position/collateral_processor.rs
//@ within impl<T> State<T>
//@ fn output_token_price
//@ sig fn output_token_price(&self) -> &Price<T>
    fn output_token_price(&self) -> (r: &Price) ensures *r == out_price(*self)
//@body

//@unit C08.State.do_pay_for_cost
//@ file crates/model/src/action/decrease_position/collateral_processor.rs
//@ within impl<T> State<T> where T: MulDiv + Num,
//@ fn do_pay_for_cost
//@ sig fn do_pay_for_cost(&mut self, cost: &mut T) -> crate::Result<(T, T)>
//@ after *cost = remaining_cost_in_secondary_output_token :: proof { let (o0, c0, s0) = (old(self).output_amount@, old(self).remaining_collateral_amount@, old(self).secondary_output_amount@); let pout = out_price(*old(self)).min@; let ppnl = pnl_price(*old(self)).min@; let rem = div_ceil(old(cost)@, pout); let t1 = imin2(o0, rem); let rem1 = rem - t1; let t2 = imin2(c0, rem1); let rem2 = rem1 - t2; assert(self.output_amount@ == o0 - t1); assert(self.remaining_collateral_amount@ == c0 - t2); assert(paid_in_collateral_amount@ == t1 + t2); assert(rem2 != 0); let remsec = mul_div_floor(rem2, pout, ppnl); let t3 = imin2(s0, remsec); assert(paid_in_secondary_output_amount@ == t3); assert(self.secondary_output_amount@ == s0 - t3); assert(cost@ == (remsec - t3) * ppnl); let p = pay_spec(o0, c0, s0, old(cost)@, pout, ppnl); assert(p.o == o0 - t1); assert(p.c == c0 - t2); assert(p.s == s0 - t3); assert(p.pc == t1 + t2); assert(p.ps == t3); assert(p.cost == (remsec - t3) * ppnl); }
    fn do_pay_for_cost(&mut self, cost: &mut N) -> (r: Result<(N, N), E>)
        ensures
            // nothing but the three amounts changes
            final(self).prices == old(self).prices && final(self).is_output_token_long == old(self).is_output_token_long && final(self).is_pnl_token_long == old(self).is_pnl_token_long
                && final(self).are_pnl_and_collateral_tokens_the_same == old(self).are_pnl_and_collateral_tokens_the_same
                && final(self).for_holding == old(self).for_holding && final(self).for_user == old(self).for_user,
            r.is_ok() ==> ({
                let (paid_col, paid_sec) = (r.unwrap().0@, r.unwrap().1@);
                let (o0, c0, s0) = (old(self).output_amount@, old(self).remaining_collateral_amount@, old(self).secondary_output_amount@);
                let (o1, c1, s1) = (final(self).output_amount@, final(self).remaining_collateral_amount@, final(self).secondary_output_amount@);
                // CONSERVATION: what leaves the output / collateral amounts is exactly what is reported as paid in the collateral token,
                // what leaves the secondary output amount is exactly what is reported as paid in the secondary token
                &&& o1 + c1 + paid_col == o0 + c0 && s1 + paid_sec == s0 && o1 <= o0 && c1 <= c0
                // ORDER: the collateral is touched only once the output amount is exhausted, the secondary amount only after both
                &&& (c1 < c0 ==> o1 == 0) && (s1 < s0 ==> o1 == 0 && c1 == 0)
                // a cost that is left over means that everything has been used up
                &&& (final(cost)@ != 0 ==> o1 == 0 && c1 == 0 && s1 == 0)
                &&& (old(cost)@ == 0 ==> paid_col == 0 && paid_sec == 0 && final(cost)@ == 0)
                // never more than the cost rounded up to whole collateral tokens at the min price
                &&& (old(cost)@ != 0 ==> paid_col <= div_ceil(old(cost)@, out_price(*old(self)).min@))
                // EXACT
                &&& (Paid { o: o1, c: c1, s: s1, pc: paid_col, ps: paid_sec, cost: final(cost)@ }) == pay_spec(o0, c0, s0, old(cost)@, out_price(*old(self)).min@, pnl_price(*old(self)).min@)
            }),
//@body
}

/// two-sided pool with the store pool's delta contract (C15)
#[derive(Clone, Copy)]
pub struct Sides { pub long: N, pub short: N }
pub open spec fn side(p: Sides, is_long: bool) -> int { if is_long { p.long@ } else { p.short@ } }
pub struct CMarket { pub liquidity: Sides, pub claimable_fee: Sides, pub position_impact: N, pub rest: u64 }
impl CMarket {
    /// `BaseMarketMutExt::apply_delta` (liquidity pool of one token; under contract in C04 / C15)
    pub fn apply_delta(&mut self, is_long_token: bool, delta: &S) -> (r: Result<(), E>)
        ensures r.is_ok() ==> side(final(self).liquidity, is_long_token) == side(old(self).liquidity, is_long_token) + delta@
                && side(final(self).liquidity, !is_long_token) == side(old(self).liquidity, !is_long_token) && final(self).claimable_fee == old(self).claimable_fee && final(self).position_impact == old(self).position_impact && final(self).rest == old(self).rest,
            r.is_err() ==> *final(self) == *old(self),
    {
        if is_long_token { match self.liquidity.long.checked_add_with_signed(delta) { Some(v) => { self.liquidity.long = v; Ok(()) } None => Err(E::Computation) } }
        else { match self.liquidity.short.checked_add_with_signed(delta) { Some(v) => { self.liquidity.short = v; Ok(()) } None => Err(E::Computation) } }
    }
    pub fn apply_delta_to_claimable_fee_pool(&mut self, is_long_token: bool, delta: &S) -> (r: Result<(), E>)
        ensures r.is_ok() ==> side(final(self).claimable_fee, is_long_token) == side(old(self).claimable_fee, is_long_token) + delta@
                && side(final(self).claimable_fee, !is_long_token) == side(old(self).claimable_fee, !is_long_token) && final(self).liquidity == old(self).liquidity && final(self).position_impact == old(self).position_impact && final(self).rest == old(self).rest,
            r.is_err() ==> *final(self) == *old(self),
    {
        if is_long_token { match self.claimable_fee.long.checked_add_with_signed(delta) { Some(v) => { self.claimable_fee.long = v; Ok(()) } None => Err(E::Computation) } }
        else { match self.claimable_fee.short.checked_add_with_signed(delta) { Some(v) => { self.claimable_fee.short = v; Ok(()) } None => Err(E::Computation) } }
    }
    /// `PerpMarketMut::on_insufficient_funding_fee_payment`: the hook that REPORTS a shortfall (default: nothing); no tracked state
    #[verifier::external_body]
    pub fn on_insufficient_funding_fee_payment(&mut self, cost_amount: &N, paid_in_collateral_amount: &N, paid_in_secondary_output_amount: &N, is_collateral_token_long: bool) -> (r: Result<(), E>)
        ensures final(self).liquidity == old(self).liquidity, final(self).claimable_fee == old(self).claimable_fee, final(self).position_impact == old(self).position_impact
    { unimplemented!() }
    pub fn apply_delta_to_position_impact_pool(&mut self, delta: &S) -> (r: Result<(), E>)
        ensures r.is_ok() ==> final(self).position_impact@ == old(self).position_impact@ + delta@ && final(self).liquidity == old(self).liquidity && final(self).claimable_fee == old(self).claimable_fee && final(self).rest == old(self).rest,
            r.is_err() ==> *final(self) == *old(self),
    { match self.position_impact.checked_add_with_signed(delta) { Some(v) => { self.position_impact = v; Ok(()) } None => Err(E::Computation) } }
}

//@struct crates/model/src/position.rs :: pub enum InsolventCloseStep ::
#[derive(Clone, Copy)]
pub enum InsolventCloseStep { Pnl, Fees, Funding, Impact, Diff }
impl FundingFees { pub fn amount(&self) -> (r: &N) ensures *r == self.amount { &self.amount } }
/// the three totals of `PositionFees` this code reads, as fallible values (their arithmetic and the split identity are C02)
pub struct PositionFees { pub total_excluding_funding: Option<N>, pub for_pool: Option<N>, pub for_receiver: Option<N>, pub paid_value: N, pub rest: u64 }
/// C02: the fees excluding funding are split exactly between the pool and the receiver
pub open spec fn fees_wf(f: PositionFees) -> bool {
    f.total_excluding_funding.is_some() && f.for_pool.is_some() && f.for_receiver.is_some() ==> f.for_pool.unwrap()@ + f.for_receiver.unwrap()@ == f.total_excluding_funding.unwrap()@
}
pub open spec fn fees_cleared(f: PositionFees) -> bool { f.total_excluding_funding == Some(N(0)) && f.for_pool == Some(N(0)) && f.for_receiver == Some(N(0)) }
impl PositionFees {
    pub fn total_cost_excluding_funding(&self) -> (r: Result<N, E>) ensures r.is_ok() == self.total_excluding_funding.is_some(), r.is_ok() ==> r.unwrap() == self.total_excluding_funding.unwrap()
    { match self.total_excluding_funding { Some(x) => Ok(x), None => Err(E::Computation) } }
    pub fn for_pool(&self) -> (r: Result<N, E>) ensures r.is_ok() == self.for_pool.is_some(), r.is_ok() ==> r.unwrap() == self.for_pool.unwrap()
    { match self.for_pool { Some(x) => Ok(x), None => Err(E::Computation) } }
    pub fn for_receiver(&self) -> (r: Result<N, E>) ensures r.is_ok() == self.for_receiver.is_some(), r.is_ok() ==> r.unwrap() == self.for_receiver.unwrap()
    { match self.for_receiver { Some(x) => Ok(x), None => Err(E::Computation) } }
    /// `clear_fees_excluding_funding`: order, borrowing and liquidation fees reset to their (zero) defaults
    pub fn clear_fees_excluding_funding(&mut self) ensures fees_cleared(*final(self)), final(self).paid_value == old(self).paid_value, final(self).rest == old(self).rest
    { self.total_excluding_funding = Some(N(0)); self.for_pool = Some(N(0)); self.for_receiver = Some(N(0)); }
    pub fn set_paid_order_and_borrowing_fee_value(&mut self, v: N) ensures *final(self) == (PositionFees { paid_value: v, ..*old(self) }) { self.paid_value = v; }
}

/// an amount of tokens valued at a price and converted back at the same price, rounded up, is the amount
pub proof fn lemma_div_ceil_exact(a: int, p: int) requires a >= 0, p > 0 ensures div_ceil(a * p, p) == a {
    lemma_mul_nonnegative(a, p);
    lemma_fundamental_div_mod_converse(a * p + p - 1, p, a, p - 1);
}
/// `CollateralProcessor` (the market by value instead of `&mut M`); `Context` derefs to it, so its methods are placed here too
pub struct CollateralProcessor { pub market: CMarket, pub state: State, pub is_insolvent_close_allowed: bool }
/// tokens of one kind accounted for: the market's liquidity and claimable-fee pools, plus what is earmarked for the trader (output,
/// remaining collateral, secondary output) and what has been set aside as claimable (for the user / for the holding address)
pub open spec fn total_of(p: CollateralProcessor, is_long_token: bool) -> int {
    side(p.market.liquidity, is_long_token) + side(p.market.claimable_fee, is_long_token)
        + (if p.state.is_output_token_long == is_long_token { p.state.output_amount@ + p.state.remaining_collateral_amount@ + p.state.for_user.output_token_amount@ + p.state.for_holding.output_token_amount@ } else { 0 })
        + (if p.state.is_pnl_token_long == is_long_token { p.state.secondary_output_amount@ + p.state.for_user.secondary_output_token_amount@ + p.state.for_holding.secondary_output_token_amount@ } else { 0 })
}
/// the flag says what it means
pub open spec fn flags_wf(s: State) -> bool { s.are_pnl_and_collateral_tokens_the_same ==> s.is_pnl_token_long == s.is_output_token_long }

impl CollateralProcessor {
//@unit C08.CollateralProcessor.add_pnl_token_amount
//@ file crates/model/src/action/decrease_position/collateral_processor.rs
//@ within impl<'a, M, const DECIMALS: u8> CollateralProcessor<'a, M, DECIMALS>
//@ fn add_pnl_token_amount
//@ sig fn add_pnl_token_amount(&mut self, deduction_amount_for_pool: M::Num) -> crate::Result<()>
    fn add_pnl_token_amount(&mut self, deduction_amount_for_pool: N) -> (r: Result<(), E>)
        ensures final(self).market == old(self).market, final(self).state.prices == old(self).state.prices, final(self).state.is_output_token_long == old(self).state.is_output_token_long,
            final(self).state.is_pnl_token_long == old(self).state.is_pnl_token_long, final(self).state.are_pnl_and_collateral_tokens_the_same == old(self).state.are_pnl_and_collateral_tokens_the_same,
            final(self).state.remaining_collateral_amount == old(self).state.remaining_collateral_amount, final(self).state.for_user == old(self).state.for_user, final(self).state.for_holding == old(self).state.for_holding,
            r.is_ok() && old(self).state.are_pnl_and_collateral_tokens_the_same ==> final(self).state.output_amount@ == old(self).state.output_amount@ + deduction_amount_for_pool@ && final(self).state.secondary_output_amount == old(self).state.secondary_output_amount,
            r.is_ok() && !old(self).state.are_pnl_and_collateral_tokens_the_same ==> final(self).state.secondary_output_amount@ == old(self).state.secondary_output_amount@ + deduction_amount_for_pool@ && final(self).state.output_amount == old(self).state.output_amount,
//@body

//@unit C08.CollateralProcessor.pay_to_primary_pool
//@ file crates/model/src/action/decrease_position/collateral_processor.rs
//@ within impl<'a, M, const DECIMALS: u8> CollateralProcessor<'a, M, DECIMALS>
//@ fn pay_to_primary_pool
//@ sig fn pay_to_primary_pool( &mut self, collateral_token_amount: &M::Signed, secondary_output_token_amount: &M::Signed, ) -> crate::Result<()>
    fn pay_to_primary_pool(&mut self, collateral_token_amount: &S, secondary_output_token_amount: &S) -> (r: Result<(), E>)
        ensures final(self).state == old(self).state, final(self).market.position_impact == old(self).market.position_impact, final(self).market.claimable_fee == old(self).market.claimable_fee,
            // the liquidity pool of each token receives exactly the amounts paid in it
            r.is_ok() ==> forall|t: bool| #![auto] side(final(self).market.liquidity, t) == side(old(self).market.liquidity, t)
                + (if old(self).state.is_output_token_long == t { collateral_token_amount@ } else { 0 }) + (if old(self).state.is_pnl_token_long == t { secondary_output_token_amount@ } else { 0 }),
//@body

//@unit C08.Context.add_pnl_if_positive
//@ file crates/model/src/action/decrease_position/collateral_processor.rs
//@ within impl<M, const DECIMALS: u8> Context<'_, '_, M, DECIMALS>
//@ fn add_pnl_if_positive
//@ sig fn add_pnl_if_positive(&mut self, pnl: &M::Signed) -> crate::Result<&mut Self>
//@ sub Ok\(self\) => Ok(())
//@ sub assert\(!self\.state\.pnl_token_price\(\)\.has_zero\(\)\); =>
    fn add_pnl_if_positive(&mut self, pnl: &S) -> (r: Result<(), E>)
        requires flags_wf(old(self).state)
        ensures
            // CONSERVATION: a profit moves tokens from the liquidity pool to the trader's amounts, one for one
            r.is_ok() ==> forall|t: bool| #![auto] total_of(*final(self), t) == total_of(*old(self), t),
            r.is_ok() ==> flags_wf(final(self).state) && final(self).market.position_impact == old(self).market.position_impact
                && final(self).state.remaining_collateral_amount == old(self).state.remaining_collateral_amount,
            // the profit is paid in pnl tokens at the MAX price, rounded down
            r.is_ok() && pnl@ > 0 ==> side(old(self).market.liquidity, old(self).state.is_pnl_token_long) - side(final(self).market.liquidity, old(self).state.is_pnl_token_long) == pnl@ / pnl_price(old(self).state).max@,
            r.is_ok() && pnl@ <= 0 ==> *final(self) == *old(self),
//@body

//@unit C08.Context.add_price_impact_if_positive
//@ file crates/model/src/action/decrease_position/collateral_processor.rs
//@ within impl<M, const DECIMALS: u8> Context<'_, '_, M, DECIMALS>
//@ fn add_price_impact_if_positive
//@ sig fn add_price_impact_if_positive( &mut self, price_impact: &M::Signed, ) -> crate::Result<&mut Self>
//@ sub Ok\(self\) => Ok(())
//@ sub assert\(!self\.state\.pnl_token_price\(\)\.has_zero\(\)\); =>
    fn add_price_impact_if_positive(&mut self, price_impact: &S) -> (r: Result<(), E>)
        requires flags_wf(old(self).state)
        ensures
            r.is_ok() ==> forall|t: bool| #![auto] total_of(*final(self), t) == total_of(*old(self), t),
            r.is_ok() ==> flags_wf(final(self).state) && final(self).state.remaining_collateral_amount == old(self).state.remaining_collateral_amount,
            // a positive impact is taken out of the position impact pool in index tokens at the MIN index price, rounded UP, and paid in
            // pnl tokens at the MAX price, rounded down
            r.is_ok() && price_impact@ > 0 ==> old(self).market.position_impact@ - final(self).market.position_impact@ == div_ceil(price_impact@, old(self).state.prices.index_token_price.min@)
                && side(old(self).market.liquidity, old(self).state.is_pnl_token_long) - side(final(self).market.liquidity, old(self).state.is_pnl_token_long) == price_impact@ / pnl_price(old(self).state).max@,
            r.is_ok() && price_impact@ <= 0 ==> *final(self) == *old(self),
//@body

//@unit C08.Context.pay_for_pnl_if_negative
//@ file crates/model/src/action/decrease_position/collateral_processor.rs
//@ within impl<M, const DECIMALS: u8> Context<'_, '_, M, DECIMALS>
//@ fn pay_for_pnl_if_negative
//@ sig fn pay_for_pnl_if_negative(&mut self, pnl: &M::Signed) -> crate::Result<&mut Self>
//@ inline pay_for_cost :: impl<'a, M, const DECIMALS: u8> CollateralProcessor<'a, M, DECIMALS> :: receive
//@ sub Ok\(self\) => Ok(())
    fn pay_for_pnl_if_negative(&mut self, pnl: &S) -> (r: Result<(), E>)
        ensures
            // CONSERVATION: a loss is paid from the trader's amounts into the liquidity pool, one for one; claimable buckets untouched
            r.is_ok() ==> forall|t: bool| #![auto] total_of(*final(self), t) == total_of(*old(self), t),
            r.is_ok() ==> final(self).market.claimable_fee == old(self).market.claimable_fee && final(self).market.position_impact == old(self).market.position_impact
                && final(self).state.for_user == old(self).state.for_user && final(self).state.for_holding == old(self).state.for_holding,
            r.is_ok() && pnl@ >= 0 ==> *final(self) == *old(self),
//@body

//@unit C08.Context.pay_for_price_impact_if_negative
//@ file crates/model/src/action/decrease_position/collateral_processor.rs
//@ within impl<M, const DECIMALS: u8> Context<'_, '_, M, DECIMALS>
//@ fn pay_for_price_impact_if_negative
//@ sig fn pay_for_price_impact_if_negative( &mut self, price_impact: &M::Signed, ) -> crate::Result<&mut Self>
//@ inline pay_for_cost :: impl<'a, M, const DECIMALS: u8> CollateralProcessor<'a, M, DECIMALS> :: receive
//@ sub Ok\(self\) => Ok(())
    fn pay_for_price_impact_if_negative(&mut self, price_impact: &S) -> (r: Result<(), E>)
        ensures
            // CONSERVATION: a negative impact is paid from the trader's amounts into the liquidity pool, one for one; the position impact
            // pool (index tokens, backed by the liquidity pool) only grows
            r.is_ok() ==> forall|t: bool| #![auto] total_of(*final(self), t) == total_of(*old(self), t),
            r.is_ok() ==> final(self).market.claimable_fee == old(self).market.claimable_fee && final(self).market.position_impact@ >= old(self).market.position_impact@
                && final(self).state.for_user == old(self).state.for_user && final(self).state.for_holding == old(self).state.for_holding,
            r.is_ok() && price_impact@ >= 0 ==> *final(self) == *old(self),
//@body

//@unit C08.Context.pay_for_funding_fees
//@ file crates/model/src/action/decrease_position/collateral_processor.rs
//@ within impl<M, const DECIMALS: u8> Context<'_, '_, M, DECIMALS>
//@ fn pay_for_funding_fees
//@ sig fn pay_for_funding_fees( &mut self, fees: &FundingFees<M::Num>, ) -> crate::Result<&mut Self>
//@ inline pay_for_cost :: impl<'a, M, const DECIMALS: u8> CollateralProcessor<'a, M, DECIMALS> :: receive
//@ sub Ok\(self\) => Ok(())
//@ after let cost = cost_amount :: proof { lemma_div_ceil_exact(cost_amount@, min_price@); }
//@ sub use num_traits::CheckedMul; =>
    fn pay_for_funding_fees(&mut self, fees: &FundingFees) -> (r: Result<(), E>)
        requires out_price(old(self).state).min@ > 0
        ensures
            // FUNDING: what the trader pays in the collateral token leaves the trader's amounts and is credited to NO pool - it is the
            // funding collected but not yet claimed; never more than the funding fee amount; what is paid in the secondary token is set
            // aside for the holding address. Pools are untouched.
            r.is_ok() ==> final(self).market.liquidity == old(self).market.liquidity && final(self).market.claimable_fee == old(self).market.claimable_fee && final(self).market.position_impact == old(self).market.position_impact,
            r.is_ok() ==> ({
                let collected = (old(self).state.output_amount@ + old(self).state.remaining_collateral_amount@) - (final(self).state.output_amount@ + final(self).state.remaining_collateral_amount@);
                &&& 0 <= collected <= fees.amount@
                &&& final(self).state.for_holding.secondary_output_token_amount@ + final(self).state.secondary_output_amount@ == old(self).state.for_holding.secondary_output_token_amount@ + old(self).state.secondary_output_amount@
                &&& final(self).state.for_holding.output_token_amount == old(self).state.for_holding.output_token_amount && final(self).state.for_user == old(self).state.for_user
            }),
//@body

//@unit C08.Context.pay_for_fees_excluding_funding
//@ file crates/model/src/action/decrease_position/collateral_processor.rs
//@ within impl<M, const DECIMALS: u8> Context<'_, '_, M, DECIMALS>
//@ fn pay_for_fees_excluding_funding
//@ sig fn pay_for_fees_excluding_funding( &mut self, fees: &mut PositionFees<M::Num>, ) -> crate::Result<&mut Self>
//@ inline pay_for_cost :: impl<'a, M, const DECIMALS: u8> CollateralProcessor<'a, M, DECIMALS> :: receive
//@ sub Ok\(self\) => Ok(())
//@ after let cost = cost_amount :: proof { lemma_div_ceil_exact(cost_amount@, min_price@); }
//@ sub use num_traits::CheckedMul; =>
    fn pay_for_fees_excluding_funding(&mut self, fees: &mut PositionFees) -> (r: Result<(), E>)
        requires out_price(old(self).state).min@ > 0, fees_wf(*old(fees))
        ensures
            // the pools never receive LESS than the trader paid, and exactly what was paid whenever the payment was not complete in the
            // collateral token; claimable buckets untouched. (That they receive exactly what was paid in EVERY case is the known finding.)
            r.is_ok() ==> forall|t: bool| #![auto] total_of(*final(self), t) >= total_of(*old(self), t),
            r.is_ok() ==> final(self).state.for_user == old(self).state.for_user && final(self).state.for_holding == old(self).state.for_holding
                && final(self).market.position_impact == old(self).market.position_impact,
            // fees that could not be paid entirely in the collateral token are cleared (everything paid goes to the pool)
            r.is_ok() ==> *final(fees) == *old(fees) || fees_cleared(*final(fees)),
//@body

//@unit C08.Context.pay_for_price_impact_diff
//@ file crates/model/src/action/decrease_position/collateral_processor.rs
//@ within impl<M, const DECIMALS: u8> Context<'_, '_, M, DECIMALS>
//@ fn pay_for_price_impact_diff
//@ sig fn pay_for_price_impact_diff( &mut self, price_impact_diff: &M::Num, ) -> crate::Result<&mut Self>
//@ inline pay_for_cost :: impl<'a, M, const DECIMALS: u8> CollateralProcessor<'a, M, DECIMALS> :: receive
//@ sub Ok\(self\) => Ok(())
    fn pay_for_price_impact_diff(&mut self, price_impact_diff: &N) -> (r: Result<(), E>)
        ensures
            // CONSERVATION: the capped part of a negative impact moves from the trader's amounts to the user's claimable bucket, one for one
            r.is_ok() ==> forall|t: bool| #![auto] total_of(*final(self), t) == total_of(*old(self), t),
            r.is_ok() ==> final(self).market == old(self).market && final(self).state.for_holding == old(self).state.for_holding,
//@body
}
} // verus!
