//@include inc/model_base_u128.rs
// =================================================================================================
// C45 (store side)  GLV composition and per-market balance caps
//      programs/store/src/states/glv.rs :: Glv::{insert_market, validate_market_token_balance, update_market_token_balance,
//                                                 market_config}, GlvMarketConfig::{validate_balance, update_balance, balance}
//      Assumed (listed in the evidence): the fixed-capacity map `GlvMarkets` (get / get_mut / insert_with_options:
//      the contract of C34), Market::validated_meta (C23 / C44 material: returns the market's meta or fails),
//      `GlvMarketConfig::default()` = the zeroed config.
// =================================================================================================
verus! {
#[derive(Clone, Copy, Eq)]
pub struct Pubkey { pub hi: u128, pub lo: u128 }
impl PartialEqSpecImpl for Pubkey {
    open spec fn obeys_eq_spec() -> bool { true }
    open spec fn eq_spec(&self, other: &Pubkey) -> bool { *self == *other }
}
impl PartialEq for Pubkey {
    fn eq(&self, other: &Pubkey) -> (r: bool) { self.hi == other.hi && self.lo == other.lo }
}
/// glue: `new_balance as u128`
pub fn n_of_u64(v: u64) -> (r: N) ensures r@ == v { N(v as u128) }

//@struct crates/utils/src/market.rs :: pub struct MarketMeta :: market_token_mint, index_token_mint, long_token_mint, short_token_mint
#[derive(Clone, Copy)]
pub struct MarketMeta { pub market_token_mint: Pubkey, pub index_token_mint: Pubkey, pub long_token_mint: Pubkey, pub short_token_mint: Pubkey }
/// carrier of a market account: its meta, and whether it passes `validated_meta(store)` for a given store
pub struct Market { pub meta: MarketMeta, pub valid_for: Ghost<spec_fn(Pubkey) -> bool> }
impl Market {
    /// ASSUMED (Market::validate: initialized, enabled, owned by the store): the meta or an error
    #[verifier::external_body]
    pub fn validated_meta(&self, store: &Pubkey) -> (r: Result<&MarketMeta, E>)
        ensures r.is_ok() == (self.valid_for@)(*store), r.is_ok() ==> *r.unwrap() == self.meta
    { unimplemented!() }
}

//@struct programs/store/src/states/glv.rs :: pub struct GlvMarketConfig :: max_amount, flags, padding_0, max_value, balance, padding_1
/// (flags and padding are not read by the functions under contract)
#[derive(Clone, Copy)]
pub struct GlvMarketConfig { pub max_amount: u64, pub max_value: u128, pub balance: u64, pub flags: u8 }
pub open spec fn zero_config() -> GlvMarketConfig { GlvMarketConfig { max_amount: 0, max_value: 0, balance: 0, flags: 0 } }
/// usd value of a market token balance: pool value x balance / supply, rounded down (C01 contract of market_token_amount_to_usd)
pub open spec fn balance_value(balance: int, pool_value: int, supply: int) -> int { mul_div_floor(pool_value, balance, supply) }
/// THE STATEMENT for one market: the balance respects the configured maximum amount and maximum value (0 = not configured)
pub open spec fn balance_within_caps(c: GlvMarketConfig, new_balance: int, pool_value: int, supply: int) -> bool {
    &&& (c.max_amount != 0 ==> new_balance <= c.max_amount)
    &&& (c.max_value != 0 ==> pool_value >= 0 && supply != 0 && balance_value(new_balance, pool_value, supply) <= c.max_value)
}
impl GlvMarketConfig {
    /// `impl Default for GlvMarketConfig { fn default() -> Self { Self::zeroed() } }` (bytemuck): all-zero
    pub fn default() -> (r: GlvMarketConfig) ensures r == zero_config() { GlvMarketConfig { max_amount: 0, max_value: 0, balance: 0, flags: 0 } }

//@unit C45.GlvMarketConfig.validate_balance
//@ file programs/store/src/states/glv.rs
//@ within impl GlvMarketConfig
//@ fn validate_balance
//@ sig fn validate_balance( &self, new_balance: u64, market_pool_value: &i128, market_token_supply: &u128, ) -> Result<()>
//@ sub gmsol_model::utils::market_token_amount_to_usd\( => market_token_amount_to_usd(
//@ sub &\(((?:\w+\.)*\w+) as u128\) => &n_of_u64(\1)
//@ sub \(self\.max_value\) >= \(value\) => (self.max_value) >= (value.0)
    fn validate_balance(&self, new_balance: u64, market_pool_value: &S, market_token_supply: &N) -> (r: Result<(), E>)
        ensures
            // a success means BOTH configured caps hold for the new balance
            r.is_ok() ==> balance_within_caps(*self, new_balance as int, market_pool_value@, market_token_supply@),
            // and a balance within the caps (with a computable value) is accepted
            balance_within_caps(*self, new_balance as int, market_pool_value@, market_token_supply@) ==> r.is_ok(),
//@body

//@unit C45.GlvMarketConfig.update_balance
//@ file programs/store/src/states/glv.rs
//@ within impl GlvMarketConfig
//@ fn update_balance
//@ sig fn update_balance(&mut self, new_balance: u64)
    fn update_balance(&mut self, new_balance: u64)
        ensures *final(self) == (GlvMarketConfig { balance: new_balance, ..*old(self) })
//@body

//@unit C45.GlvMarketConfig.balance
//@ file programs/store/src/states/glv.rs
//@ within impl GlvMarketConfig
//@ fn balance
//@ sig fn balance(&self) -> u64
    pub fn balance(&self) -> (r: u64) ensures r == self.balance
//@body
}

/// the fixed-capacity map market token -> config (fixed_map!, the contract of C34), as a spec map
pub struct GlvMarkets { pub m: Ghost<Map<Pubkey, GlvMarketConfig>> }
impl GlvMarkets {
    #[verifier::external_body]
    pub fn get(&self, key: &Pubkey) -> (r: Option<&GlvMarketConfig>)
        ensures r.is_some() == self.m@.dom().contains(*key), r.is_some() ==> *r.unwrap() == self.m@[*key]
    { unimplemented!() }
    #[verifier::external_body]
    pub fn get_mut(&mut self, key: &Pubkey) -> (r: Option<&mut GlvMarketConfig>)
        ensures r.is_some() == old(self).m@.dom().contains(*key),
            r.is_some() ==> *r.unwrap() == old(self).m@[*key] && final(self).m@ == old(self).m@.insert(*key, *final(r.unwrap())),
            r.is_none() ==> final(self).m@ == old(self).m@,
    { unimplemented!() }
    /// `new = true`: an existing key is an error; a full map is an error
    #[verifier::external_body]
    pub fn insert_with_options(&mut self, key: &Pubkey, value: GlvMarketConfig, new: bool) -> (r: Result<Option<GlvMarketConfig>, E>)
        ensures
            r.is_ok() ==> final(self).m@ == old(self).m@.insert(*key, value) && (new ==> !old(self).m@.dom().contains(*key)),
            r.is_err() ==> final(self).m@ == old(self).m@,
    { unimplemented!() }
}

/// carrier of the GLV account: its two tokens and its markets (the other fields are not touched by these functions)
pub struct Glv { pub long_token: Pubkey, pub short_token: Pubkey, pub markets: GlvMarkets, pub market_tokens_meta: Ghost<Map<Pubkey, MarketMeta>> }
/// THE COMPOSITION INVARIANT: every market of the GLV was inserted with the GLV's long and short tokens
/// (`market_tokens_meta` is the ghost record of the meta each market token was inserted with)
pub open spec fn glv_wf(g: Glv) -> bool {
    forall|t: Pubkey| #[trigger] g.markets.m@.dom().contains(t) ==> g.market_tokens_meta@.dom().contains(t)
        && g.market_tokens_meta@[t].market_token_mint == t
        && g.market_tokens_meta@[t].long_token_mint == g.long_token && g.market_tokens_meta@[t].short_token_mint == g.short_token
}
impl Glv {
//@unit C45.Glv.insert_market
//@ file programs/store/src/states/glv.rs
//@ within impl Glv
//@ fn insert_market
//@ sig fn insert_market(&mut self, store: &Pubkey, market: &Market) -> Result<()>
//@ before let market_token = meta.market_token_mint; :: proof { self.market_tokens_meta = Ghost(self.market_tokens_meta@.insert(meta.market_token_mint, *meta)); }
    pub fn insert_market(&mut self, store: &Pubkey, market: &Market) -> (r: Result<(), E>)
        requires glv_wf(*old(self)),
        ensures
            // only a valid market of this store whose two pool tokens ARE the GLV's long and short tokens gets in
            r.is_ok() ==> (market.valid_for@)(*store) && market.meta.long_token_mint == old(self).long_token && market.meta.short_token_mint == old(self).short_token,
            // it is new, and starts with the default (zero) config
            r.is_ok() ==> !old(self).markets.m@.dom().contains(market.meta.market_token_mint)
                && final(self).markets.m@ == old(self).markets.m@.insert(market.meta.market_token_mint, zero_config()),
            r.is_err() ==> final(self).markets.m@ == old(self).markets.m@,
            final(self).long_token == old(self).long_token && final(self).short_token == old(self).short_token,
            // the composition invariant is preserved
            glv_wf(*final(self)),
//@body

//@unit C45.Glv.market_config
//@ file programs/store/src/states/glv.rs
//@ within impl Glv
//@ fn market_config
//@ sig fn market_config(&self, market_token: &Pubkey) -> Option<&GlvMarketConfig>
    pub fn market_config(&self, market_token: &Pubkey) -> (r: Option<&GlvMarketConfig>)
        ensures r.is_some() == self.markets.m@.dom().contains(*market_token), r.is_some() ==> *r.unwrap() == self.markets.m@[*market_token]
//@body

//@unit C45.Glv.validate_market_token_balance
//@ file programs/store/src/states/glv.rs
//@ within impl Glv
//@ fn validate_market_token_balance
//@ sig fn validate_market_token_balance( &self, market_token: &Pubkey, new_balance: u64, market_pool_value: &i128, market_token_supply: &u128, ) -> Result<()>
    pub fn validate_market_token_balance(&self, market_token: &Pubkey, new_balance: u64, market_pool_value: &S, market_token_supply: &N) -> (r: Result<(), E>)
        ensures
            // a success: the market belongs to the GLV and the new balance respects THAT market's configured caps
            r.is_ok() ==> self.markets.m@.dom().contains(*market_token)
                && balance_within_caps(self.markets.m@[*market_token], new_balance as int, market_pool_value@, market_token_supply@),
            // a market of the GLV whose caps hold is accepted
            self.markets.m@.dom().contains(*market_token) && balance_within_caps(self.markets.m@[*market_token], new_balance as int, market_pool_value@, market_token_supply@) ==> r.is_ok(),
//@body

//@unit C45.Glv.update_market_token_balance
//@ file programs/store/src/states/glv.rs
//@ within impl Glv
//@ fn update_market_token_balance
//@ sig fn update_market_token_balance( &mut self, market_token: &Pubkey, new_balance: u64, ) -> Result<()>
    pub fn update_market_token_balance(&mut self, market_token: &Pubkey, new_balance: u64) -> (r: Result<(), E>)
        ensures
            // only the recorded balance of that market changes
            r.is_ok() ==> old(self).markets.m@.dom().contains(*market_token)
                && final(self).markets.m@ == old(self).markets.m@.insert(*market_token, GlvMarketConfig { balance: new_balance, ..old(self).markets.m@[*market_token] }),
            r.is_err() ==> final(self).markets.m@ == old(self).markets.m@,
            final(self).long_token == old(self).long_token && final(self).short_token == old(self).short_token,
//@body
}
} // verus!
