//@include inc/model_base_u128.rs
// =================================================================================================
// C38 (unstake)  programs/liquidity-provider/src/lib.rs :: unstake_lp (the whole handler)
//      Handler technique (DESIGN 8.8): the context is a carrier passed by `&mut`; every CPI with its account plumbing is ONE
//      call that appends to a ghost ledger and may fail (GT mint, SPL transfer_checked out of the position vault, SPL
//      close_account of the vault, Anchor `close` of the position account); compute_reward_with_cpi (clock, CPI refreshing
//      the cumulative inverse cost, reward formula: verus/C38.rs) is one assumed call returning an arbitrary outcome.
// =================================================================================================
verus! {
#[derive(Clone, Copy, Eq)]
pub struct Pubkey { pub hi: u128, pub lo: u128 }
impl PartialEqSpecImpl for Pubkey {
    open spec fn obeys_eq_spec() -> bool { true }
    open spec fn eq_spec(&self, other: &Pubkey) -> bool { *self == *other }
}
impl PartialEq for Pubkey {
    fn eq(&self, other: &Pubkey) -> (r: bool) { self.hi == other.hi && self.lo == other.lo }
}

/// what leaves the program as a CPI, in order
pub enum Cpi { MintGtReward { amount: u64 }, TransferFromVault { amount: u64, decimals: u8 }, CloseVault, ClosePosition }

/// the account structs with ALL their scalar fields (so that a change that starts reading another field still compiles here);
/// the APY table and the reserved bytes are not carried
//@struct programs/liquidity-provider/src/lib.rs :: pub struct GlobalState :: authority, pending_authority, apy_gradient, min_stake_value, claim_enabled, bump, pricing_staleness_seconds, reserved
pub struct GlobalState { pub authority: Pubkey, pub pending_authority: Pubkey, pub min_stake_value: u128, pub claim_enabled: bool, pub bump: u8, pub pricing_staleness_seconds: u32 }
//@struct programs/liquidity-provider/src/lib.rs :: pub struct LpTokenController :: global_state, lp_token_mint, controller_index, total_positions, is_enabled, disabled_at, disabled_cum_inv_cost, bump, reserved
pub struct Controller { pub global_state: Pubkey, pub lp_token_mint: Pubkey, pub controller_index: u64, pub total_positions: u64, pub is_enabled: bool, pub disabled_at: i64, pub disabled_cum_inv_cost: u128, pub bump: u8 }
//@struct programs/liquidity-provider/src/lib.rs :: pub struct Position :: owner, controller, lp_mint, vault, position_id, staked_amount, staked_value_usd, stake_start_time, cum_inv_cost, bump, reserved
pub struct Position { pub owner: Pubkey, pub controller: Pubkey, pub lp_mint: Pubkey, pub vault: Pubkey, pub position_id: u64, pub staked_amount: u64, pub staked_value_usd: u128, pub stake_start_time: i64, pub cum_inv_cost: u128, pub bump: u8 }
pub struct TokenAccount { pub amount: u64 }
pub struct Mint { pub address: Pubkey, pub decimals: u8 }
impl Mint { pub fn key(&self) -> (r: Pubkey) ensures r == self.address { self.address } }
pub struct Accounts {
    pub global_state: GlobalState, pub controller: Controller, pub position: Position, pub position_vault: TokenAccount, pub lp_mint: Mint,
    pub ledger: Ghost<Seq<Cpi>>,
}
pub struct Ctx { pub accounts: Accounts }
//@struct programs/liquidity-provider/src/lib.rs :: struct ComputeRewardOut :: gt_reward_raw, cum_now, prev_cum, inv_cost_integral, duration_seconds
pub struct ComputeRewardOut { pub gt_reward_raw: u64, pub cum_now: u128, pub prev_cum: u128, pub inv_cost_integral: u128, pub duration_seconds: i64 }

/// ASSUMED: the claim-like flow (clock, refresh CPI, reward formula of verus/C38.rs): an arbitrary outcome or an error
#[verifier::external_body]
pub fn compute_reward_with_cpi() -> (r: Result<ComputeRewardOut, E>) { unimplemented!() }
/// each CPI: one ledger entry, or an error that leaves the ledger alone
#[verifier::external_body]
pub fn cpi_mint_gt_reward(ledger: &mut Ghost<Seq<Cpi>>, amount: u64) -> (r: Result<(), E>)
    ensures r.is_ok() ==> final(ledger)@ == old(ledger)@.push(Cpi::MintGtReward { amount }), r.is_err() ==> final(ledger)@ == old(ledger)@
{ unimplemented!() }
#[verifier::external_body]
pub fn cpi_transfer_from_vault(ledger: &mut Ghost<Seq<Cpi>>, amount: u64, decimals: u8) -> (r: Result<(), E>)
    ensures r.is_ok() ==> final(ledger)@ == old(ledger)@.push(Cpi::TransferFromVault { amount, decimals }), r.is_err() ==> final(ledger)@ == old(ledger)@
{ unimplemented!() }
#[verifier::external_body]
pub fn cpi_close_vault(ledger: &mut Ghost<Seq<Cpi>>) -> (r: Result<(), E>)
    ensures r.is_ok() ==> final(ledger)@ == old(ledger)@.push(Cpi::CloseVault), r.is_err() ==> final(ledger)@ == old(ledger)@
{ unimplemented!() }
#[verifier::external_body]
pub fn cpi_close_position(ledger: &mut Ghost<Seq<Cpi>>) -> (r: Result<(), E>)
    ensures r.is_ok() ==> final(ledger)@ == old(ledger)@.push(Cpi::ClosePosition), r.is_err() ==> final(ledger)@ == old(ledger)@
{ unimplemented!() }

// ---- the statement --------------------------------------------------------------------------------------------------
/// value kept by a partial unstake: proportional to what remains, rounded down
pub open spec fn kept_value(old_value: int, old_amount: int, unstake: int) -> int {
    if old_amount - unstake == 0 { 0 } else { mul_div_floor(old_value, old_amount - unstake, old_amount) }
}
/// the unstake closes the position: nothing remains, or what remains is worth less than the minimum stake
pub open spec fn is_full_exit(a: Accounts, unstake: int) -> bool {
    a.position.staked_amount - unstake == 0 || kept_value(a.position.staked_value_usd as int, a.position.staked_amount as int, unstake) < a.global_state.min_stake_value
}
/// the CPIs after the (optional) reward mint
pub open spec fn unstake_cpis(a: Accounts, unstake: u64) -> Seq<Cpi> {
    if is_full_exit(a, unstake as int) {
        (if a.position_vault.amount > 0 { seq![Cpi::TransferFromVault { amount: a.position_vault.amount, decimals: a.lp_mint.decimals }] } else { Seq::<Cpi>::empty() })
            + seq![Cpi::CloseVault, Cpi::ClosePosition]
    } else {
        seq![Cpi::TransferFromVault { amount: unstake, decimals: a.lp_mint.decimals }]
    }
}

/// the optional first CPI: a GT reward mint of a positive amount (present exactly when the entry at that place is one)
pub open spec fn mint_part(l: Seq<Cpi>, k: int) -> Seq<Cpi> {
    if 0 <= k < l.len() && (l[k] is MintGtReward) && l[k]->MintGtReward_amount > 0 { seq![l[k]] } else { Seq::<Cpi>::empty() }
}

//@unit C38.unstake_lp
//@ file programs/liquidity-provider/src/lib.rs
//@ within pub mod gmsol_liquidity_provider
//@ fn unstake_lp
//@ sig fn unstake_lp( ctx: Context<UnstakeLp>, _position_id: u64, unstake_amount: u64, ) -> Result<()>
//@ sub ErrorCode::(\w+) => E::Other
//@ sub compute_reward_with_cpi\([\s\S]*?\)\?; => compute_reward_with_cpi()?;
//@ sub let gs_seeds: &\[&\[u8\]\] = &\[GLOBAL_STATE_SEED, &\[global_state\.bump\]\];[\s\S]*?gt_cpi::mint_gt_reward\(mint_ctx, gt_reward_raw\)\?; => cpi_mint_gt_reward(&mut ctx.accounts.ledger, gt_reward_raw)?;
//@ sub let gs_seeds: &\[&\[u8\]\] = &\[GLOBAL_STATE_SEED, &\[global_state\.bump\]\];[\s\S]*?token_if::transfer_checked\(cpi_ctx, (\w+), ctx\.accounts\.lp_mint\.decimals\)\?; => cpi_transfer_from_vault(&mut ctx.accounts.ledger, \1, ctx.accounts.lp_mint.decimals)?;
//@ sub let gs_seeds: &\[&\[u8\]\] = &\[GLOBAL_STATE_SEED, &\[global_state\.bump\]\];[\s\S]*?token_if::close_account\(close_ctx\)\?; => cpi_close_vault(&mut ctx.accounts.ledger)?;
//@ sub ctx\s*\.accounts\s*\.position\s*\.close\(ctx\.accounts\.owner\.to_account_info\(\)\)\?; => cpi_close_position(&mut ctx.accounts.ledger)?;
//@ sub MulDiv::(checked_mul_div\w*)\( => MulDivLeaf::\1(
//@ top :: let ghost a0 = ctx.accounts;
pub fn unstake_lp(ctx: &mut Ctx, _position_id: u64, unstake_amount: u64) -> (r: Result<(), E>)
    ensures
        // admission: a positive amount of at most the stake, of the position's own LP mint; WHILE CLAIMS ARE DISABLED ONLY A FULL EXIT
        r.is_ok() ==> unstake_amount > 0 && unstake_amount <= old(ctx).accounts.position.staked_amount
            && old(ctx).accounts.lp_mint.address == old(ctx).accounts.position.lp_mint
            && (!old(ctx).accounts.global_state.claim_enabled ==> unstake_amount == old(ctx).accounts.position.staked_amount),
        // what leaves: an optional GT reward mint, then EXACTLY the requested tokens for a partial unstake, or - for a full exit -
        // THE WHOLE VAULT (whatever it holds), the vault closed and the position closed
        r.is_ok() ==> final(ctx).accounts.ledger@ =~= old(ctx).accounts.ledger@ + mint_part(final(ctx).accounts.ledger@, old(ctx).accounts.ledger@.len() as int)
            + unstake_cpis(old(ctx).accounts, unstake_amount),
        // a partial unstake keeps the remaining tokens and a PROPORTIONAL, ROUNDED-DOWN value; a full exit zeroes both and takes the
        // position out of the controller's count
        r.is_ok() && !is_full_exit(old(ctx).accounts, unstake_amount as int) ==>
            final(ctx).accounts.position.staked_amount == old(ctx).accounts.position.staked_amount - unstake_amount
            && final(ctx).accounts.position.staked_value_usd == kept_value(old(ctx).accounts.position.staked_value_usd as int, old(ctx).accounts.position.staked_amount as int, unstake_amount as int)
            && final(ctx).accounts.controller == old(ctx).accounts.controller,
        r.is_ok() && is_full_exit(old(ctx).accounts, unstake_amount as int) ==>
            final(ctx).accounts.position.staked_amount == 0 && final(ctx).accounts.position.staked_value_usd == 0
            && final(ctx).accounts.controller.total_positions == old(ctx).accounts.controller.total_positions - 1,
        final(ctx).accounts.global_state == old(ctx).accounts.global_state && final(ctx).accounts.lp_mint == old(ctx).accounts.lp_mint
            && final(ctx).accounts.position.lp_mint == old(ctx).accounts.position.lp_mint,
//@body
} // verus!
