//@prelude u128
// =================================================================================================
// C23  User actions complete or cancel exactly once; who may close what  (state machine + close gate)
//      crates/utils/src/action.rs                       :: ActionState::{completed, cancelled, is_*}
//      programs/store/src/states/common/action.rs       :: ActionHeader::{action_state, set_action_state, completed, cancelled}
//      programs/store/src/utils/internal/action.rs      :: Close::preprocess (trait-default method)
// =================================================================================================
verus! {
/// 32-byte address as two 128-bit words (a faithful value carrier; equality is structural)
#[derive(Clone, Copy, Eq)]
pub struct Pubkey { pub hi: u128, pub lo: u128 }
impl PartialEqSpecImpl for Pubkey {
    open spec fn obeys_eq_spec() -> bool { true }
    open spec fn eq_spec(&self, other: &Pubkey) -> bool { *self == *other }
}
impl PartialEq for Pubkey {
    fn eq(&self, other: &Pubkey) -> (r: bool) { self.hi == other.hi && self.lo == other.lo }
}

//@struct crates/utils/src/action.rs :: pub enum ActionState ::
#[derive(Clone, Copy)]
pub enum ActionState { Pending, Completed, Cancelled }

impl ActionState {
//@unit C23.ActionState.completed
//@ file crates/utils/src/action.rs
//@ within impl ActionState
//@ fn completed
//@ sig fn completed(self) -> ActionResult<Self>
//@ sub ActionError::PreconditionsAreNotMet\("expected pending"\) => E::Other
    pub fn completed(self) -> (r: Result<ActionState, E>)
        ensures r.is_ok() <==> self is Pending, r.is_ok() ==> r.unwrap() is Completed
//@body

//@unit C23.ActionState.cancelled
//@ file crates/utils/src/action.rs
//@ within impl ActionState
//@ fn cancelled
//@ sig fn cancelled(self) -> ActionResult<Self>
//@ sub ActionError::PreconditionsAreNotMet\("expected pending"\) => E::Other
    pub fn cancelled(self) -> (r: Result<ActionState, E>)
        ensures r.is_ok() <==> self is Pending, r.is_ok() ==> r.unwrap() is Cancelled
//@body

//@unit C23.ActionState.is_completed_or_cancelled
//@ file crates/utils/src/action.rs
//@ within impl ActionState
//@ fn is_completed_or_cancelled
//@ sig fn is_completed_or_cancelled(&self) -> bool
    pub fn is_completed_or_cancelled(&self) -> (r: bool)
        ensures r == (*self is Completed || *self is Cancelled)
//@body

//@unit C23.ActionState.is_pending
//@ file crates/utils/src/action.rs
//@ within impl ActionState
//@ fn is_pending
//@ sig fn is_pending(&self) -> bool
    pub fn is_pending(&self) -> (r: bool)
        ensures r == (*self is Pending)
//@body

    /// glue: num_enum `TryFromPrimitive` / `IntoPrimitive` on the `#[repr(u8)]` enum (discriminants 0, 1, 2)
    pub fn try_from(v: u8) -> (r: Result<ActionState, E>)
        ensures r.is_ok() <==> v <= 2, r.is_ok() ==> state_code(r.unwrap()) == v
    { if v == 0 { Ok(ActionState::Pending) } else if v == 1 { Ok(ActionState::Completed) } else if v == 2 { Ok(ActionState::Cancelled) } else { Err(E::Other) } }
    pub fn into(self) -> (r: u8) ensures r == state_code(self)
    { match self { ActionState::Pending => 0, ActionState::Completed => 1, ActionState::Cancelled => 2 } }
}
pub open spec fn state_code(s: ActionState) -> u8 { match s { ActionState::Pending => 0u8, ActionState::Completed => 1u8, ActionState::Cancelled => 2u8 } }

//@struct programs/store/src/states/common/action.rs :: pub struct ActionHeader :: version, action_state, bump, flags, callback_kind, callback_version, padding_0, id, store, market, owner, nonce, max_execution_lamports, updated_at, updated_at_slot, creator, rent_receiver, receiver, callback_program_id, callback_shared_data, callback_partitioned_data, reserved
pub struct ActionHeader { pub action_state: u8, pub owner: Pubkey, pub id: u64 }

impl ActionHeader {
//@unit C23.ActionHeader.action_state
//@ file programs/store/src/states/common/action.rs
//@ within impl ActionHeader
//@ fn action_state
//@ sig fn action_state(&self) -> Result<ActionState>
    pub fn action_state(&self) -> (r: Result<ActionState, E>)
        ensures r.is_ok() <==> self.action_state <= 2, r.is_ok() ==> state_code(r.unwrap()) == self.action_state
//@body

//@unit C23.ActionHeader.set_action_state
//@ file programs/store/src/states/common/action.rs
//@ within impl ActionHeader
//@ fn set_action_state
//@ sig fn set_action_state(&mut self, new_state: ActionState)
    pub fn set_action_state(&mut self, new_state: ActionState)
        ensures final(self).action_state == state_code(new_state), final(self).owner == old(self).owner, final(self).id == old(self).id
//@body

//@unit C23.ActionHeader.completed
//@ file programs/store/src/states/common/action.rs
//@ within impl ActionHeader
//@ fn completed
//@ sig fn completed(&mut self) -> Result<()>
//@ sub \.map_err\(E::Other\)\s*\.map_err\(\|err\| error!\(err\)\)\? => ?
    pub fn completed(&mut self) -> (r: Result<(), E>)
        ensures
            // only a pending action completes; a terminal (or corrupt) state is never left
            r.is_ok() <==> old(self).action_state == 0,
            r.is_ok() ==> final(self).action_state == 1 && final(self).owner == old(self).owner && final(self).id == old(self).id,
            r.is_err() ==> *final(self) == *old(self),
//@body

//@unit C23.ActionHeader.cancelled
//@ file programs/store/src/states/common/action.rs
//@ within impl ActionHeader
//@ fn cancelled
//@ sig fn cancelled(&mut self) -> Result<()>
//@ sub \.map_err\(E::Other\)\s*\.map_err\(\|err\| error!\(err\)\)\? => ?
    pub fn cancelled(&mut self) -> (r: Result<(), E>)
        ensures
            r.is_ok() <==> old(self).action_state == 0,
            r.is_ok() ==> final(self).action_state == 2 && final(self).owner == old(self).owner && final(self).id == old(self).id,
            r.is_err() ==> *final(self) == *old(self),
//@body
}
// ---- Close::preprocess: who may close what ----------------------------------------------------------
/// Carrier for `Self` of the trait-default method (a `#[derive(Accounts)]` context): the five things it
/// reads. `authority().key`, `action().load()?.header()`, `only_role(expected_keeper_role())`,
/// `skip_completion_check_for_keeper()` are modelled as (fallible) field reads -- trusted glue.
pub struct Signer { pub key: &'static Pubkey }
pub struct ActionAccount { pub header: ActionHeader }
impl ActionAccount { pub fn header(&self) -> (r: &ActionHeader) ensures *r == self.header { &self.header } }
pub struct ActionLoader { pub data: Option<ActionAccount> }
impl ActionLoader {
    pub fn load(&self) -> (r: Result<&ActionAccount, E>)
        ensures r.is_ok() == self.data.is_some(), r.is_ok() ==> *r.unwrap() == self.data.unwrap()
    { match &self.data { Some(a) => Ok(a), None => Err(E::Other) } }
}
pub struct RoleKey { pub id: u8 }
pub struct CloseCtx { pub authority: Signer, pub action: ActionLoader, pub has_keeper_role: bool, pub skip_check: Option<bool>, pub keeper_role: RoleKey }
impl CloseCtx {
    pub fn authority(&self) -> (r: &Signer) ensures *r == self.authority { &self.authority }
    pub fn action(&self) -> (r: &ActionLoader) ensures *r == self.action { &self.action }
    pub fn expected_keeper_role(&self) -> (r: &RoleKey) ensures *r == self.keeper_role { &self.keeper_role }
    pub fn only_role(&self, _role: &RoleKey) -> (r: Result<(), E>) ensures r.is_ok() == self.has_keeper_role
    { if self.has_keeper_role { Ok(()) } else { Err(E::Other) } }
    pub fn skip_completion_check_for_keeper(&self) -> (r: Result<bool, E>)
        ensures r.is_ok() == self.skip_check.is_some(), r.is_ok() ==> r.unwrap() == self.skip_check.unwrap()
    { match self.skip_check { Some(b) => Ok(b), None => Err(E::Other) } }

//@unit C23.Close.preprocess
//@ file programs/store/src/utils/internal/action.rs
//@ within pub(crate) trait Close<'info, A>: Authenticate<'info> where A: Action + ZeroCopy + Owner + Closable,
//@ fn preprocess
//@ sig fn preprocess(&self) -> Result<IsCallerOwner>
    pub fn preprocess(&self) -> (r: Result<bool, E>)
        ensures
            // the result says whether the caller is the owner
            r.is_ok() && r.unwrap() ==> self.action.data.is_some() && *self.authority.key == self.action.data.unwrap().header.owner,
            // anyone else must hold the keeper role, and (unless the action type opts out of the check) may close only terminal actions:
            // a PENDING action can be closed only by its owner
            r.is_ok() && !r.unwrap() ==> self.has_keeper_role && self.action.data.is_some()
                && *self.authority.key != self.action.data.unwrap().header.owner
                && (self.skip_check == Some(true) || self.action.data.unwrap().header.action_state == 1 || self.action.data.unwrap().header.action_state == 2),
//@body
}
} // verus!
