//@prelude u128
// =================================================================================================
// C33  Referral relationships are write-once  (state functions; handler constraints located by text)
//      programs/store/src/states/user.rs :: Referral::{set_code, set_referrer, referrer, code},
//                                           ReferralCodeV2::{set_next_owner, next_owner}
//      crates/utils/src/pubkey.rs         :: optional_address
// =================================================================================================
verus! {
/// 32-byte address as two 128-bit words (a faithful value carrier; equality is structural)
#[derive(Clone, Copy, Eq)]
pub struct Pubkey { pub hi: u128, pub lo: u128 }
impl PartialEqSpecImpl for Pubkey {
    open spec fn obeys_eq_spec() -> bool { true }
    open spec fn eq_spec(&self, other: &Pubkey) -> bool { *self == *other }
}
impl PartialEq for Pubkey {
    fn eq(&self, other: &Pubkey) -> (r: bool) { self.hi == other.hi && self.lo == other.lo }
}
/// `Pubkey::new_from_array([0; 32])`
pub const DEFAULT_PUBKEY: Pubkey = Pubkey { hi: 0, lo: 0 };

//@unit C33.optional_address
//@ file crates/utils/src/pubkey.rs
//@ fn optional_address
//@ sig fn optional_address(pubkey: &Pubkey) -> Option<&Pubkey>
pub fn optional_address(pubkey: &Pubkey) -> (r: Option<&Pubkey>)
    ensures r.is_some() <==> *pubkey != DEFAULT_PUBKEY, r.is_some() ==> *r.unwrap() == *pubkey
//@body

//@struct programs/store/src/states/user.rs :: pub struct Referral :: referrer, code, referee_count, reserved
pub struct Referral { pub referrer: Pubkey, pub code: Pubkey, pub referee_count: u128 }
//@struct programs/store/src/states/user.rs :: pub struct UserHeader :: version, bump, flags, padding_0, owner, store, referral, gt, builder_fee_factor, reserved
pub struct UserHeader { pub flags: UserFlagContainer, pub owner: Pubkey, pub store: Pubkey, pub referral: Referral }
pub enum UserFlag { Initialized }
/// Carrier for the flags!-generated bit container (the one flag read here)
pub struct UserFlagContainer { pub initialized: bool }
impl UserFlagContainer {
    pub fn get_flag(&self, flag: UserFlag) -> (r: bool) ensures r == self.initialized { self.initialized }
}
/// `ReferralCodeBytes = [u8; 8]` carried as one 64-bit word; `ReferralCodeBytes::default()` is all zero
pub const REFERRAL_CODE_DEFAULT: u64 = 0;

impl Referral {
//@unit C33.Referral.set_code
//@ file programs/store/src/states/user.rs
//@ within impl Referral
//@ fn set_code
//@ sig fn set_code(&mut self, code: &Pubkey) -> Result<()>
    pub fn set_code(&mut self, code: &Pubkey) -> (r: Result<(), E>)
        ensures
            // write-once: a user that already has a code keeps it
            old(self).code != DEFAULT_PUBKEY ==> r.is_err(),
            r.is_err() ==> *final(self) == *old(self),
            r.is_ok() ==> final(self).code == *code && final(self).referrer == old(self).referrer && final(self).referee_count == old(self).referee_count,
//@body

//@unit C33.Referral.set_referrer
//@ file programs/store/src/states/user.rs
//@ within impl Referral
//@ fn set_referrer
//@ sig fn set_referrer(&mut self, referrer_user: &mut UserHeader) -> Result<()>
    pub fn set_referrer(&mut self, referrer_user: &mut UserHeader) -> (r: Result<(), E>)
        ensures
            // write-once: a referrer, once set, can never be replaced
            old(self).referrer != DEFAULT_PUBKEY ==> r.is_err(),
            // an uninitialised (ownerless) referrer is rejected
            old(referrer_user).owner == DEFAULT_PUBKEY ==> r.is_err(),
            // a rejected call changes neither account
            r.is_err() ==> *final(self) == *old(self) && *final(referrer_user) == *old(referrer_user),
            // success records the referrer's owner, which is therefore a real (non-default) address: the relation is now set for good
            r.is_ok() ==> final(self).referrer == old(referrer_user).owner && final(self).referrer != DEFAULT_PUBKEY
                && final(self).code == old(self).code && final(self).referee_count == old(self).referee_count,
            // the referrer's own relations are untouched; only its referee counter moves, and never down
            r.is_ok() ==> final(referrer_user).owner == old(referrer_user).owner && final(referrer_user).store == old(referrer_user).store
                && final(referrer_user).referral.referrer == old(referrer_user).referral.referrer
                && final(referrer_user).referral.code == old(referrer_user).referral.code
                && final(referrer_user).referral.referee_count >= old(referrer_user).referral.referee_count,
//@body

//@unit C33.Referral.referrer
//@ file programs/store/src/states/user.rs
//@ within impl Referral
//@ fn referrer
//@ sig fn referrer(&self) -> Option<&Pubkey>
    pub fn referrer(&self) -> (r: Option<&Pubkey>)
        ensures r.is_some() <==> self.referrer != DEFAULT_PUBKEY, r.is_some() ==> *r.unwrap() == self.referrer
//@body

//@unit C33.Referral.code
//@ file programs/store/src/states/user.rs
//@ within impl Referral
//@ fn code
//@ sig fn code(&self) -> Option<&Pubkey>
    pub fn code(&self) -> (r: Option<&Pubkey>)
        ensures r.is_some() <==> self.code != DEFAULT_PUBKEY, r.is_some() ==> *r.unwrap() == self.code
//@body
}

//@struct programs/store/src/states/user.rs :: pub struct ReferralCodeV2 :: version, bump, code, store, owner, next_owner, reserved
pub struct ReferralCodeV2 { pub code: u64, pub store: Pubkey, pub owner: Pubkey, pub next_owner: Pubkey }
impl ReferralCodeV2 {
//@unit C33.ReferralCodeV2.set_next_owner
//@ file programs/store/src/states/user.rs
//@ within impl ReferralCodeV2
//@ fn set_next_owner
//@ sig fn set_next_owner(&mut self, next_owner: &Pubkey) -> Result<()>
    pub fn set_next_owner(&mut self, next_owner: &Pubkey) -> (r: Result<(), E>)
        ensures
            // proposing a new owner never changes the owner: ownership moves only when the proposed owner accepts
            final(self).owner == old(self).owner && final(self).store == old(self).store && final(self).code == old(self).code,
            r.is_ok() ==> final(self).next_owner == *next_owner,
            r.is_err() ==> *final(self) == *old(self),
//@body

//@unit C33.ReferralCodeV2.next_owner
//@ file programs/store/src/states/user.rs
//@ within impl ReferralCodeV2
//@ fn next_owner
//@ sig fn next_owner(&self) -> &Pubkey
    pub fn next_owner(&self) -> (r: &Pubkey)
        ensures *r == self.next_owner
//@body
}
impl UserHeader {
//@unit C33.UserHeader.is_initialized
//@ file programs/store/src/states/user.rs
//@ within impl UserHeader
//@ fn is_initialized
//@ sig fn is_initialized(&self) -> bool
    pub fn is_initialized(&self) -> (r: bool)
        ensures r == self.flags.initialized
//@body

//@unit C33.UserHeader.unchecked_transfer_code
//@ file programs/store/src/states/user.rs
//@ within impl UserHeader
//@ fn unchecked_transfer_code
//@ sig fn unchecked_transfer_code( &self, code: &mut ReferralCodeV2, receiver_user: &Self, ) -> Result<()>
//@ sub ReferralCodeBytes::default\(\) => REFERRAL_CODE_DEFAULT
    pub fn unchecked_transfer_code(&self, code: &mut ReferralCodeV2, receiver_user: &UserHeader) -> (r: Result<(), E>)
        ensures
            // proposing a transfer never moves the ownership; it only records the proposed next owner
            final(code).owner == old(code).owner && final(code).code == old(code).code && final(code).store == old(code).store,
            r.is_ok() ==> final(code).next_owner == receiver_user.owner && receiver_user.referral.code == DEFAULT_PUBKEY,
            r.is_err() ==> *final(code) == *old(code),
//@body

//@unit C33.UserHeader.unchecked_complete_code_transfer
//@ file programs/store/src/states/user.rs
//@ within impl UserHeader
//@ fn unchecked_complete_code_transfer
//@ sig fn unchecked_complete_code_transfer( &mut self, code: &mut ReferralCodeV2, receiver_user: &mut Self, ) -> Result<()>
//@ sub ReferralCodeBytes::default\(\) => REFERRAL_CODE_DEFAULT
    pub fn unchecked_complete_code_transfer(&mut self, code: &mut ReferralCodeV2, receiver_user: &mut UserHeader) -> (r: Result<(), E>)
        ensures
            // ownership changes only towards the proposed next owner, and only to a user that holds no code yet
            r.is_ok() ==> old(receiver_user).owner == old(code).next_owner && old(receiver_user).referral.code == DEFAULT_PUBKEY,
            // the code then belongs to exactly one user: the receiver has it, the previous holder no longer does
            r.is_ok() ==> final(code).owner == old(receiver_user).owner
                && final(receiver_user).referral.code == old(self).referral.code
                && final(self).referral.code == DEFAULT_PUBKEY,
            // referrer relations and identities are not touched by a code transfer
            r.is_ok() ==> final(self).referral.referrer == old(self).referral.referrer && final(receiver_user).referral.referrer == old(receiver_user).referral.referrer
                && final(self).owner == old(self).owner && final(receiver_user).owner == old(receiver_user).owner
                && final(code).code == old(code).code && final(code).store == old(code).store,
            // a rejected completion changes nothing
            r.is_err() ==> *final(self) == *old(self) && *final(code) == *old(code) && *final(receiver_user) == *old(receiver_user),
//@body
}

// ---- the set_referrer instruction handler (programs/store/src/instructions/user.rs) ------------------------------------------
/// AccountLoader<UserHeader>: load / load_mut are projections
pub struct UserLoader { pub data: UserHeader }
impl UserLoader {
    pub fn load(&self) -> (r: Result<&UserHeader, E>) ensures r.is_ok() ==> *r.unwrap() == self.data { Ok(&self.data) }
    pub fn load_mut(&mut self) -> (r: Result<&mut UserHeader, E>)
        ensures r.is_ok(), *r.unwrap() == old(self).data, *final(self) == (UserLoader { data: *final(r.unwrap()) })
    { Ok(&mut self.data) }
}
pub struct SetReferrerAccounts { pub user: UserLoader, pub referrer_user: UserLoader }
pub struct SetReferrerCtx { pub accounts: SetReferrerAccounts }

//@unit C33.set_referrer_handler
//@ file programs/store/src/instructions/user.rs
//@ fn set_referrer
//@ sig fn set_referrer(ctx: Context<SetReferrer>, _code: ReferralCodeBytes) -> Result<()>
pub fn set_referrer(ctx: &mut SetReferrerCtx, _code: u64) -> (r: Result<(), E>)
    ensures
        // NEVER MUTUAL: a user whose would-be referrer was referred by that very user is rejected
        r.is_ok() ==> old(ctx).accounts.referrer_user.data.referral.referrer != old(ctx).accounts.user.data.owner,
        // what a success does is exactly Referral::set_referrer on the two accounts: the user's referrer becomes the referrer
        // account's owner (write-once), the referrer's referee counter grows, nothing else of either relation changes
        r.is_ok() ==> old(ctx).accounts.user.data.referral.referrer == DEFAULT_PUBKEY
            && final(ctx).accounts.user.data.referral.referrer == old(ctx).accounts.referrer_user.data.owner
            && final(ctx).accounts.user.data.referral.referrer != DEFAULT_PUBKEY
            && final(ctx).accounts.user.data.owner == old(ctx).accounts.user.data.owner
            && final(ctx).accounts.referrer_user.data.referral.referrer == old(ctx).accounts.referrer_user.data.referral.referrer
            && final(ctx).accounts.referrer_user.data.owner == old(ctx).accounts.referrer_user.data.owner,
        r.is_err() ==> final(ctx).accounts == old(ctx).accounts,
//@body
} // verus!
