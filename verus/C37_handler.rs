//@include inc/model_base_u128.rs
//@include inc/glue_u128.rs
// =================================================================================================
// C37 (payout handler)  programs/treasury/src/instructions/gt_bank.rs :: CompleteGtExchange::execute
//                       programs/treasury/src/states/gt_bank.rs       :: GtBank::{record_transferred_out, record_claimed,
//                                                                         remaining_confirmed_gt_amount}
//      The per-token account plumbing in the middle of the loop (token program selection, ATA validation, target authority,
//      mint decoding, CpiContext, transfer_checked) is ONE assumed call that either fails or moves exactly `amount` of that token
//      (one ghost-ledger entry). Everything around it - the payout formula, the loop over the bank's tokens, the two records - is
//      the repository's text.
// =================================================================================================
verus! {
#[derive(Clone, Copy)]
pub struct Pubkey { pub hi: u128, pub lo: u128 }
//@struct programs/treasury/src/states/gt_bank.rs :: pub struct TokenBalance :: amount, receiver_vault_out, reserved
pub struct TokenBalance { pub amount: u64 }
/// the bank's balances map (a `fixed_map!`: C34): token -> amount; `tokens()` lists its keys, each once
#[verifier::external_body] pub struct TokenBalancesMap { _p: u8 }
impl TokenBalancesMap {
    pub uninterp spec fn amount_of(&self, t: Pubkey) -> Option<u64>;
    /// ASSUMED (C34): get_mut returns the entry of exactly that key; nothing else changes
    #[verifier::external_body]
    pub fn get_mut(&mut self, token: &Pubkey) -> (r: Option<&mut TokenBalance>)
        ensures r.is_some() == old(self).amount_of(*token).is_some(),
            r.is_some() ==> r.unwrap().amount == old(self).amount_of(*token).unwrap() && final(self).amount_of(*token) == Some(final(r.unwrap()).amount)
                && (forall|t: Pubkey| t != *token ==> final(self).amount_of(t) == old(self).amount_of(t)),
            r.is_none() ==> *final(self) == *old(self),
    { unimplemented!() }
    #[verifier::external_body]
    pub fn get_amount(&self, token: &Pubkey) -> (r: Option<u64>) ensures r == self.amount_of(*token) { unimplemented!() }
}
/// `t` is one of the keys `GtBank::tokens()` lists (every key of the balances map, C34)
pub uninterp spec fn listed(b: GtBank, t: Pubkey) -> bool;
//@struct programs/treasury/src/states/gt_bank.rs :: pub struct GtBank :: version, bump, flags, padding, treasury_vault_config, gt_exchange_vault, remaining_confirmed_gt_amount, reserved, balances
pub struct GtBank { pub remaining_confirmed_gt_amount: u64, pub balances: TokenBalancesMap }
pub struct Signer { pub tag: u64 }
impl GtBank {
    /// `self.balances.get(token).map(|b| b.amount)`
    pub fn get_balance(&self, token: &Pubkey) -> (r: Option<u64>) ensures r == self.balances.amount_of(*token) { self.balances.get_amount(token) }
    #[verifier::external_body] pub fn signer(&self) -> (r: Signer) { unimplemented!() }
    /// ASSUMED (C34): the keys of the map, each exactly once
    #[verifier::external_body]
    pub fn tokens_vec(&self) -> (r: Vec<Pubkey>)
        ensures forall|i: int| 0 <= i < r.len() ==> self.balances.amount_of(r@[i]).is_some(),
            forall|i: int, j: int| 0 <= i < j < r.len() ==> r@[i] != r@[j],
            forall|t: Pubkey| listed(*self, t) ==> exists|i: int| 0 <= i < r.len() && r@[i] == t,
            forall|i: int| 0 <= i < r.len() ==> listed(*self, #[trigger] r@[i]),
    { unimplemented!() }
    #[verifier::external_body] pub fn num_tokens(&self) -> (r: usize) { unimplemented!() }

//@unit C37.GtBank.get_balance_mut
//@ file programs/treasury/src/states/gt_bank.rs
//@ within impl GtBank
//@ fn get_balance_mut
//@ sig fn get_balance_mut(&mut self, token: &Pubkey) -> Result<&mut TokenBalance>
    fn get_balance_mut(&mut self, token: &Pubkey) -> (r: Result<&mut TokenBalance, E>)
        ensures r.is_ok() == old(self).balances.amount_of(*token).is_some(),
            r.is_ok() ==> r.unwrap().amount == old(self).balances.amount_of(*token).unwrap() && final(self).balances.amount_of(*token) == Some(final(r.unwrap()).amount)
                && (forall|t: Pubkey| t != *token ==> final(self).balances.amount_of(t) == old(self).balances.amount_of(t))
                && final(self).remaining_confirmed_gt_amount == old(self).remaining_confirmed_gt_amount,
            r.is_err() ==> *final(self) == *old(self),
//@body

//@unit C37.GtBank.record_transferred_out
//@ file programs/treasury/src/states/gt_bank.rs
//@ within impl GtBank
//@ fn record_transferred_out
//@ sig fn record_transferred_out(&mut self, token: &Pubkey, amount: u64) -> Result<()>
    pub fn record_transferred_out(&mut self, token: &Pubkey, amount: u64) -> (r: Result<(), E>)
        ensures
            // exactly that token's recorded balance shrinks by exactly the amount; it can never go below zero
            r.is_ok() && amount != 0 ==> old(self).balances.amount_of(*token).is_some() && old(self).balances.amount_of(*token).unwrap() >= amount
                && final(self).balances.amount_of(*token) == Some((old(self).balances.amount_of(*token).unwrap() - amount) as u64),
            r.is_ok() && amount == 0 ==> final(self).balances.amount_of(*token) == old(self).balances.amount_of(*token),
            r.is_ok() ==> (forall|t: Pubkey| t != *token ==> final(self).balances.amount_of(t) == old(self).balances.amount_of(t))
                && final(self).remaining_confirmed_gt_amount == old(self).remaining_confirmed_gt_amount,
//@body

//@unit C37.handler.GtBank.record_claimed
//@ file programs/treasury/src/states/gt_bank.rs
//@ within impl GtBank
//@ fn record_claimed
//@ sig fn record_claimed(&mut self, gt_amount: u64) -> Result<()>
    pub fn record_claimed(&mut self, gt_amount: u64) -> (r: Result<(), E>)
        ensures r.is_ok() <==> gt_amount <= old(self).remaining_confirmed_gt_amount,
            r.is_ok() ==> final(self).remaining_confirmed_gt_amount == old(self).remaining_confirmed_gt_amount - gt_amount,
            forall|t: Pubkey| final(self).balances.amount_of(t) == old(self).balances.amount_of(t),
//@body

//@unit C37.handler.GtBank.remaining_confirmed_gt_amount
//@ file programs/treasury/src/states/gt_bank.rs
//@ within impl GtBank
//@ fn remaining_confirmed_gt_amount
//@ sig fn remaining_confirmed_gt_amount(&self) -> u64
    pub fn remaining_confirmed_gt_amount(&self) -> (r: u64) ensures r == self.remaining_confirmed_gt_amount
//@body
}

/// `<u64 as MulDiv>::checked_mul_div` (crates/model/src/num.rs, under contract in C01 at width u64): floor(b * n / d) if it fits
pub fn mul_div_u64(b: u64, n: u64, d: u64) -> (r: Option<u64>)
    ensures d == 0 ==> r.is_none(),
        d != 0 ==> (r.is_some() <==> mul_div_floor(b as int, n as int, d as int) <= u64::MAX) && (r.is_some() ==> r.unwrap() as int == mul_div_floor(b as int, n as int, d as int)),
{
    if d == 0 { return None; }
    proof { lemma_mul_upper_bound(b as int, u64::MAX as int, n as int, u64::MAX as int); lemma_mul_nonnegative(b as int, n as int); lemma_div_pos_bound((b as int) * (n as int), d as int); }
    let q: u128 = (b as u128) * (n as u128) / (d as u128);
    if q <= u64::MAX as u128 { Some(q as u64) } else { None }
}
pub proof fn lemma_payout_zero(n: int, d: int) requires d > 0 ensures mul_div_floor(0, n, d) == 0 { assert(0int * n == 0) by(nonlinear_arith); lemma_basic_div(0, d); }
/// one SPL transfer out of a bank vault
pub struct Transfer { pub token: Pubkey, pub amount: u64 }
/// the transfer is the pro-rata share of a token the bank lists
pub open spec fn is_payout_transfer(tr: Transfer, bank0: GtBank, gt: int, total: int) -> bool {
    listed(bank0, tr.token) && bank0.balances.amount_of(tr.token).is_some() && tr.amount as int == mul_div_floor(bank0.balances.amount_of(tr.token).unwrap() as int, gt, total)
}
pub struct Exchange { pub amount: u64 }
impl Exchange { pub fn amount(&self) -> (r: u64) ensures r == self.amount { self.amount } }
pub struct ConfigAcc { pub tag: u64 }
impl ConfigAcc { #[verifier::external_body] pub fn signer(&self) -> (r: Signer) { unimplemented!() } }
/// payout of one claim for one token: balance x gt_amount / remaining confirmed GT, rounded down
pub open spec fn payout(balance: int, gt_amount: int, remaining: int) -> int { mul_div_floor(balance, gt_amount, remaining) }

/// the accounts of CompleteGtExchange (loaders are projections; the context is taken by `&mut` because the handler writes through
/// `load_mut()`); `transfers` is the ghost ledger of SPL transfers
pub struct CompleteGtExchange { pub config: ConfigAcc, pub exchange: Exchange, pub gt_bank: GtBank, pub transfers: Ghost<Seq<Transfer>> }
impl CompleteGtExchange {
    /// ASSUMED: the CPI that closes the GT exchange (store program; C30 material): fails or succeeds, no state of this context
    #[verifier::external_body]
    fn close_gt_exchange_cpi(&self, signer: &Signer) -> (r: Result<(), E>) { unimplemented!() }
    /// ASSUMED: `remaining_accounts.len() >= 3 * len` and the three sub-slices (tokens, vaults, targets)
    #[verifier::external_body]
    fn check_remaining_accounts(&self, len: usize) -> (r: Result<(), E>) { unimplemented!() }
    /// ASSUMED (the account plumbing of one loop iteration + the SPL transfer_checked CPI): validates mint / vault / target of slot
    /// `idx` against `token` and either fails or moves exactly `amount` of that token from the bank's vault to the owner's account
    #[verifier::external_body]
    fn validate_accounts_and_transfer(&mut self, idx: usize, token: &Pubkey, amount: u64, bank_signer: &Signer) -> (r: Result<(), E>)
        ensures final(self).gt_bank == old(self).gt_bank, final(self).exchange == old(self).exchange,
            r.is_ok() ==> final(self).transfers@ == old(self).transfers@.push(Transfer { token: *token, amount }),
            r.is_err() ==> final(self).transfers@ == old(self).transfers@,
    { unimplemented!() }

//@unit C37.CompleteGtExchange.execute
//@ file programs/treasury/src/instructions/gt_bank.rs
//@ within impl<'info> CompleteGtExchange<'info>
//@ fn execute
//@ sig fn execute(&self, remaining_accounts: &'info [AccountInfo<'info>]) -> Result<()>
//@ subopt use gmsol_model::num::MulDiv; =>
//@ sub \.load\(\)\? =>
//@ sub \.load_mut\(\)\? =>
//@ sub (?s)let ctx = self\.close_gt_exchange_ctx\(\);\s*close_gt_exchange\(ctx\.with_signer\(&\[&signer\.as_seeds\(\)\]\)\)\?; => self.close_gt_exchange_cpi(&signer)?;
//@ sub let gt_bank_tokens = self\.gt_bank\.tokens\(\)\.collect::<Vec<_>>\(\); => let gt_bank_tokens = self.gt_bank.tokens_vec();
//@ sub (?s)let total_len = len\.checked_mul\(3\).*?let targets = &remaining_accounts\[\(2 \* len\)\.\.total_len\]; => self.check_remaining_accounts(len)?;
//@ sub let gt_bank_address = self\.gt_bank\.key\(\); =>
//@ sub let owner_address = self\.owner\.key\(\); =>
//@ sub for \(idx, token\) in gt_bank_tokens\.iter\(\)\.enumerate\(\) \{ => let mut idx: usize = 0; while idx < gt_bank_tokens.len() { let token = &gt_bank_tokens[idx]; idx += 1;
//@ sub \.get_balance\(token\)\.expect\("must exist"\) => .get_balance(token).unwrap()
//@ subopt (?s)let amount = balance\s*\.checked_mul_div\(&gt_amount, &total_gt_amount\) => let amount = mul_div_u64(balance, gt_amount, total_gt_amount)
//@ sub (?s)let mint = &tokens\[idx\];.*?transfer_checked\(\s*ctx\.with_signer\(&\[&gt_bank_signer\.as_seeds\(\)\]\),\s*amount,\s*decimals,\s*\)\?; => self.validate_accounts_and_transfer(idx - 1, token, amount, &gt_bank_signer)?;
//@ before self.gt_bank.record_claimed(gt_amount)?; :: let ghost bank1 = self.gt_bank; let ghost tr1 = self.transfers@;
//@ after self.gt_bank.record_claimed(gt_amount)?; :: proof { let gt = gt_amount as int; let total = total_gt_amount as int; assert forall|t: Pubkey| listed(old(self).gt_bank, t) && old(self).gt_bank.balances.amount_of(t).is_some() implies #[trigger] self.gt_bank.balances.amount_of(t) == Some((old(self).gt_bank.balances.amount_of(t).unwrap() - payout(old(self).gt_bank.balances.amount_of(t).unwrap() as int, gt, total)) as u64) by { let i = choose|i: int| 0 <= i < gt_bank_tokens.len() && gt_bank_tokens@[i] == t; assert(bank1.balances.amount_of(gt_bank_tokens@[i]) == self.gt_bank.balances.amount_of(t)); } }
//@ before continue; :: proof { lemma_payout_zero(gt_amount as int, total_gt_amount as int); }
//@ loop 1: invariant idx <= gt_bank_tokens.len(), gt_amount != 0, gt_amount <= total_gt_amount, total_gt_amount == old(self).gt_bank.remaining_confirmed_gt_amount, self.gt_bank.remaining_confirmed_gt_amount == old(self).gt_bank.remaining_confirmed_gt_amount, self.exchange == old(self).exchange, forall|i: int| 0 <= i < gt_bank_tokens.len() ==> old(self).gt_bank.balances.amount_of(gt_bank_tokens@[i]).is_some(), forall|i: int, j: int| 0 <= i < j < gt_bank_tokens.len() ==> gt_bank_tokens@[i] != gt_bank_tokens@[j], forall|i: int| 0 <= i < idx ==> #[trigger] self.gt_bank.balances.amount_of(gt_bank_tokens@[i]) == Some((old(self).gt_bank.balances.amount_of(gt_bank_tokens@[i]).unwrap() - payout(old(self).gt_bank.balances.amount_of(gt_bank_tokens@[i]).unwrap() as int, gt_amount as int, total_gt_amount as int)) as u64), forall|i: int| idx <= i < gt_bank_tokens.len() ==> #[trigger] self.gt_bank.balances.amount_of(gt_bank_tokens@[i]) == old(self).gt_bank.balances.amount_of(gt_bank_tokens@[i]), old(self).transfers@.len() <= self.transfers@.len() <= old(self).transfers@.len() + idx, forall|t: Pubkey| listed(old(self).gt_bank, t) ==> exists|i: int| 0 <= i < gt_bank_tokens.len() && gt_bank_tokens@[i] == t, forall|i: int| 0 <= i < gt_bank_tokens.len() ==> listed(old(self).gt_bank, #[trigger] gt_bank_tokens@[i]), forall|k: int| old(self).transfers@.len() <= k < self.transfers@.len() ==> is_payout_transfer(#[trigger] self.transfers@[k], old(self).gt_bank, gt_amount as int, total_gt_amount as int), forall|k: int| 0 <= k < old(self).transfers@.len() ==> self.transfers@[k] == old(self).transfers@[k], decreases gt_bank_tokens.len() - idx,
    fn execute(&mut self) -> (r: Result<(), E>)
        ensures
            // a zero claim moves nothing
            r.is_ok() && old(self).exchange.amount == 0 ==> final(self).transfers@ == old(self).transfers@ && final(self).gt_bank == old(self).gt_bank,
            // otherwise: the claim does not exceed the remaining confirmed GT, which shrinks by exactly the claim; and for EVERY token of
            // the bank the recorded balance shrinks by exactly its pro-rata share, rounded down: balance x claim / remaining
            r.is_ok() && old(self).exchange.amount != 0 ==> ({
                let gt = old(self).exchange.amount as int; let total = old(self).gt_bank.remaining_confirmed_gt_amount as int;
                &&& gt <= total && final(self).gt_bank.remaining_confirmed_gt_amount == total - gt
                &&& forall|t: Pubkey| #![trigger final(self).gt_bank.balances.amount_of(t)] old(self).gt_bank.balances.amount_of(t).is_some() && listed(old(self).gt_bank, t)
                        ==> final(self).gt_bank.balances.amount_of(t) == Some((old(self).gt_bank.balances.amount_of(t).unwrap() - payout(old(self).gt_bank.balances.amount_of(t).unwrap() as int, gt, total)) as u64)
                // every SPL transfer made is the pro-rata share of a listed token
                &&& forall|k: int| old(self).transfers@.len() <= k < final(self).transfers@.len() ==> is_payout_transfer(#[trigger] final(self).transfers@[k], old(self).gt_bank, gt, total)
            }),
//@body
}
} // verus!
