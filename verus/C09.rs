//@include inc/model_base_u128.rs
//@include inc/price.rs
//@include inc/perp_tracked.rs
//@include inc/increase_position.rs
//@include inc/decrease_position.rs
// =================================================================================================
// C09  Positions are left healthy, and only unhealthy ones can be liquidated   (model side)
//      crates/model/src/position.rs :: check_collateral, PositionExt::{check_liquidatable, validate, collateral_value, collateral_price}
//      crates/model/src/action/increase_position.rs     :: IncreasePosition::execute (whole body; callees that only prepare state are havoc)
//      crates/model/src/action/decrease_position/mod.rs :: DecreasePosition::{check_liquidation, execute (up to on_decreased)}
//      "liquidatable" is DEFINED here by `liq_spec`, written from the statement: remaining collateral value (collateral + pnl +
//      capped negative impact - costs) not positive, below the minimum collateral value (when that is checked), or below
//      size x the minimum collateral factor (the liquidation factor for liquidations).
// =================================================================================================
verus! {
//@struct crates/model/src/position.rs :: pub enum LiquidatableReason ::
#[derive(Clone, Copy)]
pub enum LiquidatableReason { MinCollateral, NotPositive, MinCollateralForLeverage }
//@struct crates/model/src/position.rs :: enum CheckCollateralResult ::
pub enum CheckCollateralResult { Sufficient, Zero, Negative, MinCollateralForLeverage, MinCollateral }

/// the verdict on a remaining collateral value, from the statement
pub open spec fn verdict(size: int, factor: int, min_value: Option<int>, allow_zero: bool, value: int) -> CheckCollateralResult {
    if value < 0 { if min_value.is_some() { CheckCollateralResult::MinCollateral } else { CheckCollateralResult::Negative } }
    else if min_value.is_some() && value < min_value.unwrap() { CheckCollateralResult::MinCollateral }
    else if !allow_zero && value == 0 { CheckCollateralResult::Zero }
    else if value < mul_div_floor(size, factor, uunit()) { CheckCollateralResult::MinCollateralForLeverage }
    else { CheckCollateralResult::Sufficient }
}

//@unit C09.check_collateral
//@ file crates/model/src/position.rs
//@ fn check_collateral
//@ sig fn check_collateral<T, const DECIMALS: u8>( size_in_usd: &T, min_collateral_factor: &T, min_collateral_value: Option<&T>, allow_zero_collateral: bool, collateral_value: &T::Signed, ) -> crate::Result<CheckCollateralResult>
//@ sub crate::utils::apply_factor\( => apply_factor(
fn check_collateral(size_in_usd: &N, min_collateral_factor: &N, min_collateral_value: Option<&N>, allow_zero_collateral: bool, collateral_value: &S) -> (r: Result<CheckCollateralResult, E>)
    ensures
        r.is_ok() ==> r.unwrap() == verdict(size_in_usd@, min_collateral_factor@, match min_collateral_value { Some(v) => Some(v@), None => None }, allow_zero_collateral, collateral_value@),
//@body

/// the reads check_liquidatable makes, as deterministic (uninterpreted) functions of the position, its market and the prices
pub uninterp spec fn pnl_of(p: Pos, prices: Prices) -> int;
pub uninterp spec fn impact_of(p: Pos) -> (int, BalanceChange);
pub uninterp spec fn capped_impact_of(m: PMarket, size_delta_usd: int, for_liquidations: bool, impact: int) -> int;
pub uninterp spec fn params_of(m: PMarket) -> PositionParams;

/// remaining collateral value of a position at the given prices: collateral (at the min price) + pnl of the whole size
/// + the negative part of the capped price impact of closing it - fees (at the min collateral price)
pub open spec fn remaining_of(p: Pos, prices: Prices) -> int {
    let cp = collateral_price_of(p, prices);
    let (impact, bc) = impact_of(p);
    let capped = if impact < 0 { capped_impact_of(p.mkt, -p.size_in_usd@, true, impact) } else { 0 };
    let fees = fees_of_position(p, cp, p.size_in_usd@, bc, false);
    p.collateral_amount@ * cp.min@ + pnl_of(p, prices) + capped - total_cost_of(fees) * cp.min@
}
/// THE DEFINITION: is the position liquidatable at these prices (and why)
pub open spec fn liq_spec(p: Pos, prices: Prices, validate_min_collateral: bool, for_liquidation: bool) -> Option<LiquidatableReason> {
    let params = params_of(p.mkt);
    let factor = if for_liquidation { factor_for_liquidation(params)@ } else { params.min_collateral_factor@ };
    match verdict(p.size_in_usd@, factor, if validate_min_collateral { Some(params.min_collateral_value@) } else { None }, false, remaining_of(p, prices)) {
        CheckCollateralResult::Sufficient => None,
        CheckCollateralResult::Zero => Some(LiquidatableReason::NotPositive),
        CheckCollateralResult::Negative => Some(LiquidatableReason::NotPositive),
        CheckCollateralResult::MinCollateralForLeverage => Some(LiquidatableReason::MinCollateralForLeverage),
        CheckCollateralResult::MinCollateral => Some(LiquidatableReason::MinCollateral),
    }
}

impl PMarket {
    #[verifier::external_body]
    pub fn position_params(&self) -> (r: Result<PositionParams, E>) ensures r.is_ok() ==> r.unwrap() == params_of(*self) { unimplemented!() }
    /// ASSUMED (C10 material): caps a negative impact; deterministic
    #[verifier::external_body]
    pub fn cap_negative_position_price_impact(&self, size_delta_usd: &S, for_liquidations: bool, impact: &mut S) -> (r: Result<N, E>)
        ensures r.is_ok() ==> final(impact)@ == capped_impact_of(*self, size_delta_usd@, for_liquidations, old(impact)@)
    { unimplemented!() }
}

impl Pos {
    /// ASSUMED (proved in C11): deterministic pnl of the given size at the given prices
    #[verifier::external_body]
    pub fn pnl_value(&self, prices: &Prices, size_delta_usd: &N) -> (r: Result<(S, S, N), E>)
        ensures r.is_ok() && size_delta_usd@ == self.size_in_usd@ ==> r.unwrap().0@ == pnl_of(*self, *prices)
    { unimplemented!() }
    /// ASSUMED (C03 / C10 material): deterministic price impact of closing `size_delta_usd`
    #[verifier::external_body]
    pub fn position_price_impact(&self, size_delta_usd: &S, include_virtual_inventory_impact: bool) -> (r: Result<PriceImpact, E>)
        ensures r.is_ok() && size_delta_usd@ == -self.size_in_usd@ && include_virtual_inventory_impact ==> (r.unwrap().value@, r.unwrap().balance_change) == impact_of(*self)
    { unimplemented!() }
    /// ASSUMED: validation hook of the position implementation, read-only
    #[verifier::external_body]
    pub fn on_validate(&self) -> (r: Result<(), E>) { unimplemented!() }

//@unit C09.PositionExt.collateral_value
//@ file crates/model/src/position.rs
//@ within pub trait PositionExt<const DECIMALS: u8>: Position<DECIMALS>
//@ fn collateral_value
//@ sig fn collateral_value(&self, prices: &Prices<Self::Num>) -> crate::Result<Self::Num>
//@ sub use num_traits::CheckedMul; =>
    pub fn collateral_value(&self, prices: &Prices) -> (r: Result<N, E>)
        ensures r.is_ok() ==> r.unwrap()@ == self.collateral_amount@ * collateral_price_of(*self, *prices).min@
//@body

//@unit C09.PositionExt.check_liquidatable
//@ file crates/model/src/position.rs
//@ within pub trait PositionExt<const DECIMALS: u8>: Position<DECIMALS>
//@ fn check_liquidatable
//@ sig fn check_liquidatable( &self, prices: &Prices<Self::Num>, should_validate_min_collateral_usd: bool, for_liquidation: bool, ) -> crate::Result<Option<LiquidatableReason>>
//@ sub use num_traits::\{CheckedAdd, CheckedMul, CheckedSub\}; =>
//@ sub should_validate_min_collateral_usd\.then\(\|\| params\.min_collateral_value\(\)\) => (if should_validate_min_collateral_usd { Some(params.min_collateral_value()) } else { None })
//@ sub (?s)\.and_then\(\|v\| \{\s*v\.checked_add\(&price_impact_value\)\?\s*\.checked_sub\(&collateral_cost_value\.to_signed\(\)\.ok\(\)\?\)\s*\}\) => .and_then(|v: S| -> (o: Option<S>) ensures o.is_some() ==> collateral_cost_value@ <= imax() && o.unwrap()@ == v@ + price_impact_value@ - collateral_cost_value@ { v.checked_add(&price_impact_value)?.checked_sub(&collateral_cost_value.to_signed().ok()?) })
    pub fn check_liquidatable(&self, prices: &Prices, should_validate_min_collateral_usd: bool, for_liquidation: bool) -> (r: Result<Option<LiquidatableReason>, E>)
        ensures
            // the answer is exactly the definition
            r.is_ok() ==> r.unwrap() == liq_spec(*self, *prices, should_validate_min_collateral_usd, for_liquidation),
//@body

//@unit C09.PositionExt.validate
//@ file crates/model/src/position.rs
//@ within pub trait PositionExt<const DECIMALS: u8>: Position<DECIMALS>
//@ fn validate
//@ sig fn validate( &self, prices: &Prices<Self::Num>, should_validate_min_position_size: bool, should_validate_min_collateral_usd: bool, ) -> crate::Result<()>
    pub fn validate(&self, prices: &Prices, should_validate_min_position_size: bool, should_validate_min_collateral_usd: bool) -> (r: Result<(), E>)
        ensures
            // a position that passes is non-empty, large enough (when asked) and NOT liquidatable at these prices
            r.is_ok() ==> self.size_in_usd@ != 0 && self.size_in_tokens@ != 0
                && (should_validate_min_position_size ==> self.size_in_usd@ >= params_of(self.mkt).min_position_size_usd@)
                && liq_spec(*self, *prices, should_validate_min_collateral_usd, false).is_none(),
//@body
}

impl IncreasePosition {
    /// ASSUMED here, proved in C07: these prepare / move state and keep the parameters (their effect on the position is irrelevant
    /// for this property: the validation runs on whatever state they leave)
    #[verifier::external_body]
    fn get_execution_params(&self) -> (r: Result<ExecutionParamsWithPriceImpact, E>) { unimplemented!() }
    #[verifier::external_body]
    fn initialize_position_if_empty(&mut self) -> (r: Result<(), E>) ensures final(self).params == old(self).params { unimplemented!() }
    #[verifier::external_body]
    fn process_collateral(&mut self, price_impact: &PriceImpact) -> (r: Result<(S, PositionFees), E>) ensures final(self).params == old(self).params { unimplemented!() }
    #[verifier::external_body]
    fn collateral_price(&self) -> (r: &Price) { unimplemented!() }

//@unit C09.IncreasePosition.execute
//@ file crates/model/src/action/increase_position.rs
//@ within impl<const DECIMALS: u8, P: PositionMut<DECIMALS>> MarketAction for IncreasePosition<P, DECIMALS>
//@ fn execute
//@ sig fn execute(mut self) -> crate::Result<Self::Report>
//@ sub \.ok_or\(\{\s*if is_collateral_delta_positive \{\s*E::Computation\s*\} else \{\s*E::InvalidArgument\s*\}\s*\}\) => .ok_or(if is_collateral_delta_positive { E::Computation } else { E::InvalidArgument })
//@ loop 1: invariant _k21 <= 2, self.params == old(self).params, decreases 2 - _k21,
    fn execute(&mut self) -> (r: Result<IncreasePositionReport, E>)
        ensures
            // a successful increase leaves a position that is NOT liquidatable at the execution prices (minimum collateral value
            // included) and at least of the minimum size
            r.is_ok() ==> liq_spec(final(self).position, old(self).params.prices, true, false).is_none()
                && final(self).position.size_in_usd@ >= params_of(final(self).position.mkt).min_position_size_usd@,
//@body
}

impl DecreasePosition {
//@unit C09.DecreasePosition.check_liquidation
//@ file crates/model/src/action/decrease_position/mod.rs
//@ within impl<const DECIMALS: u8, P: PositionMut<DECIMALS>> DecreasePosition<P, DECIMALS>
//@ fn check_liquidation
//@ sig fn check_liquidation(&self) -> crate::Result<()>
    fn check_liquidation(&self) -> (r: Result<(), E>)
        ensures
            // a liquidation order passes only for a position that is liquidatable under the liquidation thresholds
            r.is_ok() && self.params.flags.is_liquidation_order ==> liq_spec(self.position, self.params.prices, true, true).is_some(),
//@body

//@unit C09.DecreasePosition.execute
//@ file crates/model/src/action/decrease_position/mod.rs
//@ within impl<const DECIMALS: u8, P: PositionMut<DECIMALS>> MarketAction for DecreasePosition<P, DECIMALS>
//@ fn execute
//@ sig fn execute(mut self) -> crate::Result<Self::Report>
//@ sub (?s)assert\(\s*self\.size_delta_usd <= \*self\.position\.size_in_usd_mut\(\)\s*\); => assert(self.size_delta_usd@ <= self.position.size_in_usd@);
//@ sub (?s)assert\(\s*self\.withdrawable_collateral_amount <= \*self\.position\.collateral_amount_mut\(\)\s*\); => assert(self.withdrawable_collateral_amount@ <= self.position.collateral_amount@);
//@ cut_after self.position.on_decreased()?; :: Ok(DecreaseOutcome { should_remove, size_delta_usd: self.size_delta_usd, execution })
//@ loop 1: invariant _k21 <= 2, self.params == prm1, self.size_delta_usd == sdu1, self.position.mkt == mkt1, self.position.size_in_usd == usd1, self.position.size_in_tokens == tok1, self.position.collateral_amount == col1, self.position.long == old(self).position.long, self.position.collateral_long == old(self).position.collateral_long, decreases 2 - _k21,
//@ before let _arr21 = [true, false]; :: let ghost mkt1 = self.position.mkt; let ghost usd1 = self.position.size_in_usd; let ghost tok1 = self.position.size_in_tokens; let ghost col1 = self.position.collateral_amount; let ghost sdu1 = self.size_delta_usd; let ghost prm1 = self.params;
    fn execute(&mut self) -> (r: Result<DecreaseOutcome, E>)
        requires pos_wf(old(self).position),
            old(self).size_delta_usd@ <= old(self).position.size_in_usd@,
            old(self).withdrawable_collateral_amount@ <= old(self).position.collateral_amount@,
        ensures
            // a decrease that leaves the position open leaves it NOT liquidatable at the execution prices
            r.is_ok() && !r.unwrap().should_remove ==> liq_spec(final(self).position, old(self).params.prices, false, false).is_none(),
            // a liquidation succeeds only for a position that was liquidatable under the liquidation thresholds ...
            r.is_ok() && old(self).params.flags.is_liquidation_order ==> liq_spec(old(self).position, old(self).params.prices, true, true).is_some(),
            // ... and an order for the whole size (the only size the store accepts for a liquidation) closes the whole position
            r.is_ok() && old(self).size_delta_usd@ == old(self).position.size_in_usd@ ==> r.unwrap().should_remove
                && final(self).position.size_in_usd@ == 0 && final(self).position.size_in_tokens@ == 0 && final(self).position.collateral_amount@ == 0,
//@body
}
} // verus!
