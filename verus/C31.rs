//@include inc/model_base_u128.rs
//@include inc/glue_u128.rs
// =================================================================================================
// C31  Order fee discounts are valid fractions combining rank and referral (program side)
// =================================================================================================
//@const programs/store/src/constants/mod.rs :: MARKET_USD_UNIT :: u128 = 10u128.pow(MARKET_DECIMALS as u32)
//@const programs/store/src/constants/mod.rs :: MARKET_DECIMALS :: u8 = Decimal::MAX_DECIMALS
//@const crates/utils/src/price/decimal.rs :: MAX_DECIMALS :: u8 = 20
//@const programs/store/src/states/gt.rs :: MAX_RANK :: usize = 15
verus! {

// Carriers: only the fields the two functions read. `Store::gt()` and
// `Store::get_factor_by_key(FactorKey::OrderFeeDiscountForReferredUser)` are field reads (trusted glue).
pub struct GtState { pub max_rank: u64, pub order_fee_discount_factors: [u128; 16] }
pub struct Store { pub gt_state: GtState, pub referred: Option<u128> }
pub enum FactorKey { OrderFeeDiscountForReferredUser }

impl Store {
    pub fn gt(&self) -> (r: &GtState) ensures *r == self.gt_state { &self.gt_state }
    pub fn get_factor_by_key(&self, key: FactorKey) -> (r: Option<&u128>)
        ensures r.is_some() == self.referred.is_some(), r.is_some() ==> *r.unwrap() == self.referred.unwrap()
    { match &self.referred { Some(x) => Some(x), None => None } }
}

/// wf(GtState): what `GtState::init` establishes (max_rank = min(len, MAX_RANK)).
pub open spec fn gt_wf(g: GtState) -> bool { g.max_rank <= 15 }
/// what `set_order_fee_discount_factors` enforces on every stored factor
pub open spec fn factors_valid(g: GtState) -> bool { forall|i: int| 0 <= i < 16 ==> (#[trigger] g.order_fee_discount_factors[i]) <= uunit() }

/// 1 - (1-A)(1-B), as the program computes it:  B + floor(A*(U-B)/U)
pub open spec fn combined(a: int, b: int) -> int { b + mul_div_floor(a, uunit() - b, uunit()) }

impl GtState {
//@unit C31.GtState.order_fee_discount_factor
//@ file programs/store/src/states/gt.rs
//@ within impl GtState
//@ fn order_fee_discount_factor
//@ sig fn order_fee_discount_factor(&self, rank: u8) -> Result<u128>
    pub fn order_fee_discount_factor(&self, rank: u8) -> (r: Result<u128, E>)
        requires gt_wf(*self)
        ensures
            // ranks above the configured maximum are rejected
            rank as int > self.max_rank ==> r.is_err(),
            rank as int <= self.max_rank ==> r.is_ok() && r.unwrap() == self.order_fee_discount_factors[rank as int],
//@body

    /// glue for `let target = &mut self.order_fee_discount_factors[0..factors.len()]; target.copy_from_slice(factors);`
    /// (array range slicing + copy_from_slice have no vstd specification): the prefix is overwritten, the rest kept; the panic
    /// condition of the slicing (length beyond the array) is the precondition
    #[verifier::external_body]
    pub fn copy_discount_prefix(&mut self, factors: &[u128])
        requires factors.len() <= 16
        ensures final(self).max_rank == old(self).max_rank,
            forall|i: int| 0 <= i < factors.len() ==> (#[trigger] final(self).order_fee_discount_factors[i]) == factors@[i],
            forall|i: int| factors.len() <= i < 16 ==> (#[trigger] final(self).order_fee_discount_factors[i]) == old(self).order_fee_discount_factors[i],
    { unimplemented!() }

//@unit C31.GtState.set_order_fee_discount_factors
//@ file programs/store/src/states/gt.rs
//@ within impl GtState
//@ fn set_order_fee_discount_factors
//@ sig fn set_order_fee_discount_factors(&mut self, factors: &[u128]) -> Result<()>
//@ subopt if !\(factors\s*\.iter\(\)\s*\.all\(\|factor\| \*factor <= (?:constants::)?MARKET_USD_UNIT\)\) \{ => let mut _all23 = true; let mut _i23: usize = 0; while _i23 < factors.len() { if !(factors[_i23] <= MARKET_USD_UNIT) { _all23 = false; break; } _i23 += 1; } if !_all23 {
//@ loopopt 1: invariant_except_break _all23, invariant _i23 <= factors.len(), forall|j: int| 0 <= j < _i23 ==> factors@[j] <= uunit(), ensures _all23 ==> _i23 == factors.len(), !_all23 ==> _i23 < factors.len() && factors@[_i23 as int] > uunit(), forall|j: int| 0 <= j < _i23 ==> factors@[j] <= uunit(), decreases factors.len() - _i23,
//@ sub let target = &mut self\.order_fee_discount_factors\[0\.\.factors\.len\(\)\];\s*target\.copy_from_slice\(factors\); => self.copy_discount_prefix(factors);
    pub fn set_order_fee_discount_factors(&mut self, factors: &[u128]) -> (r: Result<(), E>)
        requires gt_wf(*old(self)), factors_valid(*old(self)),
        ensures
            // RULE R23 (logged): `factors.iter().all(|f| P(f))` visits the slice front to back and stops at the first `false`.
            // accepted exactly when there is one factor per rank 0..=max_rank and EVERY factor is at most 100%
            r.is_ok() == (factors.len() == old(self).max_rank + 1 && forall|j: int| 0 <= j < factors.len() ==> factors@[j] <= uunit()),
            // the table then holds them, and every stored factor is still a valid fraction
            r.is_ok() ==> (forall|i: int| 0 <= i < factors.len() ==> final(self).order_fee_discount_factors[i] == factors@[i]) && factors_valid(*final(self)) && final(self).max_rank == old(self).max_rank,
            r.is_err() ==> *final(self) == *old(self),
//@body
}

impl Store {
//@unit C31.Store.order_fee_discount_factor
//@ file programs/store/src/states/store.rs
//@ within impl Store
//@ fn order_fee_discount_factor
//@ sig fn order_fee_discount_factor(&self, rank: u8, is_referred: bool) -> Result<u128>
//@ sub use gmsol_model::utils::apply_factor; => 
//@ top :: proof { if rank as int <= self.gt_state.max_rank && self.referred.is_some() && self.referred.unwrap() <= uunit() { lemma_combined_bounds(self.gt_state.order_fee_discount_factors[rank as int] as int, self.referred.unwrap() as int); lemma_apply_le(self.gt_state.order_fee_discount_factors[rank as int] as int, uunit() - self.referred.unwrap() as int); } }
//@ sub \.and_then\(\|factor\| discount_factor_for_referred\.checked_add\(factor\)\) => .and_then(|factor: u128| -> (o: Option<u128>) ensures (*discount_factor_for_referred + factor <= u128::MAX ==> o == Some((*discount_factor_for_referred + factor) as u128)), (*discount_factor_for_referred + factor > u128::MAX ==> o.is_none()) { discount_factor_for_referred.checked_add(factor) })
//@ before assert(discount_factor <= MARKET_USD_UNIT); :: proof { lemma_combined_bounds(discount_factor_for_rank as int, *discount_factor_for_referred as int); }
    pub fn order_fee_discount_factor(&self, rank: u8, is_referred: bool) -> (r: Result<u128, E>)
        requires gt_wf(self.gt_state), factors_valid(self.gt_state),
        ensures
            rank as int > self.gt_state.max_rank ==> r.is_err(),
            // unreferred: the rank discount
            (rank as int <= self.gt_state.max_rank && !is_referred) ==> r.is_ok() && r.unwrap() == self.gt_state.order_fee_discount_factors[rank as int],
            // referred with a valid referral discount B <= 100%: succeeds with B + floor(A(U-B)/U)
            (rank as int <= self.gt_state.max_rank && is_referred && self.referred.is_some() && self.referred.unwrap() <= uunit())
                ==> r.is_ok() && r.unwrap() == combined(self.gt_state.order_fee_discount_factors[rank as int] as int, self.referred.unwrap() as int),
            // referral discount above 100% (not prevented by any setter): the computation fails
            (is_referred && self.referred.is_some() && self.referred.unwrap() > uunit()) ==> r.is_err(),
            (is_referred && self.referred.is_none()) ==> r.is_err(),
            // "between 0% and 100%" on every success under the stated configuration
            (r.is_ok() && (is_referred ==> self.referred.is_some() && self.referred.unwrap() <= uunit())) ==> 0 <= r.unwrap() <= uunit(),
//@body
}

/// A, B in [0, U]:  max(A, B) <= combined(A,B) <= U, and combined is the exact value
/// U - (U-A)(U-B)/U rounded DOWN by less than one unit ("up to rounding").
pub proof fn lemma_combined_bounds(a: int, b: int)
    requires 0 <= a <= uunit(), 0 <= b <= uunit()
    ensures
        a <= combined(a, b) + 1,                 // at least the unreferred discount, up to one unit of rounding
        b <= combined(a, b) <= uunit(),
        // exact:  U*combined <= U*U - (U-A)(U-B) < U*(combined + 1)
        uunit() * combined(a, b) <= uunit() * uunit() - (uunit() - a) * (uunit() - b),
        uunit() * uunit() - (uunit() - a) * (uunit() - b) < uunit() * (combined(a, b) + 1),
{
    let u = uunit();
    let c = u - b;
    let q = (a * c) / u;
    lemma_mul_nonnegative(a, c);
    lemma_fundamental_div_mod(a * c, u);
    lemma_mod_bound(a * c, u);
    lemma_apply_le(a, c);
    // U*U - (U-A)(U-B) = U*B + A*(U-B)
    assert(u * u - (u - a) * (u - b) == u * b + a * c) by(nonlinear_arith) requires c == u - b;
    assert(u * (b + q) == u * b + u * q) by(nonlinear_arith);
    assert(u * (b + q + 1) == u * b + u * q + u) by(nonlinear_arith);
    // a <= combined + 1:  a*c/u >= a - ... : (a*c) >= a*u - a*b, so q >= a - ceil(a*b/u) >= a - b - ... use  q + b + 1 > a*(c)/u + b ...
    assert(a * c == a * u - a * b) by(nonlinear_arith) requires c == u - b;
    assert(a * b <= u * b) by(nonlinear_arith) requires 0 <= a <= u, 0 <= b;
    // u*q > a*c - u = a*u - a*b - u >= a*u - u*b - u  ==> q > a - b - 1
    assert(u * q > a * u - u * b - u);
    assert(q > a - b - 1) by(nonlinear_arith) requires u * q > a * u - u * b - u, u > 0;
}
pub proof fn lemma_apply_le(x: int, f: int)
    requires x >= 0, 0 <= f <= uunit()
    ensures 0 <= mul_div_floor(x, f, uunit()) <= x
{
    lemma_mul_inequality(f, uunit(), x);
    lemma_mul_is_commutative(x, f);
    lemma_mul_is_commutative(x, uunit());
    lemma_mul_nonnegative(x, f);
    lemma_div_is_ordered(x * f, x * uunit(), uunit());
    lemma_div_multiples_vanish(x, uunit());
    lemma_div_pos_bound(x * f, uunit());
}
} // verus!
