//@prelude u128
// =================================================================================================
// C32 (settlement)  programs/store/src/instructions/builder_fee.rs :: SettleBuilderFee::invoke   (whole handler)
//      Accounts are plain fields of a context taken by `&mut` (AccountLoader::load()? / load_mut()? are projections; a loader that
//      fails makes the instruction fail before anything moves). The SPL `transfer_checked` CPI is ONE ghost-ledger entry
//      (from escrow, to the claim vault, amount); the event CPI is an arbitrary fallible call.
// =================================================================================================
verus! {
#[derive(Clone, Copy)]
pub struct Pubkey { pub hi: u128, pub lo: u128 }
/// stands for `#[derive(PartialEq)]` on the 32-byte key (structural equality) - used by `require_keys_eq!`
pub fn keys_equal(a: &Pubkey, b: &Pubkey) -> (r: bool) ensures r == (*a == *b) { a.hi == b.hi && a.lo == b.lo }

/// the fields of `Order` the handler touches
pub struct Order { pub builder_fee_amount: u64, pub builder: Option<Pubkey>, pub rest: u64 }
pub struct ActionSigner { pub tag: u64 }
pub struct Seeds { pub tag: u64 }
impl ActionSigner { #[verifier::external_body] pub fn as_seeds(&self) -> (r: Seeds) { unimplemented!() } }
impl Order {
    pub fn builder_fee_amount(&self) -> (r: u64) ensures r == self.builder_fee_amount { self.builder_fee_amount }
    pub fn builder(&self) -> (r: Option<&Pubkey>) ensures r.is_some() == self.builder.is_some(), r.is_some() ==> *r.unwrap() == self.builder.unwrap()
    { match &self.builder { Some(k) => Some(k), None => None } }
    #[verifier::external_body] pub fn signer(&self) -> (r: ActionSigner) { unimplemented!() }
}
#[derive(Clone, Copy)]
pub struct AccountRef { pub key: Pubkey }
impl AccountRef { pub fn key(&self) -> (r: Pubkey) ensures r == self.key { self.key } }
pub struct TokenAccount { pub key: Pubkey, pub amount: u64 }
pub struct Mint { pub key: Pubkey, pub decimals: u8 }
/// one SPL token transfer performed by the instruction
pub struct Transfer { pub from: Pubkey, pub to: Pubkey, pub amount: u64 }
pub struct Accounts { pub order: Order, pub builder_user: Option<AccountRef>, pub claim_vault: Option<AccountRef>, pub escrow: TokenAccount, pub final_output_token: Mint, pub store: AccountRef, pub order_key: Pubkey }
pub struct Ctx { pub accounts: Accounts, pub transfers: Ghost<Seq<Transfer>> }
impl Ctx {
    /// ASSUMED (SPL token program): `transfer_checked(from escrow, to the claim vault, authority = the order PDA, amount, decimals)`
    /// either fails or moves exactly `amount`; recorded in the ghost ledger. The account data of this context is not changed by
    /// the carrier (the escrow balance read by this handler is read BEFORE the transfer).
    #[verifier::external_body]
    pub fn cpi_transfer_checked(&mut self, to: &AccountRef, amount: u64) -> (r: Result<(), E>)
        ensures final(self).accounts == old(self).accounts,
            r.is_ok() ==> final(self).transfers@ == old(self).transfers@.push(Transfer { from: old(self).accounts.escrow.key, to: to.key, amount }),
            r.is_err() ==> final(self).transfers@ == old(self).transfers@,
    { unimplemented!() }
    /// the `BuilderFeeSettled` event CPI: arbitrary failure, no state
    #[verifier::external_body]
    pub fn emit_builder_fee_settled(&self, builder: Pubkey, recorded_amount: u64, settled_amount: u64) -> (r: Result<(), E>) { unimplemented!() }
}

//@unit C32.SettleBuilderFee.invoke
//@ file programs/store/src/instructions/builder_fee.rs
//@ within impl SettleBuilderFee<'_>
//@ fn invoke
//@ sig fn invoke(ctx: Context<Self>) -> Result<()>
//@ sub let order = ctx\.accounts\.order\.load\(\)\?; => let order = &ctx.accounts.order;
//@ sub \.load\(\)\? =>
//@ sub \.load_mut\(\)\? =>
//@ sub \.as_ref\(\) =>
//@ subopt (?s)if !\(\(\*builder\) == \(builder_user\.key\(\)\)\) => if !keys_equal(builder, &builder_user.key())
//@ sub (?s)transfer_checked\(\s*CpiContext::new\(.*?\.with_signer\(&\[&seeds\]\),\s*settled_amount,\s*ctx\.accounts\.final_output_token\.decimals,\s*\)\?; => ctx.cpi_transfer_checked(&claim_vault, settled_amount)?;
//@ sub (?s)EventEmitter::new\(&ctx\.accounts\.event_authority, ctx\.bumps\.event_authority\)\.emit_cpi\(.*?\)\?,\s*\)\?; => ctx.emit_builder_fee_settled(builder_user.key(), recorded_amount, settled_amount)?;
pub fn invoke(ctx: &mut Ctx) -> (r: Result<(), E>)
    ensures
        // nothing recorded: an explicit no-op (no transfer, no state change)
        r.is_ok() && old(ctx).accounts.order.builder_fee_amount == 0 ==> final(ctx).transfers@ == old(ctx).transfers@ && final(ctx).accounts == old(ctx).accounts,
        // otherwise: exactly ONE transfer, from the escrow to the claim vault of the recorded builder, of the recorded amount clamped
        // by what the escrow holds; the record is zeroed, so that repeating the settlement is the no-op above
        r.is_ok() && old(ctx).accounts.order.builder_fee_amount != 0 ==> ({
            let a = old(ctx).accounts;
            let settled = if a.order.builder_fee_amount <= a.escrow.amount { a.order.builder_fee_amount } else { a.escrow.amount };
            &&& a.builder_user.is_some() && a.claim_vault.is_some() && a.order.builder == Some(a.builder_user.unwrap().key)
            &&& final(ctx).transfers@ == old(ctx).transfers@.push(Transfer { from: a.escrow.key, to: a.claim_vault.unwrap().key, amount: settled })
            &&& settled <= a.order.builder_fee_amount && settled <= a.escrow.amount
            &&& final(ctx).accounts.order.builder_fee_amount == 0
            &&& final(ctx).accounts == (Accounts { order: Order { builder_fee_amount: 0, ..a.order }, ..a })
        }),
        // at most one transfer in any case, and none unless the record was non-zero
        final(ctx).transfers@.len() <= old(ctx).transfers@.len() + 1,
//@body
} // verus!
