//@include C23.rs
// =================================================================================================
// C23 (the close handler)  programs/store/src/utils/internal/action.rs :: Close::close (trait-default method, whole body)
//      Handler technique: the context is a carrier passed by `&mut`; `validate` / `process` (required trait methods, one
//      implementation per action type: escrow refunds) are calls that leave a ghost record; the closed-event CPI and the closing of
//      the action account are ghost records too. `preprocess` is the unit proved in verus/C23.rs (called by contract).
//      Replaces the text anchor "close starts with validate, preprocess".
// =================================================================================================
verus! {
// ASSUMED std contract (vstd has none)
pub assume_specification<T, Er> [Result::<T, Er>::unwrap_or] (r: Result<T, Er>, default: T) -> (o: T)
    ensures o == (match r { Ok(v) => v, Err(_) => default });

pub struct Bumps { pub tag: u8 }
pub struct StoreLoader { pub address: Pubkey }
impl StoreLoader { pub fn key(&self) -> (r: Pubkey) ensures r == self.address { self.address } }
pub struct StoreWalletSigner { pub store: Pubkey, pub bump: u8 }
impl StoreWalletSigner { pub fn new(store: Pubkey, bump: u8) -> (r: Self) ensures r.store == store, r.bump == bump { StoreWalletSigner { store, bump } } }
pub struct AuthorityInfo { pub tag: u8 }
pub struct EventEmitter { pub tag: u8 }
impl EventEmitter { pub fn new(authority: &AuthorityInfo, bump: u8) -> (r: Self) { EventEmitter { tag: bump } } }
pub struct ClosedEvent { pub tag: u8 }
impl ActionLoader {
    #[verifier::external_body]
    pub fn key(&self) -> (r: Pubkey) { unimplemented!() }
}
impl ActionAccount {
    #[verifier::external_body]
    pub fn to_closed_event(&self, address: &Pubkey, reason: &str) -> (r: Result<ClosedEvent, E>) { unimplemented!() }
}
/// ghost record of what the handler did, in order
pub enum CloseStep { Processed { is_caller_owner: bool }, Emitted, Closed }
pub struct CloseAccounts { pub c: CloseCtx, pub store: StoreLoader, pub valid: bool, pub trace: Ghost<Seq<CloseStep>> }
/// what the action type's `process` (refunds / ATA checks) answers - uninterpreted
pub uninterp spec fn process_outcome(is_caller_owner: bool) -> Option<bool>;
impl CloseAccounts {
    pub fn validate(&self) -> (r: Result<(), E>) ensures r.is_ok() == self.valid { if self.valid { Ok(()) } else { Err(E::Other) } }
    /// the unit C23.Close.preprocess, by its contract
    pub fn preprocess(&self) -> (r: Result<bool, E>)
        ensures
            r.is_ok() && r.unwrap() ==> self.c.action.data.is_some() && *self.c.authority.key == self.c.action.data.unwrap().header.owner,
            r.is_ok() && !r.unwrap() ==> self.c.has_keeper_role && self.c.action.data.is_some()
                && *self.c.authority.key != self.c.action.data.unwrap().header.owner
                && (self.c.skip_check == Some(true) || self.c.action.data.unwrap().header.action_state == 1 || self.c.action.data.unwrap().header.action_state == 2),
    { self.c.preprocess() }
    pub fn store(&self) -> (r: &StoreLoader) ensures *r == self.store { &self.store }
    pub fn action(&self) -> (r: &ActionLoader) ensures *r == self.c.action { &self.c.action }
    #[verifier::external_body]
    pub fn store_wallet_bump(&self, bumps: &Bumps) -> (r: u8) { unimplemented!() }
    #[verifier::external_body]
    pub fn event_authority(&self, bumps: &Bumps) -> (r: (AuthorityInfo, u8)) { unimplemented!() }
    #[verifier::external_body]
    pub fn process(&mut self, is_caller_owner: bool, store_wallet_signer: &StoreWalletSigner, event_emitter: &EventEmitter) -> (r: Result<bool, E>)
        ensures final(self).c == old(self).c, final(self).valid == old(self).valid, final(self).store == old(self).store,
            r.is_ok() == process_outcome(is_caller_owner).is_some(), r.is_ok() ==> r.unwrap() == process_outcome(is_caller_owner).unwrap()
                && final(self).trace@ == old(self).trace@.push(CloseStep::Processed { is_caller_owner }),
    { unimplemented!() }
    #[verifier::external_body]
    pub fn emit_closed(&mut self, event_emitter: &EventEmitter, event: &ClosedEvent) -> (r: Result<(), E>)
        ensures final(self).c == old(self).c, final(self).valid == old(self).valid, final(self).store == old(self).store,
            r.is_ok() ==> final(self).trace@ == old(self).trace@.push(CloseStep::Emitted),
    { unimplemented!() }
    #[verifier::external_body]
    pub fn close_action_account(&mut self) -> (r: Result<(), E>)
        ensures final(self).c == old(self).c, final(self).valid == old(self).valid, final(self).store == old(self).store,
            r.is_ok() ==> final(self).trace@ == old(self).trace@.push(CloseStep::Closed),
    { unimplemented!() }
}
pub struct Ctx { pub accounts: CloseAccounts, pub bumps: Bumps }
/// who may close: the owner, or a keeper - and a keeper only a terminal (completed / cancelled) action unless the type opts out
pub open spec fn may_close(a: CloseAccounts, is_caller_owner: bool) -> bool {
    a.valid && a.c.action.data.is_some()
        && (if is_caller_owner { *a.c.authority.key == a.c.action.data.unwrap().header.owner }
            else { a.c.has_keeper_role && *a.c.authority.key != a.c.action.data.unwrap().header.owner
                && (a.c.skip_check == Some(true) || a.c.action.data.unwrap().header.action_state == 1 || a.c.action.data.unwrap().header.action_state == 2) })
}

//@unit C23.Close.close
//@ file programs/store/src/utils/internal/action.rs
//@ within pub(crate) trait Close<'info, A>: Authenticate<'info> where A: Action + ZeroCopy + Owner + Closable,
//@ fn close
//@ sig fn close(ctx: &Context<'_, '_, '_, 'info, Self>, reason: &str) -> Result<()>
//@ sub let accounts = &ctx\.accounts; => let accounts = &mut ctx.accounts;
//@ sub event_emitter\.emit_cpi\(&event\)\?; => accounts.emit_closed(&event_emitter, &event)?;
pub fn close(ctx: &mut Ctx, reason: &str) -> (r: Result<(), E>)
    ensures
        // nothing is refunded, emitted or closed unless the accounts validated AND the caller passed the close gate (preprocess):
        // the first thing that happens is `process`, with the gate's verdict on who is calling
        r.is_ok() ==> old(ctx).accounts.c.action.data.is_some() && ({
            let o = *old(ctx).accounts.c.authority.key == old(ctx).accounts.c.action.data.unwrap().header.owner;
            may_close(old(ctx).accounts, o) && process_outcome(o).is_some()
            && (if process_outcome(o).unwrap()
                // processed completely: the closed event, then the account is closed - once each, in this order
                { final(ctx).accounts.trace@ =~= old(ctx).accounts.trace@.push(CloseStep::Processed { is_caller_owner: o }).push(CloseStep::Emitted).push(CloseStep::Closed) }
                // not completely (some token account missing): the action account stays open, no event
                else { final(ctx).accounts.trace@ =~= old(ctx).accounts.trace@.push(CloseStep::Processed { is_caller_owner: o }) })
        }),
//@body
} // verus!
