//@include C05.rs
// =================================================================================================
// C06 (deposit and withdrawal legs)  The two actions themselves under contract
//      crates/model/src/action/deposit.rs :: Deposit::{execute, execute_deposit, charge_fees}, DepositParams accessors,
//                                            DepositParams::reassign_values, DepositReport::new
//      crates/model/src/market/swap.rs    :: SwapMarketMutExt::apply_swap_impact_value_with_cap
//      crates/model/src/market/base.rs    :: BaseMarketMutExt::apply_delta
//      crates/model/src/pool/mod.rs       :: PoolExt::apply_delta_amount
//      crates/model/src/params/fee.rs     :: <Fees as Default>::default
//      The swap-market carrier, the fee split (C02) and swap_impact_amount_with_cap (C05) come with the included template
//      and are re-proved in this file. Assumed (listed in the evidence): Pool::apply_delta_to_{long,short}_amount (required trait
//      methods; store-side pool: C15), BaseMarketExt::checked_apply_delta, the three validations (fallible, no state; what a
//      success establishes is an uninterpreted predicate), Deposit::price_impact (arbitrary impact value and usd values),
//      LiquidityMarket::pool_value as a table by (kind, maximize), LiquidityMarketMut::mint as a ghost log.
// =================================================================================================
verus! {
impl Sides {
    /// ASSUMED trait contract of `Pool::apply_delta_to_long_amount` (required method): checked signed addition on that side only
    #[verifier::external_body]
    pub fn apply_delta_to_long_amount(&mut self, delta: &S) -> (r: Result<(), E>)
        ensures r.is_ok() ==> final(self).long@ == old(self).long@ + delta@ && final(self).short == old(self).short,
                r.is_err() ==> *final(self) == *old(self)
    { unimplemented!() }
    /// ASSUMED trait contract of `Pool::apply_delta_to_short_amount`
    #[verifier::external_body]
    pub fn apply_delta_to_short_amount(&mut self, delta: &S) -> (r: Result<(), E>)
        ensures r.is_ok() ==> final(self).short@ == old(self).short@ + delta@ && final(self).long == old(self).long,
                r.is_err() ==> *final(self) == *old(self)
    { unimplemented!() }

//@unit C06.PoolExt.apply_delta_amount
//@ file crates/model/src/pool/mod.rs
//@ within pub trait PoolExt: Pool
//@ fn apply_delta_amount
//@ sig fn apply_delta_amount(&mut self, is_long: bool, delta: &Self::Signed) -> crate::Result<()>
    pub fn apply_delta_amount(&mut self, is_long: bool, delta: &S) -> (r: Result<(), E>)
        ensures r.is_ok() ==> side(*final(self), is_long) == side(*old(self), is_long) + delta@ && side(*final(self), !is_long) == side(*old(self), !is_long),
                r.is_err() ==> *final(self) == *old(self)
//@body
}

impl DefaultZ for Fees {
    open spec fn default_spec() -> Fees { Fees { fee_amount_for_receiver: N(0), fee_amount_for_pool: N(0) } }
//@unit C06.Fees.default
//@ file crates/model/src/params/fee.rs
//@ within impl<T: Zero> Default for Fees<T>
//@ fn default
//@ sig fn default() -> Self
    fn default() -> (r: Fees)
//@body
}

/// what a successful `validate_pool_amount(is_long)` establishes: a predicate of the liquidity pool amount of that side
pub uninterp spec fn amount_ok(amount: int, is_long: bool) -> bool;
/// what a successful `validate_pool_value_for_deposit(prices, is_long)` establishes: a predicate of the pools
pub uninterp spec fn deposit_value_ok(m: SMarket, is_long: bool) -> bool;
/// what successful `validate_reserve(prices, is_long)` / `validate_max_pnl(prices, k1, k2)` establish
pub uninterp spec fn reserve_ok(m: SMarket, is_long: bool) -> bool;
pub uninterp spec fn max_pnl_ok(m: SMarket, long_kind: PnlFactorKind, short_kind: PnlFactorKind) -> bool;

/// Carrier for `M: LiquidityMarketMut`: the swap-market pools (C05 carrier), the market token supply, the divisor, the pool value
/// as a table (`value_deposit_max` is the entry for (MaxAfterDeposit, maximize = true); every other (kind, maximize) reads
/// `value_other`, except (MaxAfterWithdrawal, minimised) = `value_withdrawal_min`), and ghost logs of what was minted / burnt
pub struct DMarket { pub m: SMarket, pub supply: N, pub divisor: N, pub value_deposit_max: Option<S>, pub value_withdrawal_min: Option<S>, pub value_other: Option<S>, pub minted: Ghost<Seq<N>>, pub burnt: Ghost<Seq<N>> }
pub open spec fn pv_read(m: DMarket, kind: PnlFactorKind, maximize: bool) -> Option<S> {
    if kind is MaxAfterDeposit && maximize { m.value_deposit_max } else if kind is MaxAfterWithdrawal && !maximize { m.value_withdrawal_min } else { m.value_other }
}
pub open spec fn same_but_pools(a: DMarket, b: DMarket) -> bool {
    a.supply == b.supply && a.divisor == b.divisor && a.value_deposit_max == b.value_deposit_max && a.value_other == b.value_other && a.value_withdrawal_min == b.value_withdrawal_min && a.minted@ == b.minted@ && a.burnt@ == b.burnt@
        && a.m.fee_params == b.m.fee_params
}
impl DMarket {
    pub fn liquidity_pool(&self) -> (r: Result<&Sides, E>) ensures r.is_ok() ==> *r.unwrap() == self.m.liquidity { Ok(&self.m.liquidity) }
    pub fn liquidity_pool_mut(&mut self) -> (r: Result<&mut Sides, E>)
        ensures r.is_ok(), *r.unwrap() == old(self).m.liquidity, *final(self) == (DMarket { m: SMarket { liquidity: *final(r.unwrap()), ..old(self).m }, ..*old(self) })
    { Ok(&mut self.m.liquidity) }
    pub fn swap_impact_pool_mut(&mut self) -> (r: Result<&mut Sides, E>)
        ensures r.is_ok(), *r.unwrap() == old(self).m.swap_impact, *final(self) == (DMarket { m: SMarket { swap_impact: *final(r.unwrap()), ..old(self).m }, ..*old(self) })
    { Ok(&mut self.m.swap_impact) }
    pub fn claimable_fee_pool_mut(&mut self) -> (r: Result<&mut Sides, E>)
        ensures r.is_ok(), *r.unwrap() == old(self).m.claimable_fee, *final(self) == (DMarket { m: SMarket { claimable_fee: *final(r.unwrap()), ..old(self).m }, ..*old(self) })
    { Ok(&mut self.m.claimable_fee) }
    pub fn virtual_inventory_for_swaps_pool_mut(&mut self) -> (r: Result<Option<&mut Sides>, E>)
        ensures r.is_ok(), r.unwrap().is_some() == old(self).m.virtual_inventory.is_some(),
            r.unwrap().is_some() ==> *r.unwrap().unwrap() == old(self).m.virtual_inventory.unwrap()
                && *final(self) == (DMarket { m: SMarket { virtual_inventory: Some(*final(r.unwrap().unwrap())), ..old(self).m }, ..*old(self) }),
            r.unwrap().is_none() ==> *final(self) == *old(self),
    { match &mut self.m.virtual_inventory { Some(x) => Ok(Some(x)), None => Ok(None) } }
    pub fn swap_fee_params(&self) -> (r: Result<&FeeParams, E>)
        ensures r.is_ok() == self.m.fee_params.is_some(), r.is_ok() ==> *r.unwrap() == self.m.fee_params.unwrap()
    { self.m.swap_fee_params() }
    /// the C05 unit on the inner carrier
    pub fn swap_impact_amount_with_cap(&self, is_long_token: bool, price: &Price, usd_impact: &S) -> (r: Result<(S, N), E>)
        ensures
            r.is_ok() ==> price.min@ != 0 && price.max@ != 0,
            r.is_ok() && usd_impact@ > 0 ==> 0 <= r.unwrap().0@ <= side(self.m.swap_impact, is_long_token) && r.unwrap().0@ * price.max@ + r.unwrap().1@ <= usd_impact@,
            r.is_ok() && usd_impact@ < 0 ==> r.unwrap().0@ < 0 && r.unwrap().1@ == 0 && (-r.unwrap().0@) * price.min@ >= -usd_impact@,
            r.is_ok() && usd_impact@ == 0 ==> r.unwrap().0@ == 0 && r.unwrap().1@ == 0,
    { self.m.swap_impact_amount_with_cap(is_long_token, price, usd_impact) }
    /// ASSUMED (BaseMarketExt::checked_apply_delta), as in C04 / C05
    pub fn checked_apply_delta(&self, delta: Delta) -> (r: Result<(Sides, Option<Sides>), E>)
        ensures r.is_ok() ==> r.unwrap().0.long@ == self.m.liquidity.long@ + dl(delta) && r.unwrap().0.short@ == self.m.liquidity.short@ + ds(delta)
            && (r.unwrap().1.is_some() ==> self.m.virtual_inventory.is_some())
    { self.m.checked_apply_delta(delta) }
    pub fn total_supply(&self) -> (r: N) ensures r == self.supply { self.supply }
    pub fn usd_to_amount_divisor(&self) -> (r: N) ensures r == self.divisor { self.divisor }
    /// ASSUMED: the validations read the market and may fail; they change nothing; a success establishes the named predicate
    #[verifier::external_body]
    pub fn validate_pool_amount(&self, is_long_token: bool) -> (r: Result<(), E>)
        ensures r.is_ok() ==> amount_ok(side(self.m.liquidity, is_long_token), is_long_token)
    { unimplemented!() }
    #[verifier::external_body]
    pub fn validate_pool_value_for_deposit(&self, prices: &Prices, is_long_token: bool) -> (r: Result<(), E>)
        ensures r.is_ok() ==> deposit_value_ok(self.m, is_long_token)
    { unimplemented!() }
    #[verifier::external_body]
    pub fn validate_max_pnl(&self, prices: &Prices, long_kind: PnlFactorKind, short_kind: PnlFactorKind) -> (r: Result<(), E>)
        ensures r.is_ok() ==> max_pnl_ok(self.m, long_kind, short_kind)
    { unimplemented!() }
    /// ASSUMED: LiquidityMarketExt::pool_value (its formula is under contract in verus/C06.rs) as a table
    #[verifier::external_body]
    pub fn pool_value(&self, prices: &Prices, kind: PnlFactorKind, maximize: bool) -> (r: Result<S, E>)
        ensures r.is_ok() == pv_read(*self, kind, maximize).is_some(), r.is_ok() ==> r.unwrap() == pv_read(*self, kind, maximize).unwrap()
    { unimplemented!() }
    /// LiquidityMarketMut::mint: a log entry (the store-side implementation defers it to the commit: C21)
    #[verifier::external_body]
    pub fn mint(&mut self, amount: &N) -> (r: Result<(), E>)
        ensures r.is_ok() ==> *final(self) == (DMarket { minted: Ghost(old(self).minted@.push(*amount)), ..*old(self) }),
                r.is_err() ==> *final(self) == *old(self)
    { unimplemented!() }
    /// LiquidityMarketMut::burn: a log entry
    #[verifier::external_body]
    pub fn burn(&mut self, amount: &N) -> (r: Result<(), E>)
        ensures r.is_ok() ==> *final(self) == (DMarket { burnt: Ghost(old(self).burnt@.push(*amount)), ..*old(self) }),
                r.is_err() ==> *final(self) == *old(self)
    { unimplemented!() }
    /// ASSUMED: read-only validation; a success establishes the named predicate of the pools it ran on
    #[verifier::external_body]
    pub fn validate_reserve(&self, prices: &Prices, is_long: bool) -> (r: Result<(), E>)
        ensures r.is_ok() ==> reserve_ok(self.m, is_long)
    { unimplemented!() }

//@unit C06.SwapMarketMutExt.apply_swap_impact_value_with_cap
//@ file crates/model/src/market/swap.rs
//@ within pub trait SwapMarketMutExt<const DECIMALS: u8>: SwapMarketMut<DECIMALS>
//@ fn apply_swap_impact_value_with_cap
//@ sig fn apply_swap_impact_value_with_cap( &mut self, is_long_token: bool, price: &Price<Self::Num>, usd_impact: &Self::Signed, ) -> crate::Result<Self::Num>
//@ sub let \(amount, _\) = => let (amount, _rest) =
    pub fn apply_swap_impact_value_with_cap(&mut self, is_long_token: bool, price: &Price, usd_impact: &S) -> (r: Result<N, E>)
        ensures
            // only the swap impact pool of that token moves: it releases a positive impact (at most what it holds, valued at the MAX
            // price at most the impact) and takes in a negative one (valued at the MIN price at least the impact)
            r.is_ok() ==> *final(self) == (DMarket { m: SMarket { swap_impact: final(self).m.swap_impact, ..old(self).m }, ..*old(self) })
                && side(final(self).m.swap_impact, !is_long_token) == side(old(self).m.swap_impact, !is_long_token)
                && price.min@ != 0 && price.max@ != 0,
            r.is_ok() && usd_impact@ > 0 ==> side(final(self).m.swap_impact, is_long_token) == side(old(self).m.swap_impact, is_long_token) - r.unwrap()@
                && r.unwrap()@ * price.max@ <= usd_impact@,
            r.is_ok() && usd_impact@ < 0 ==> side(final(self).m.swap_impact, is_long_token) == side(old(self).m.swap_impact, is_long_token) + r.unwrap()@
                && r.unwrap()@ * price.min@ >= -usd_impact@ && r.unwrap()@ > 0,
            r.is_ok() && usd_impact@ == 0 ==> r.unwrap()@ == 0 && final(self).m.swap_impact == old(self).m.swap_impact,
            r.is_err() ==> *final(self) == *old(self),
//@body

//@unit C06.BaseMarketMutExt.apply_delta
//@ file crates/model/src/market/base.rs
//@ within pub trait BaseMarketMutExt<const DECIMALS: u8>: BaseMarketMut<DECIMALS>
//@ fn apply_delta
//@ sig fn apply_delta(&mut self, is_long_token: bool, delta: &Self::Signed) -> crate::Result<()>
    pub fn apply_delta(&mut self, is_long_token: bool, delta: &S) -> (r: Result<(), E>)
        ensures
            // the liquidity pool of that token moves by the delta; the other side, the impact pool and the fee pool do not
            r.is_ok() ==> side(final(self).m.liquidity, is_long_token) == side(old(self).m.liquidity, is_long_token) + delta@
                && side(final(self).m.liquidity, !is_long_token) == side(old(self).m.liquidity, !is_long_token)
                && final(self).m.swap_impact == old(self).m.swap_impact && final(self).m.claimable_fee == old(self).m.claimable_fee
                && same_but_pools(*final(self), *old(self)),
            r.is_err() ==> *final(self) == *old(self),
//@body
}

//@struct crates/model/src/action/deposit.rs :: pub struct DepositParams<T> :: long_token_amount, short_token_amount, prices
#[derive(Clone, Copy)]
pub struct DepositParams { pub long_token_amount: N, pub short_token_amount: N, pub prices: Prices }
//@struct crates/model/src/action/deposit.rs :: struct ReassignedValues<'a, T> :: amount, price, opposite_price
pub struct DReassigned<'a> { pub amount: N, pub price: &'a Price, pub opposite_price: &'a Price }
//@struct crates/model/src/action/deposit.rs :: struct PriceImpactWithDeltas<T: Unsigned> :: price_impact, long_token_usd_value, short_token_usd_value
pub struct PriceImpactWithDeltas { pub price_impact: PriceImpact, pub long_token_usd_value: N, pub short_token_usd_value: N }
//@struct crates/model/src/action/deposit.rs :: pub struct DepositReport<Unsigned, Signed> :: params, minted, price_impact, fees
pub struct DepositReport { pub params: DepositParams, pub minted: N, pub price_impact: S, pub fees: [Fees; 2] }
impl DepositReport {
//@unit C06.DepositReport.new
//@ file crates/model/src/action/deposit.rs
//@ within impl<T> DepositReport<T, T::Signed>
//@ fn new
//@ sig fn new( params: DepositParams<T>, price_impact: PriceImpact<T::Signed>, minted: T, fees: [Fees<T>; 2], ) -> Self
    fn new(params: DepositParams, price_impact: PriceImpact, minted: N, fees: [Fees; 2]) -> (r: DepositReport)
        ensures r.params == params && r.minted == minted && r.price_impact == price_impact.value && r.fees == fees
//@body
}

pub open spec fn amount_of(p: DepositParams, is_long_token: bool) -> int { if is_long_token { p.long_token_amount@ } else { p.short_token_amount@ } }
pub open spec fn price_of(p: DepositParams, is_long_token: bool) -> Price { if is_long_token { p.prices.long_token_price } else { p.prices.short_token_price } }
impl DepositParams {
//@unit C06.DepositParams.long_token_price
//@ file crates/model/src/action/deposit.rs
//@ within impl<T> DepositParams<T>
//@ fn long_token_price
//@ sig fn long_token_price(&self) -> &Price<T>
    pub fn long_token_price(&self) -> (r: &Price) ensures *r == self.prices.long_token_price
//@body
//@unit C06.DepositParams.short_token_price
//@ file crates/model/src/action/deposit.rs
//@ within impl<T> DepositParams<T>
//@ fn short_token_price
//@ sig fn short_token_price(&self) -> &Price<T>
    pub fn short_token_price(&self) -> (r: &Price) ensures *r == self.prices.short_token_price
//@body
//@unit C06.DepositParams.reassign_values
//@ file crates/model/src/action/deposit.rs
//@ within impl<T> DepositParams<T>
//@ fn reassign_values
//@ sig fn reassign_values(&self, is_long_token: bool) -> ReassignedValues<T>
//@ sub ReassignedValues \{ => DReassigned {
    fn reassign_values(&self, is_long_token: bool) -> (r: DReassigned)
        ensures r.amount@ == amount_of(*self, is_long_token), *r.price == price_of(*self, is_long_token), *r.opposite_price == price_of(*self, !is_long_token)
//@body
}

pub struct Deposit { pub market: DMarket, pub params: DepositParams, pub include_virtual_inventory_impact: bool }

/// market tokens for a usd value (C01 contract of usd_to_market_token_amount), as a relation the two uses share
pub open spec fn mint_bound(minted: int, value: int, pool_value: int, supply: int, divisor: int) -> bool {
    &&& (supply != 0 && pool_value != 0 ==> minted * pool_value <= value * supply)
    &&& (supply == 0 && pool_value == 0 ==> minted * divisor <= value)
    &&& (supply == 0 && pool_value != 0 ==> minted * divisor <= pool_value + value)
}
pub proof fn lemma_mint_bound(value: int, pool_value: int, supply: int, divisor: int, minted: int)
    requires value >= 0, pool_value >= 0, supply >= 0, divisor > 0,
        supply != 0 ==> pool_value != 0 && minted == mul_div_floor(supply, value, pool_value),
        supply == 0 && pool_value == 0 ==> minted == value / divisor,
        supply == 0 && pool_value != 0 ==> minted == (pool_value + value) / divisor,
    ensures mint_bound(minted, value, pool_value, supply, divisor), minted >= 0
{
    if supply != 0 { lemma_floor_le(supply, value, pool_value); lemma_mul_is_commutative(supply, value); }
    else if pool_value == 0 { lemma_fundamental_div_mod(value, divisor); lemma_mod_bound(value, divisor); lemma_mul_is_commutative(divisor, value / divisor); lemma_div_pos_is_pos(value, divisor); }
    else { let x = pool_value + value; lemma_fundamental_div_mod(x, divisor); lemma_mod_bound(x, divisor); lemma_mul_is_commutative(divisor, x / divisor); lemma_div_pos_is_pos(x, divisor); }
}

/// the two mint terms of one deposited side together stay within the value that side brings in
pub proof fn lemma_deposit_mint(m1: int, v1: int, m2: int, v2: int, pv: int, supply: int, divisor: int, total: int)
    requires v1 >= 0, v2 >= 0, pv >= 0, supply >= 0, divisor > 0, v1 + v2 <= total,
        supply != 0 ==> pv != 0,
        (m1 == 0 && v1 == 0) || (supply != 0 && m1 == mul_div_floor(supply, v1, pv)),
        supply != 0 ==> m2 == mul_div_floor(supply, v2, pv),
        supply == 0 && pv == 0 ==> m2 == v2 / divisor,
        supply == 0 && pv != 0 ==> m2 == (pv + v2) / divisor,
    ensures mint_bound(m1 + m2, total, pv, supply, divisor)
{
    if supply != 0 {
        lemma_floor_le(supply, v2, pv);
        if !(m1 == 0 && v1 == 0) { lemma_floor_le(supply, v1, pv); } else { lemma_mul_basics(pv); lemma_mul_basics(supply); }
        assert(m1 * pv <= supply * v1) by { if m1 == 0 && v1 == 0 { lemma_mul_basics(pv); lemma_mul_basics(supply); } }
        lemma_mul_is_distributive_add_other_way(pv, m1, m2);
        lemma_mul_is_distributive_add(supply, v1, v2);
        lemma_mul_inequality(v1 + v2, total, supply);
        lemma_mul_is_commutative(supply, v1 + v2); lemma_mul_is_commutative(supply, total);
    } else {
        lemma_mint_bound(v2, pv, supply, divisor, m2);
        if pv == 0 { assert(m2 * divisor <= v2); } else { assert(m2 * divisor <= pv + v2); }
    }
}


/// the two shares of the price impact (by usd value of the two deposited sides, each rounded toward zero) do not exceed it
pub proof fn lemma_split_impact(lusd: int, susd: int, imp: int)
    requires lusd >= 0, susd >= 0
    ensures lusd + susd > 0 ==> mul_div_floor(lusd, abs(imp), lusd + susd) + mul_div_floor(susd, abs(imp), lusd + susd) <= abs(imp)
{
    let t = lusd + susd; let i = abs(imp);
    if t > 0 {
        lemma_floor_le(lusd, i, t); lemma_floor_le(susd, i, t);
        let a = mul_div_floor(lusd, i, t); let b = mul_div_floor(susd, i, t);
        lemma_mul_is_distributive_add_other_way(t, a, b);
        lemma_mul_is_distributive_add_other_way(i, lusd, susd);
        assert((a + b) * t <= t * i) by { lemma_mul_is_commutative(t, i); }
        if a + b > i { lemma_mul_strict_inequality(i, a + b, t); lemma_mul_is_commutative(t, i); }
    }
}
pub proof fn lemma_total_mint(ml: int, ms: int, vl: int, vs: int, pl: int, ps: int, imp: int, pv: int, supply: int, divisor: int)
    requires pl >= 0, ps >= 0, pl + ps <= (if imp > 0 { imp } else { 0 }), pv >= 0, supply >= 0, ml >= 0, ms >= 0,
        supply != 0 ==> ml * pv <= (vl + pl) * supply && ms * pv <= (vs + ps) * supply,
        supply == 0 && pv == 0 ==> ml * divisor <= vl && ms * divisor <= vs,
    ensures supply != 0 ==> (ml + ms) * pv <= (vl + vs + (if imp > 0 { imp } else { 0 })) * supply,
        supply == 0 && pv == 0 ==> (ml + ms) * divisor <= vl + vs
{
    lemma_mul_is_distributive_add_other_way(divisor, ml, ms);
    if supply != 0 {
        let p = if imp > 0 { imp } else { 0 };
        lemma_mul_is_distributive_add_other_way(pv, ml, ms);
        lemma_mul_is_distributive_add_other_way(supply, vl + pl, vs + ps);
        lemma_mul_inequality(vl + pl + vs + ps, vl + vs + p, supply);
    }
}

impl Deposit {
    /// ASSUMED: Deposit::price_impact (pool delta at mid prices, swap impact value C03): an arbitrary impact and two usd values
    #[verifier::external_body]
    fn price_impact(&self) -> (r: Result<PriceImpactWithDeltas, E>) { unimplemented!() }

//@unit C06.Deposit.charge_fees
//@ file crates/model/src/action/deposit.rs
//@ within impl<const DECIMALS: u8, M: LiquidityMarketMut<DECIMALS>> Deposit<M, DECIMALS>
//@ fn charge_fees
//@ sig fn charge_fees( &self, balance_change: BalanceChange, amount: &mut M::Num, ) -> crate::Result<Fees<M::Num>>
//@ sub \.apply_fees\(balance_change, amount\) => .apply_fees(balance_change, &*amount)
    fn charge_fees(&self, balance_change: BalanceChange, amount: &mut N) -> (r: Result<Fees, E>)
        ensures
            // the amount is split exactly into what is left, the pool's fee and the receiver's fee (C02)
            r.is_ok() ==> final(amount)@ + r.unwrap().fee_amount_for_pool@ + r.unwrap().fee_amount_for_receiver@ == old(amount)@,
            r.is_ok() ==> self.market.m.fee_params.is_some()
                && r.unwrap().fee_amount_for_pool@ + r.unwrap().fee_amount_for_receiver@ == fee_spec(self.market.m.fee_params.unwrap(), balance_change, old(amount)@),
            r.is_err() ==> *final(amount) == *old(amount),
//@body

//@unit C06.Deposit.execute_deposit
//@ file crates/model/src/action/deposit.rs
//@ within impl<const DECIMALS: u8, M: LiquidityMarketMut<DECIMALS>> Deposit<M, DECIMALS>
//@ fn execute_deposit
//@ sig fn execute_deposit( &mut self, is_long_token: bool, pool_value: M::Num, PriceImpact { value: mut price_impact, balance_change, }: PriceImpact<M::Signed>, ) -> Result<(M::Num, Fees<M::Num>), crate::Error>
//@ top :: let mut price_impact = pi.value; let balance_change = pi.balance_change; let ghost m0 = self.market; let ghost a0 = amount_of(self.params, is_long_token); let ghost mut g_v1: int = 0; let ghost mut g_m1: int = 0;
//@ after self.market.validate_pool_amount(!is_long_token)?; :: proof { g_v1 = positive_impact_amount@ * opposite_price.max@; g_m1 = mint_amount@; lemma_mul_nonnegative(positive_impact_amount@, opposite_price.max@); }
//@ before Ok((mint_amount, fees)) :: proof { lemma_mul_nonnegative(amount@, price.min@); lemma_mul_inequality(amount@, a0, price.min@); lemma_deposit_mint(g_m1, g_v1, mint_amount@ - g_m1, amount@ * price.min@, pool_value@, m0.supply@, m0.divisor@, a0 * price.min@ + (if pi.value@ > 0 && m0.supply@ != 0 { pi.value@ } else { 0 })); }
//@ sub let mut mint_amount: M::Num = Zero::zero\(\); => let mut mint_amount: N = N::zero();
//@ subopt price_impact = Zero::zero\(\); => price_impact = S::zero();
//@ sub let ReassignedValues \{ => let DReassigned {
//@ sub utils::usd_to_market_token_amount\( => usd_to_market_token_amount(
//@ after let fees = self.charge_fees(balance_change, &mut amount)?; :: let ghost after_fees = amount@;
    fn execute_deposit(&mut self, is_long_token: bool, pool_value: N, pi: PriceImpact) -> (r: Result<(N, Fees), E>)
        requires old(self).market.divisor@ != 0,
        ensures
            final(self).params == old(self).params && same_but_pools(final(self).market, old(self).market),
            // a supply without a pool value is rejected
            r.is_ok() ==> !(pool_value@ == 0 && old(self).market.supply@ != 0),
            // EVERY DEPOSITED TOKEN IS ACCOUNTED FOR: liquidity + swap impact pool + claimable fees of the deposited token grow by
            // exactly the deposited amount; the holdings of the other token do not change (a positive impact only moves tokens
            // from its swap impact pool into its liquidity pool)
            r.is_ok() ==> holdings(final(self).market.m, is_long_token) == holdings(old(self).market.m, is_long_token) + amount_of(old(self).params, is_long_token),
            r.is_ok() ==> holdings(final(self).market.m, !is_long_token) == holdings(old(self).market.m, !is_long_token),
            r.is_ok() ==> side(final(self).market.m.claimable_fee, is_long_token) == side(old(self).market.m.claimable_fee, is_long_token) + r.unwrap().1.fee_amount_for_receiver@,
            // THE MINT: the deposited amount is valued at the MIN price of its token, against the pool value and supply handed in;
            // a positive impact adds at most its usd value (and nothing at the first deposit), a negative one only reduces the amount
            r.is_ok() ==> mint_bound(r.unwrap().0@, amount_of(old(self).params, is_long_token) * price_of(old(self).params, is_long_token).min@
                    + (if pi.value@ > 0 && old(self).market.supply@ != 0 { pi.value@ } else { 0 }), pool_value@, old(self).market.supply@, old(self).market.divisor@),
            // first deposit into an empty pool with no fees and no impact: one usd (at the min price) per market token unit / divisor
            r.is_ok() && old(self).market.supply@ == 0 && pool_value@ == 0 && pi.value@ == 0
                && r.unwrap().1.fee_amount_for_pool@ + r.unwrap().1.fee_amount_for_receiver@ == 0
                ==> r.unwrap().0@ == (amount_of(old(self).params, is_long_token) * price_of(old(self).params, is_long_token).min@) / old(self).market.divisor@,
            // the validations ran on the state they protect
            r.is_ok() ==> amount_ok(side(final(self).market.m.liquidity, is_long_token), is_long_token) && deposit_value_ok(final(self).market.m, is_long_token),
            r.is_ok() && pi.value@ > 0 && old(self).market.supply@ != 0 ==> amount_ok(side(final(self).market.m.liquidity, !is_long_token), !is_long_token),
            r.is_ok() && !(pi.value@ > 0 && old(self).market.supply@ != 0) ==> side(final(self).market.m.liquidity, !is_long_token) == side(old(self).market.m.liquidity, !is_long_token),
//@body

//@unit C06.Deposit.execute
//@ file crates/model/src/action/deposit.rs
//@ within impl<const DECIMALS: u8, M> MarketAction for Deposit<M, DECIMALS>
//@ fn execute
//@ sig fn execute(mut self) -> crate::Result<Self::Report>
//@ sub assert\(\s*!self\.params\.long_token_amount\.is_zero\(\) \|\| !self\.params\.short_token_amount\.is_zero\(\)\s*\); => assert(self.params.long_token_amount@ != 0 || self.params.short_token_amount@ != 0);
//@ sub let mut market_token_to_mint: M::Num = Zero::zero\(\); => let mut market_token_to_mint: N = N::zero();
//@ sub Default::default\(\) => Fees::default()
//@ top :: let ghost m0 = self.market; let ghost p0 = self.params; let ghost mut g_ml: int = 0; let ghost mut g_pl: int = 0; let ghost mut g_ms: int = 0; let ghost mut g_ps: int = 0; let ghost mut g_mid: DMarket = self.market;
//@ after all_fees[0] = fees; :: proof { g_ml = mint_amount@; g_pl = adjusted_price_impact@; g_mid = self.market; lemma_floor_le(long_token_usd_value@, abs(price_impact.value@), long_token_usd_value@ + short_token_usd_value@); }
//@ after all_fees[1] = fees; :: proof { g_ms = mint_amount@; g_ps = adjusted_price_impact@; lemma_floor_le(short_token_usd_value@, abs(price_impact.value@), long_token_usd_value@ + short_token_usd_value@); }
//@ before DepositReport::new(self.params, price_impact, market_token_to_mint, all_fees) :: proof { lemma_split_impact(long_token_usd_value@, short_token_usd_value@, price_impact.value@); lemma_total_mint(g_ml, g_ms, p0.long_token_amount@ * p0.prices.long_token_price.min@, p0.short_token_amount@ * p0.prices.short_token_price.min@, if g_pl > 0 { g_pl } else { 0 }, if g_ps > 0 { g_ps } else { 0 }, price_impact.value@, pool_value@, m0.supply@, m0.divisor@); }
    fn execute(&mut self) -> (r: Result<DepositReport, E>)
        requires
            old(self).market.divisor@ != 0,
            // Deposit::try_new rejects an empty deposit (the repository's debug assertion)
            old(self).params.long_token_amount@ != 0 || old(self).params.short_token_amount@ != 0,
        ensures
            final(self).params == old(self).params,
            // THE POOL IS VALUED FOR DEPOSITS, MAXIMISED, and a negative value is rejected
            r.is_ok() ==> pv_read(old(self).market, PnlFactorKind::MaxAfterDeposit, true).is_some() && pv_read(old(self).market, PnlFactorKind::MaxAfterDeposit, true).unwrap()@ >= 0,
            // every deposited token is accounted for, on both sides
            r.is_ok() ==> holdings(final(self).market.m, true) == holdings(old(self).market.m, true) + old(self).params.long_token_amount@,
            r.is_ok() ==> holdings(final(self).market.m, false) == holdings(old(self).market.m, false) + old(self).params.short_token_amount@,
            // exactly the reported amount is minted, once
            r.is_ok() ==> final(self).market.minted@ == old(self).market.minted@.push(r.unwrap().minted) && final(self).market.supply == old(self).market.supply,
            r.is_ok() ==> r.unwrap().params == old(self).params,
            // FAIRNESS OF THE MINT: minted x (maximised pool value) <= (value of both deposited amounts at their MIN prices + the
            // positive price impact) x supply; into an empty pool: one market token unit per usd / divisor, at most
            r.is_ok() && old(self).market.supply@ != 0 ==> r.unwrap().minted@ * pv_read(old(self).market, PnlFactorKind::MaxAfterDeposit, true).unwrap()@
                <= (old(self).params.long_token_amount@ * old(self).params.prices.long_token_price.min@ + old(self).params.short_token_amount@ * old(self).params.prices.short_token_price.min@
                    + (if r.unwrap().price_impact@ > 0 { r.unwrap().price_impact@ } else { 0 })) * old(self).market.supply@,
            r.is_ok() && old(self).market.supply@ == 0 && pv_read(old(self).market, PnlFactorKind::MaxAfterDeposit, true).unwrap()@ == 0 ==> r.unwrap().minted@ * old(self).market.divisor@
                <= old(self).params.long_token_amount@ * old(self).params.prices.long_token_price.min@ + old(self).params.short_token_amount@ * old(self).params.prices.short_token_price.min@,
            // the validations ran on the state they protect
            r.is_ok() && old(self).params.long_token_amount@ != 0 ==> amount_ok(side(final(self).market.m.liquidity, true), true),
            r.is_ok() && old(self).params.short_token_amount@ != 0 ==> amount_ok(side(final(self).market.m.liquidity, false), false) && deposit_value_ok(final(self).market.m, false),
            r.is_ok() && old(self).params.short_token_amount@ == 0 ==> deposit_value_ok(final(self).market.m, true),
//@body
}

// ---------------------------------------------------------------------------------------------
// the withdrawal leg
// ---------------------------------------------------------------------------------------------
//@struct crates/model/src/action/withdraw.rs :: pub struct WithdrawParams<T> :: market_token_amount, prices
#[derive(Clone, Copy)]
pub struct WithdrawParams { pub market_token_amount: N, pub prices: Prices }
//@struct crates/model/src/action/withdraw.rs :: pub struct WithdrawReport<T> :: params, long_token_fees, short_token_fees, long_token_output, short_token_output
pub struct WithdrawReport { pub params: WithdrawParams, pub long_token_fees: Fees, pub short_token_fees: Fees, pub long_token_output: N, pub short_token_output: N }
pub struct Withdrawal { pub market: DMarket, pub params: WithdrawParams }
/// usd value of the burnt market tokens: pool value (for withdrawals, MINIMISED) x amount / supply, rounded down
pub open spec fn burnt_value(w: Withdrawal) -> int {
    mul_div_floor(pv_read(w.market, PnlFactorKind::MaxAfterWithdrawal, false).unwrap()@, w.params.market_token_amount@, w.market.supply@)
}
pub open spec fn fee_total(f: Fees) -> int { f.fee_amount_for_pool@ + f.fee_amount_for_receiver@ }
impl Withdrawal {
    /// PROVED in verus/C06.rs (unit C06.Withdrawal.output_amounts, same text of the contract, on the carrier of that template);
    /// here the call is taken at that contract
    #[verifier::external_body]
    fn output_amounts(&self) -> (r: Result<(N, N), E>)
        ensures
            r.is_ok() ==> pv_read(self.market, PnlFactorKind::MaxAfterWithdrawal, false).is_some()
                && pv_read(self.market, PnlFactorKind::MaxAfterWithdrawal, false).unwrap()@ > 0 && self.market.supply@ != 0,
            r.is_ok() ==> r.unwrap().0@ * self.params.prices.long_token_price.max@ + r.unwrap().1@ * self.params.prices.short_token_price.max@ <= burnt_value(*self),
    { unimplemented!() }

//@unit C06.Withdrawal.charge_fees
//@ file crates/model/src/action/withdraw.rs
//@ within impl<const DECIMALS: u8, M: LiquidityMarketMut<DECIMALS>> Withdrawal<M, DECIMALS>
//@ fn charge_fees
//@ sig fn charge_fees(&self, amount: &mut M::Num) -> crate::Result<Fees<M::Num>>
//@ sub \.apply_fees\((BalanceChange::\w+), amount\) => .apply_fees(\1, &*amount)
    fn charge_fees(&self, amount: &mut N) -> (r: Result<Fees, E>)
        ensures
            r.is_ok() ==> final(amount)@ + r.unwrap().fee_amount_for_pool@ + r.unwrap().fee_amount_for_receiver@ == old(amount)@,
            // withdrawals always pay the fee factor of a WORSENED balance
            r.is_ok() ==> self.market.m.fee_params.is_some() && fee_total(r.unwrap()) == fee_spec(self.market.m.fee_params.unwrap(), BalanceChange::Worsened, old(amount)@),
            r.is_err() ==> *final(amount) == *old(amount),
//@body

//@unit C06.Withdrawal.execute
//@ file crates/model/src/action/withdraw.rs
//@ within impl<const DECIMALS: u8, M: LiquidityMarketMut<DECIMALS>> MarketAction for Withdrawal<M, DECIMALS>
//@ fn execute
//@ sig fn execute(mut self) -> crate::Result<Self::Report>
//@ top :: let ghost w0 = *self;
//@ after let short_token_fees = self.charge_fees(&mut short_token_amount)?; :: proof { let gl = long_token_amount@ + fee_total(long_token_fees); let gs = short_token_amount@ + fee_total(short_token_fees); lemma_mul_inequality(long_token_amount@ + fee_total(long_token_fees), gl, w0.params.prices.long_token_price.max@); }
    fn execute(&mut self) -> (r: Result<WithdrawReport, E>)
        ensures
            final(self).params == old(self).params,
            // THE POOL IS VALUED FOR WITHDRAWALS, MINIMISED, and must be positive
            r.is_ok() ==> pv_read(old(self).market, PnlFactorKind::MaxAfterWithdrawal, false).is_some()
                && pv_read(old(self).market, PnlFactorKind::MaxAfterWithdrawal, false).unwrap()@ > 0 && old(self).market.supply@ != 0,
            // what is paid out plus the fees kept back, valued at the MAX token prices, never exceeds the value of the burnt tokens
            r.is_ok() ==> (r.unwrap().long_token_output@ + fee_total(r.unwrap().long_token_fees)) * old(self).params.prices.long_token_price.max@
                + (r.unwrap().short_token_output@ + fee_total(r.unwrap().short_token_fees)) * old(self).params.prices.short_token_price.max@ <= burnt_value(*old(self)),
            // exactly the outputs leave the market: liquidity + swap impact pool + claimable fees of each token shrink by the output
            // (the receiver's fee moves from the liquidity pool to the claimable fee pool, the pool's fee stays where it is)
            r.is_ok() ==> holdings(final(self).market.m, true) == holdings(old(self).market.m, true) - r.unwrap().long_token_output@,
            r.is_ok() ==> holdings(final(self).market.m, false) == holdings(old(self).market.m, false) - r.unwrap().short_token_output@,
            r.is_ok() ==> side(final(self).market.m.claimable_fee, true) == side(old(self).market.m.claimable_fee, true) + r.unwrap().long_token_fees.fee_amount_for_receiver@
                && side(final(self).market.m.claimable_fee, false) == side(old(self).market.m.claimable_fee, false) + r.unwrap().short_token_fees.fee_amount_for_receiver@
                && final(self).market.m.swap_impact == old(self).market.m.swap_impact,
            // exactly the requested market tokens are burnt, once; nothing is minted
            r.is_ok() ==> final(self).market.burnt@ == old(self).market.burnt@.push(old(self).params.market_token_amount) && final(self).market.minted@ == old(self).market.minted@,
            r.is_ok() ==> r.unwrap().params == old(self).params,
            // the reserve and max-pnl validations ran on the final pools
            r.is_ok() ==> reserve_ok(final(self).market.m, true) && reserve_ok(final(self).market.m, false)
                && max_pnl_ok(final(self).market.m, PnlFactorKind::MaxAfterWithdrawal, PnlFactorKind::MaxAfterWithdrawal),
//@body
}
} // verus!
