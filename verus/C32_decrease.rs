//@include C32.rs
// =================================================================================================
// C32 (decrease path)  programs/store/src/ops/order.rs :: execute_decrease_position - the builder fee block
//      `//@ block`: the unit is ONE statement of that function, `if builder_fee_factor != 0 { .. }`, taken with its balanced
//      braces; the rest of the function is dropped (logged with the number of lines). Its free variables are the unit's
//      parameters, so the contract holds for ARBITRARY values of them (any report, any output amount, any order).
//      Assumed: Oracle::get_primary_price (a deterministic, fallible read), the BuilderFeeCharged event CPI (fallible, no state).
// =================================================================================================
verus! {
#[derive(Clone, Copy)]
pub struct TokenKey { pub hi: u128, pub lo: u128 }
pub struct OracleC { pub tag: Ghost<int> }
pub uninterp spec fn primary_price_of(o: OracleC, token: TokenKey) -> Option<PriceP>;
impl OracleC {
    #[verifier::external_body]
    pub fn get_primary_price(&self, token: &TokenKey, allow_synthetic: bool) -> (r: Result<PriceP, E>)
        ensures r.is_ok() == primary_price_of(*self, *token).is_some(), r.is_ok() ==> r.unwrap() == primary_price_of(*self, *token).unwrap()
    { unimplemented!() }
}
/// DecreasePositionReport: the executed size delta is what the fee is computed from
pub struct ReportC { pub size_delta_usd: u128 }
impl ReportC { pub fn size_delta_usd(&self) -> (r: &u128) ensures *r == self.size_delta_usd { &self.size_delta_usd } }
/// the BuilderFeeCharged event (position.event_emitter().emit_cpi(&BuilderFeeCharged::new(..)?)?): fallible, changes nothing
#[verifier::external_body]
pub fn emit_builder_fee_charged(payable_amount: u128, paid_amount: u128) -> (r: Result<(), E>) { unimplemented!() }
pub open spec fn min2(a: int, b: int) -> int { if a <= b { a } else { b } }

//@unit C32.execute_decrease_position.builder_fee_block
//@ file programs/store/src/ops/order.rs
//@ fn execute_decrease_position
//@ sig fn execute_decrease_position( oracle: &Oracle, prices: Prices<u128>, position: &mut RevertiblePosition<'_, '_>, swap_markets: &mut SwapMarkets<'_, '_>, transfer_out: &mut TransferOut, event: &mut TradeData, order: &mut Order, is_insolvent_close_allowed: bool, secondary_order_type: Option<SecondaryOrderType>, builder_fee_factor: u128, ) -> Result<(RemovePosition, u128)>
//@ block if builder_fee_factor != 0 :: Ok(())
//@ subopt output_amount\.into\(\) => (output_amount as u128)
//@ sub position\.event_emitter\(\)\.emit_cpi\(&BuilderFeeCharged::new\([\s\S]*?\)\?\)\?; => emit_builder_fee_charged(payable_amount, paid_amount)?;
pub fn decrease_builder_fee_block(builder_fee_factor: u128, oracle: &OracleC, final_output_token: TokenKey, report: &ReportC, output_amount: u64, order: &mut Order) -> (r: Result<(), E>)
    ensures
        // no builder, no fee
        builder_fee_factor == 0 ==> r.is_ok() && final(order).builder_fee_amount == old(order).builder_fee_amount,
        // the fee is computed from the EXECUTED size at the MIN price of the final output token, rounded up, and what is recorded is
        // BOUNDED BY WHAT THE ORDER ACTUALLY PRODUCED: at most the output amount (underpayment is tolerated, never an error)
        builder_fee_factor != 0 && r.is_ok() ==> primary_price_of(*oracle, final_output_token).is_some()
            && final(order).builder_fee_amount == old(order).builder_fee_amount
                + min2(builder_fee_spec(report.size_delta_usd as int, builder_fee_factor as int, primary_price_of(*oracle, final_output_token).unwrap().min as int), output_amount as int),
//@body
} // verus!
