// ---- oracle price carriers shared by C29 (adjustment) and C24 (validation) ----------------------
verus! {
// ASSUMED std contract (vstd has none)
pub assume_specification [u128::abs_diff] (a: u128, b: u128) -> (r: u128)
    ensures r == (if a >= b { a - b } else { b - a });

//@struct crates/utils/src/price/mod.rs :: pub struct Price :: min, max
#[derive(Clone, Copy, Debug)]
pub struct UPrice { pub min: Decimal, pub max: Decimal }

impl Price {
//@unit C29.Price.checked_mid
//@ file crates/model/src/price.rs
//@ within impl<T> Price<T> where T: CheckedAdd + CheckedDiv + num_traits::One,
//@ fn checked_mid
//@ sig fn checked_mid(&self) -> Option<T>
//@ sub \.and_then\(\|p\| p\.checked_div\(&two\)\) => .and_then(|p: N| -> (o: Option<N>) ensures o == Some(N((p@ / 2) as u128)) { p.checked_div(&two) })
    pub fn checked_mid(&self) -> (r: Option<N>)
        ensures
            r.is_some() <==> self.min@ + self.max@ <= umax(),
            r.is_some() ==> r.unwrap()@ == (self.min@ + self.max@) / 2,
//@body
}

impl PriceP {
//@unit C29.PriceP.from
//@ file crates/model/src/price.rs
//@ within impl<'a> From<&'a gmsol_utils::price::Price> for Price<u128>
//@ fn from
//@ sig fn from(value: &'a gmsol_utils::price::Price) -> Self
    pub fn from(value: &UPrice) -> (r: PriceP)
        requires dec_wf(value.min), dec_wf(value.max)
        ensures r.min == unit_price(value.min), r.max == unit_price(value.max)
//@body

    /// glue: u128-typed forwarding wrapper to the N-level verified `Price::checked_mid`
    pub fn checked_mid(&self) -> (r: Option<u128>)
        ensures
            r.is_some() <==> self.min + self.max <= umax(),
            r.is_some() ==> r.unwrap() == (self.min + self.max) / 2,
    {
        match (Price { min: N(self.min), max: N(self.max) }).checked_mid() { Some(x) => Some(x.0), None => None }
    }
}

/// the allowed band around the reference: [ref - dev, ref + dev], dev = floor(ref * factor / U)
pub open spec fn deviation(reference: int, factor: int) -> int { mul_div_floor(reference, factor, uunit()) }
pub open spec fn reference_of(price: UPrice, ref_price: Option<&Decimal>) -> int {
    match ref_price { Some(d) => unit_price(*d), None => (unit_price(price.min) + unit_price(price.max)) / 2 }
}
pub open spec fn dev_of(price: UPrice, ref_price: Option<&Decimal>, factor: u128) -> int { deviation(reference_of(price, ref_price), factor as int) }
pub open spec fn in_band(p: int, reference: int, dev: int) -> bool { reference - dev <= p <= reference + dev }

pub proof fn lemma_floor_step(x: int, k: int) requires x >= 0, k > 0 ensures (x / k) * k <= x
{ lemma_fundamental_div_mod(x, k); lemma_mod_bound(x, k); lemma_mul_is_commutative(x / k, k); }
pub proof fn lemma_ceil_step(x: int, k: int) requires x >= 0, k > 0 ensures ((x + k - 1) / k) * k >= x
{ lemma_fundamental_div_mod(x + k - 1, k); lemma_mod_bound(x + k - 1, k); lemma_mul_is_commutative((x + k - 1) / k, k); }
} // verus!
