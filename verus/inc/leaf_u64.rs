verus! {

// ASSUMED std contract (vstd has none): u128::div_ceil is ceiling division, panics on zero divisor.
pub assume_specification [u128::div_ceil] (a: u128, b: u128) -> (r: u128)
    requires b != 0
    ensures r == (a as int + b as int - 1) / (b as int);

// ---- leaf: impl MulDiv for u64 (via u128 intermediate) --------------------------------------------
pub trait MulDivLeaf: Sized {
    spec fn val(&self) -> int;
    spec fn tmax() -> int;
    fn checked_mul_div(&self, numerator: &Self, denominator: &Self) -> (r: Option<Self>)
        ensures
            denominator.val() == 0 ==> r.is_none(),
            denominator.val() != 0 && mul_div_floor(self.val(), numerator.val(), denominator.val()) > Self::tmax() ==> r.is_none(),
            denominator.val() != 0 && mul_div_floor(self.val(), numerator.val(), denominator.val()) <= Self::tmax()
                ==> r.is_some() && r.unwrap().val() == mul_div_floor(self.val(), numerator.val(), denominator.val());
    fn checked_mul_div_ceil(&self, numerator: &Self, denominator: &Self) -> (r: Option<Self>)
        ensures
            denominator.val() == 0 ==> r.is_none(),
            denominator.val() != 0 && mul_div_ceil(self.val(), numerator.val(), denominator.val()) > Self::tmax() ==> r.is_none(),
            denominator.val() != 0 && mul_div_ceil(self.val(), numerator.val(), denominator.val()) <= Self::tmax()
                ==> r.is_some() && r.unwrap().val() == mul_div_ceil(self.val(), numerator.val(), denominator.val());
}

impl MulDivLeaf for u64 {
    open spec fn val(&self) -> int { *self as int }
    open spec fn tmax() -> int { u64::MAX as int }

//@unit C01.u64.checked_mul_div
//@ file crates/model/src/num.rs
//@ within impl MulDiv for u64
//@ fn checked_mul_div
//@ sig fn checked_mul_div(&self, numerator: &Self, denominator: &Self) -> Option<Self>
//@ top :: proof { lemma_mul_upper_bound(*self as int, u64::MAX as int, *numerator as int, u64::MAX as int); lemma_mul_nonnegative(*self as int, *numerator as int); }
    fn checked_mul_div(&self, numerator: &Self, denominator: &Self) -> (r: Option<Self>)
//@body

//@unit C01.u64.checked_mul_div_ceil
//@ file crates/model/src/num.rs
//@ within impl MulDiv for u64
//@ fn checked_mul_div_ceil
//@ sig fn checked_mul_div_ceil(&self, numerator: &Self, denominator: &Self) -> Option<Self>
//@ top :: proof { lemma_mul_upper_bound(*self as int, u64::MAX as int, *numerator as int, u64::MAX as int); lemma_mul_nonnegative(*self as int, *numerator as int); }
    fn checked_mul_div_ceil(&self, numerator: &Self, denominator: &Self) -> (r: Option<Self>)
//@body
}

} // verus!
