// =================================================================================================
// shared by C08 and C12: how ONE funding update sets the per-size index deltas
//      crates/model/src/action/update_funding_state.rs :: pack_to_funding_amount_per_size, unpack_to_funding_amount_delta,
//            flags_to_index, UpdateFundingState::set_deltas
//      (needs inc/model_base_u128.rs and inc/price.rs)
// =================================================================================================
verus! {
//@struct crates/model/src/price.rs :: pub struct Prices<T> :: index_token_price, long_token_price, short_token_price
#[derive(Clone, Copy)]
pub struct Prices { pub index_token_price: Price, pub long_token_price: Price, pub short_token_price: Price }

// ---- funding: per-size indices ------------------------------------------------------------------------------------------
/// the per-size index delta for `funding_value` spread over `open_interest`, in tokens at `price`: both divisions rounded up for
/// payers, down for receivers
pub open spec fn pack_spec(adj: int, funding_value: int, open_interest: int, price: int, up: bool) -> int {
    if funding_value == 0 || open_interest == 0 { 0 }
    else if up { div_ceil(mul_div_ceil(funding_value, adj * uunit(), open_interest), price) }
    else { mul_div_floor(funding_value, adj * uunit(), open_interest) / price }
}
/// what a position of `size` owes (up) / may claim (down) for an index difference `diff`
pub open spec fn unpack_spec(adj: int, diff: int, size: int, up: bool) -> int {
    if up { mul_div_ceil(size, diff, adj * uunit()) } else { mul_div_floor(size, diff, adj * uunit()) }
}

//@unit funding.pack_to_funding_amount_per_size
//@ file crates/model/src/action/update_funding_state.rs
//@ fn pack_to_funding_amount_per_size
//@ sig fn pack_to_funding_amount_per_size<T, const DECIMALS: u8>( adjustment: &T, funding_value: &T, open_interest: &T, price: &T, round_up_magnitude: bool, ) -> Option<T>
//@ sub assert\(!price\.is_zero\(\)\); => assert(price@ != 0);
pub fn pack_to_funding_amount_per_size(adjustment: &N, funding_value: &N, open_interest: &N, price: &N, round_up_magnitude: bool) -> (r: Option<N>)
    requires price@ != 0
    ensures
        r.is_some() ==> r.unwrap()@ == pack_spec(adjustment@, funding_value@, open_interest@, price@, round_up_magnitude),
//@body

//@unit funding.unpack_to_funding_amount_delta
//@ file crates/model/src/action/update_funding_state.rs
//@ fn unpack_to_funding_amount_delta
//@ sig fn unpack_to_funding_amount_delta<T, const DECIMALS: u8>( adjustment: &T, latest_funding_amount_per_size: &T, position_funding_amount_per_size: &T, size_in_usd: &T, round_up_magnitude: bool, ) -> Option<T>
pub fn unpack_to_funding_amount_delta(adjustment: &N, latest_funding_amount_per_size: &N, position_funding_amount_per_size: &N, size_in_usd: &N, round_up_magnitude: bool) -> (r: Option<N>)
    ensures
        // a position never owes / claims anything for an index that moved backwards: that is an error
        r.is_some() ==> latest_funding_amount_per_size@ >= position_funding_amount_per_size@
            && r.unwrap()@ == unpack_spec(adjustment@, latest_funding_amount_per_size@ - position_funding_amount_per_size@, size_in_usd@, round_up_magnitude),
//@body

//@unit funding.flags_to_index
//@ file crates/model/src/action/update_funding_state.rs
//@ fn flags_to_index
//@ sig fn flags_to_index(is_long: bool, is_long_collateral: bool) -> usize
fn flags_to_index(is_long: bool, is_long_collateral: bool) -> (r: usize)
    ensures
        // four distinct slots, one per (side, collateral token)
        r < 4, r == (if is_long_collateral { 0int } else { 2int }) + (if is_long { 0int } else { 1int }),
//@body

//@struct crates/model/src/action/update_funding_state.rs :: pub struct UpdateFundingReport<Unsigned, Signed> :: duration_in_seconds, next_funding_factor_per_second, delta_funding_amount_per_size, delta_claimable_funding_amount_per_size
pub struct UpdateFundingReport { pub duration_in_seconds: u64, pub next_funding_factor_per_second: S, pub delta_funding_amount_per_size: [N; 4], pub delta_claimable_funding_amount_per_size: [N; 4] }
pub open spec fn slot(is_long: bool, is_long_collateral: bool) -> int { (if is_long_collateral { 0int } else { 2int }) + (if is_long { 0int } else { 1int }) }

/// two-sided pool read (`Balance::amount`)
#[derive(Clone, Copy)]
pub struct OiSides { pub long: N, pub short: N }
pub open spec fn oi_side(p: OiSides, is_long: bool) -> int { if is_long { p.long@ } else { p.short@ } }
impl OiSides {
    pub fn amount(&self, is_long: bool) -> (r: Result<N, E>) ensures r.is_ok() && r.unwrap()@ == oi_side(*self, is_long) { if is_long { Ok(self.long) } else { Ok(self.short) } }
}
/// carrier for `M: PerpMarket` as UpdateFundingState reads it: open interest per side (two-sided by collateral token), the adjustment
pub struct FMarket { pub oi_long: OiSides, pub oi_short: OiSides, pub adjustment: N }
impl FMarket {
    pub fn funding_amount_per_size_adjustment(&self) -> (r: N) ensures r == self.adjustment { self.adjustment }
    pub fn open_interest_pool(&self, is_long: bool) -> (r: Result<&OiSides, E>) ensures r.is_ok() && *r.unwrap() == (if is_long { self.oi_long } else { self.oi_short })
    { if is_long { Ok(&self.oi_long) } else { Ok(&self.oi_short) } }
}
pub struct UpdateFundingState { pub market: FMarket, pub prices: Prices }
impl UpdateFundingState {
//@unit funding.UpdateFundingState.set_deltas
//@ file crates/model/src/action/update_funding_state.rs
//@ within impl<M: PerpMarketMut<DECIMALS>, const DECIMALS: u8> UpdateFundingState<M, DECIMALS>
//@ fn set_deltas
//@ sig fn set_deltas( &self, report: &mut UpdateFundingReport<M::Num, <M::Num as Unsigned>::Signed>, longs_pay_shorts: bool, for_long_collateral: &M::Num, for_short_collateral: &M::Num, receiver_interest: &M::Num, ) -> crate::Result<()>
//@ loop 1: invariant _k21 <= 2, _arr21[0] == true, _arr21[1] == false, report.next_funding_factor_per_second == old(report).next_funding_factor_per_second, report.duration_in_seconds == old(report).duration_in_seconds, adjustment == self.market.adjustment, self.prices.long_token_price.max@ != 0, self.prices.short_token_price.max@ != 0, _k21 >= 1 ==> deltas_set(*self, *report, longs_pay_shorts, true, for_long_collateral@, receiver_interest@), _k21 >= 2 ==> deltas_set(*self, *report, longs_pay_shorts, false, for_short_collateral@, receiver_interest@), decreases 2 - _k21,
    fn set_deltas(&self, report: &mut UpdateFundingReport, longs_pay_shorts: bool, for_long_collateral: &N, for_short_collateral: &N, receiver_interest: &N) -> (r: Result<(), E>)
        requires self.prices.long_token_price.max@ != 0, self.prices.short_token_price.max@ != 0,
        ensures
            // for each collateral token: the payers' index moves by the value packed over the PAYER side's open interest in that token,
            // rounded UP; the receivers' claimable index by the SAME value at the SAME price over the receiver interest, rounded DOWN
            r.is_ok() ==> deltas_set(*self, *final(report), longs_pay_shorts, true, for_long_collateral@, receiver_interest@)
                && deltas_set(*self, *final(report), longs_pay_shorts, false, for_short_collateral@, receiver_interest@),
//@body
}
pub open spec fn deltas_set(u: UpdateFundingState, rep: UpdateFundingReport, longs_pay_shorts: bool, c: bool, funding_value: int, receiver_interest: int) -> bool {
    let price = if c { u.prices.long_token_price.max@ } else { u.prices.short_token_price.max@ };
    let payer_oi = oi_side(if longs_pay_shorts { u.market.oi_long } else { u.market.oi_short }, c);
    &&& rep.delta_funding_amount_per_size[slot(longs_pay_shorts, c)]@ == pack_spec(u.market.adjustment@, funding_value, payer_oi, price, true)
    &&& rep.delta_claimable_funding_amount_per_size[slot(!longs_pay_shorts, c)]@ == pack_spec(u.market.adjustment@, funding_value, receiver_interest, price, false)
}

} // verus!
