//@include inc/u256.rs
verus! {

// ---- leaf: impl MulDiv for u128 (via ruint U256, assumed contract inc/u256.rs) ---------------------
pub trait MulDivLeaf: Sized {
    spec fn val(&self) -> int;
    spec fn tmax() -> int;
    fn checked_mul_div(&self, numerator: &Self, denominator: &Self) -> (r: Option<Self>)
        ensures
            denominator.val() == 0 ==> r.is_none(),
            denominator.val() != 0 && mul_div_floor(self.val(), numerator.val(), denominator.val()) > Self::tmax() ==> r.is_none(),
            denominator.val() != 0 && mul_div_floor(self.val(), numerator.val(), denominator.val()) <= Self::tmax()
                ==> r.is_some() && r.unwrap().val() == mul_div_floor(self.val(), numerator.val(), denominator.val());
    fn checked_mul_div_ceil(&self, numerator: &Self, denominator: &Self) -> (r: Option<Self>)
        ensures
            denominator.val() == 0 ==> r.is_none(),
            denominator.val() != 0 && mul_div_ceil(self.val(), numerator.val(), denominator.val()) > Self::tmax() ==> r.is_none(),
            denominator.val() != 0 && mul_div_ceil(self.val(), numerator.val(), denominator.val()) <= Self::tmax()
                ==> r.is_some() && r.unwrap().val() == mul_div_ceil(self.val(), numerator.val(), denominator.val());
}

impl MulDivLeaf for u128 {
    open spec fn val(&self) -> int { *self as int }
    open spec fn tmax() -> int { u128::MAX as int }

//@unit C01.u128.checked_mul_div
//@ file crates/model/src/num.rs
//@ within mod u128 >> impl MulDiv for u128
//@ fn checked_mul_div
//@ sig fn checked_mul_div(&self, numerator: &Self, denominator: &Self) -> Option<Self>
//@ top :: proof { broadcast use axiom_u256_view, axiom_u256_range; lemma_mul_upper_bound(*self as int, u128::MAX as int, *numerator as int, u128::MAX as int); }
    fn checked_mul_div(&self, numerator: &Self, denominator: &Self) -> (r: Option<Self>)
//@body

//@unit C01.u128.checked_mul_div_ceil
//@ file crates/model/src/num.rs
//@ within mod u128 >> impl MulDiv for u128
//@ fn checked_mul_div_ceil
//@ sig fn checked_mul_div_ceil(&self, numerator: &Self, denominator: &Self) -> Option<Self>
//@ top :: proof { broadcast use axiom_u256_view, axiom_u256_range; lemma_mul_upper_bound(*self as int, u128::MAX as int, *numerator as int, u128::MAX as int); }
    fn checked_mul_div_ceil(&self, numerator: &Self, denominator: &Self) -> (r: Option<Self>)
//@body
}

} // verus!
