// ---- gmsol_model::params::fee (carriers R11 + extracted methods) --------------------------------
verus! {
//@struct crates/model/src/pool/delta.rs :: pub enum BalanceChange :: 
#[derive(Clone, Copy, Debug)]
pub enum BalanceChange { Improved, Worsened, Unchanged }

//@struct crates/model/src/params/fee.rs :: pub struct FeeParams<T> :: positive_impact_fee_factor, negative_impact_fee_factor, fee_receiver_factor, discount_factor
#[derive(Clone, Copy, Debug)]
pub struct FeeParams { pub positive_impact_fee_factor: N, pub negative_impact_fee_factor: N, pub fee_receiver_factor: N, pub discount_factor: Option<N> }

//@struct crates/model/src/params/fee.rs :: pub struct Fees<T> :: fee_amount_for_receiver, fee_amount_for_pool
#[derive(Clone, Copy, Debug)]
pub struct Fees { pub fee_amount_for_receiver: N, pub fee_amount_for_pool: N }

//@struct crates/model/src/params/fee.rs :: pub struct OrderFees<T> :: base, fee_value
#[derive(Clone, Copy, Debug)]
pub struct OrderFees { pub base: Fees, pub fee_value: N }

//@struct crates/model/src/params/fee.rs :: pub struct LiquidationFeeParams<T> :: factor, receiver_factor
#[derive(Clone, Copy, Debug)]
pub struct LiquidationFeeParams { pub factor: N, pub receiver_factor: N }

//@struct crates/model/src/params/fee.rs :: pub struct LiquidationFees<T> :: fee_value, fee_amount, fee_amount_for_receiver
#[derive(Clone, Copy, Debug)]
pub struct LiquidationFees { pub fee_value: N, pub fee_amount: N, pub fee_amount_for_receiver: N }

//@struct crates/model/src/params/fee.rs :: pub struct BorrowingFees<T> :: fee_amount, fee_amount_for_receiver
#[derive(Clone, Copy, Debug)]
pub struct BorrowingFees { pub fee_amount: N, pub fee_amount_for_receiver: N }

// `impl<T: Zero> Default for LiquidationFees<T>`: all-zero (three `Zero::zero()` fields).
pub trait DefaultZ: Sized { spec fn default_spec() -> Self; fn default() -> (r: Self) ensures r == Self::default_spec(); }
pub struct Default_;
impl DefaultZ for LiquidationFees {
    open spec fn default_spec() -> LiquidationFees { LiquidationFees { fee_value: N(0), fee_amount: N(0), fee_amount_for_receiver: N(0) } }
//@unit C02.LiquidationFees.default
//@ file crates/model/src/params/fee.rs
//@ within impl<T: Zero> Default for LiquidationFees<T>
//@ fn default
//@ sig fn default() -> Self
    fn default() -> (r: LiquidationFees)
//@body
}

// ---- spec of the fee (from the statement) ------------------------------------------------------
pub open spec fn fee_factor(p: FeeParams, bc: BalanceChange) -> int {
    match bc { BalanceChange::Improved => p.positive_impact_fee_factor@, _ => p.negative_impact_fee_factor@ }
}
pub open spec fn disc_factor(p: FeeParams) -> int { match p.discount_factor { Some(d) => d@, None => 0 } }
pub open spec fn gross_fee(p: FeeParams, bc: BalanceChange, amount: int) -> int { mul_div_floor(amount, fee_factor(p, bc), uunit()) }
pub open spec fn fee_spec(p: FeeParams, bc: BalanceChange, amount: int) -> int {
    gross_fee(p, bc, amount) - mul_div_floor(gross_fee(p, bc, amount), disc_factor(p), uunit())
}

impl Fees {
//@unit C02.Fees.new
//@ file crates/model/src/params/fee.rs
//@ within impl<T> Fees<T>
//@ fn new
//@ sig fn new(pool: T, receiver: T) -> Self
    pub fn new(pool: N, receiver: N) -> (r: Fees)
        ensures r.fee_amount_for_pool == pool, r.fee_amount_for_receiver == receiver
//@body
}

impl FeeParams {
//@unit C02.FeeParams.factor
//@ file crates/model/src/params/fee.rs
//@ within impl<T> FeeParams<T>
//@ fn factor
//@ sig fn factor(&self, balance_change: BalanceChange) -> &T
    pub fn factor(&self, balance_change: BalanceChange) -> (r: &N)
        ensures r@ == fee_factor(*self, balance_change),
//@body

//@unit C02.FeeParams.discount_factor
//@ file crates/model/src/params/fee.rs
//@ within impl<T> FeeParams<T>
//@ fn discount_factor
//@ sig fn discount_factor(&self) -> T
    pub fn discount_factor(&self) -> (r: N)
        ensures r@ == disc_factor(*self),
//@body

//@unit C02.FeeParams.fee
//@ file crates/model/src/params/fee.rs
//@ within impl<T> FeeParams<T>
//@ fn fee
//@ sig fn fee<const DECIMALS: u8>(&self, balance_change: BalanceChange, amount: &T) -> Option<T>
//@ sub utils::apply_factor => apply_factor
    pub fn fee(&self, balance_change: BalanceChange, amount: &N) -> (r: Option<N>)
        ensures
            // fee == floor(amount*F/U) - floor(floor(amount*F/U)*D/U); None exactly when an intermediate
            // does not fit or the discount exceeds the gross fee (only possible for D > 100%)
            r.is_some() <==> (gross_fee(*self, balance_change, amount@) <= umax()
                && mul_div_floor(gross_fee(*self, balance_change, amount@), disc_factor(*self), uunit()) <= gross_fee(*self, balance_change, amount@)),
            r.is_some() ==> r.unwrap()@ == fee_spec(*self, balance_change, amount@),
//@body

//@unit C02.FeeParams.receiver_fee
//@ file crates/model/src/params/fee.rs
//@ within impl<T> FeeParams<T>
//@ fn receiver_fee
//@ sig fn receiver_fee<const DECIMALS: u8>(&self, fee_amount: &T) -> Option<T>
//@ sub utils::apply_factor => apply_factor
    pub fn receiver_fee(&self, fee_amount: &N) -> (r: Option<N>)
        ensures r == fit_u(mul_div_floor(fee_amount@, self.fee_receiver_factor@, uunit())),
//@body

//@unit C02.FeeParams.apply_fees
//@ file crates/model/src/params/fee.rs
//@ within impl<T> FeeParams<T>
//@ fn apply_fees
//@ sig fn apply_fees<const DECIMALS: u8>( &self, balance_change: BalanceChange, amount: &T, ) -> Option<(T, Fees<T>)>
//@ top :: proof { lemma_fee_valid_config(*self, balance_change, amount@); }
    pub fn apply_fees(&self, balance_change: BalanceChange, amount: &N) -> (r: Option<(N, Fees)>)
        ensures
            // THE PROPERTY: exact split, for ALL factors (valid or not)
            r.is_some() ==> r.unwrap().0@ + r.unwrap().1.fee_amount_for_pool@ + r.unwrap().1.fee_amount_for_receiver@ == amount@,
            r.is_some() ==> r.unwrap().1.fee_amount_for_pool@ + r.unwrap().1.fee_amount_for_receiver@ == fee_spec(*self, balance_change, amount@),
            r.is_some() ==> fee_spec(*self, balance_change, amount@) <= amount@,
            r.is_some() ==> r.unwrap().1.fee_amount_for_receiver@ == mul_div_floor(fee_spec(*self, balance_change, amount@), self.fee_receiver_factor@, uunit()),
            // valid configuration (all factors <= 100%) always succeeds
            (fee_factor(*self, balance_change) <= uunit() && disc_factor(*self) <= uunit() && self.fee_receiver_factor@ <= uunit()) ==> r.is_some(),
//@body

//@unit C02.FeeParams.order_fees
//@ file crates/model/src/params/fee.rs
//@ within impl<T> FeeParams<T>
//@ fn order_fees
//@ sig fn order_fees<const DECIMALS: u8>( &self, collateral_token_price: &Price<T>, size_delta_usd: &T, balance_change: BalanceChange, ) -> crate::Result<OrderFees<T>>
    pub fn order_fees(&self, collateral_token_price: &Price, size_delta_usd: &N, balance_change: BalanceChange) -> (r: Result<OrderFees, E>)
        ensures
            (collateral_token_price.min@ == 0 || collateral_token_price.max@ == 0) ==> r.is_err(),
            r.is_ok() ==> r.unwrap().fee_value@ == fee_spec(*self, balance_change, size_delta_usd@),
            // fee amount = fee value / min price, rounded down; split exactly into pool + receiver
            r.is_ok() ==> r.unwrap().base.fee_amount_for_pool@ + r.unwrap().base.fee_amount_for_receiver@
                == fee_spec(*self, balance_change, size_delta_usd@) / collateral_token_price.min@,
            r.is_ok() ==> r.unwrap().base.fee_amount_for_receiver@
                == mul_div_floor(fee_spec(*self, balance_change, size_delta_usd@) / collateral_token_price.min@, self.fee_receiver_factor@, uunit()),
//@body
}

impl LiquidationFeeParams {
//@unit C02.LiquidationFeeParams.fee
//@ file crates/model/src/params/fee.rs
//@ within impl<T> LiquidationFeeParams<T>
//@ fn fee
//@ sig fn fee<const DECIMALS: u8>( &self, size_delta_usd: &T, collateral_token_price: &Price<T>, ) -> crate::Result<LiquidationFees<T>>
//@ sub utils::apply_factor => apply_factor
//@ sub Ok\(Default::default\(\)\) => Ok(LiquidationFees::default())
    pub fn fee(&self, size_delta_usd: &N, collateral_token_price: &Price) -> (r: Result<LiquidationFees, E>)
        ensures
            self.factor@ == 0 ==> r.is_ok() && r.unwrap().fee_amount@ == 0 && r.unwrap().fee_value@ == 0 && r.unwrap().fee_amount_for_receiver@ == 0,
            self.factor@ != 0 && r.is_ok() ==> r.unwrap().fee_value@ == mul_div_floor(size_delta_usd@, self.factor@, uunit()),
            // liquidation fee amount rounds UP (against the liquidated trader)
            self.factor@ != 0 && r.is_ok() ==> r.unwrap().fee_amount@ == div_ceil(r.unwrap().fee_value@, collateral_token_price.min@),
            self.factor@ != 0 && r.is_ok() ==> r.unwrap().fee_amount_for_receiver@ == mul_div_floor(r.unwrap().fee_amount@, self.receiver_factor@, uunit()),
            self.factor@ != 0 && collateral_token_price.min@ == 0 ==> r.is_err(),
//@body
}

impl LiquidationFees {
//@unit C02.LiquidationFees.fee_amount_for_pool
//@ file crates/model/src/params/fee.rs
//@ within impl<T> LiquidationFees<T>
//@ fn fee_amount_for_pool
//@ sig fn fee_amount_for_pool(&self) -> crate::Result<T>
    pub fn fee_amount_for_pool(&self) -> (r: Result<N, E>)
        ensures r.is_ok() <==> self.fee_amount_for_receiver@ <= self.fee_amount@,
                r.is_ok() ==> r.unwrap()@ + self.fee_amount_for_receiver@ == self.fee_amount@,
//@body
}
impl BorrowingFees {
//@unit C02.BorrowingFees.fee_amount_for_pool
//@ file crates/model/src/params/fee.rs
//@ within impl<T> BorrowingFees<T>
//@ fn fee_amount_for_pool
//@ sig fn fee_amount_for_pool(&self) -> crate::Result<T>
    pub fn fee_amount_for_pool(&self) -> (r: Result<N, E>)
        ensures r.is_ok() <==> self.fee_amount_for_receiver@ <= self.fee_amount@,
                r.is_ok() ==> r.unwrap()@ + self.fee_amount_for_receiver@ == self.fee_amount@,
//@body
}

// ---- lemmas carrying the remaining clauses of the statement ----------------------------------------
/// floor(x*f/U) <= x when f <= U
pub proof fn lemma_apply_factor_le(x: int, f: int)
    requires x >= 0, 0 <= f <= uunit()
    ensures 0 <= mul_div_floor(x, f, uunit()) <= x
{
    lemma_mul_inequality(f, uunit(), x);
    lemma_mul_is_commutative(x, f);
    lemma_mul_is_commutative(x, uunit());
    lemma_mul_nonnegative(x, f);
    lemma_div_is_ordered(x * f, x * uunit(), uunit());
    lemma_div_multiples_vanish(x, uunit());
    lemma_div_pos_bound(x * f, uunit());
}
/// floor(x*f/U) is monotone in f
pub proof fn lemma_apply_factor_mono(x: int, f1: int, f2: int)
    requires x >= 0, 0 <= f1 <= f2
    ensures mul_div_floor(x, f1, uunit()) <= mul_div_floor(x, f2, uunit())
{
    lemma_mul_inequality(f1, f2, x);
    lemma_mul_is_commutative(x, f1);
    lemma_mul_is_commutative(x, f2);
    lemma_div_is_ordered(x * f1, x * f2, uunit());
}
/// valid configuration (all factors <= 100%): the computation succeeds, fee <= amount, receiver <= fee
pub proof fn lemma_fee_valid_config(p: FeeParams, bc: BalanceChange, amount: int)
    requires 0 <= amount <= umax()
    ensures
        (fee_factor(p, bc) <= uunit() && disc_factor(p) <= uunit()) ==>
            0 <= fee_spec(p, bc, amount) <= gross_fee(p, bc, amount) <= amount,
        (fee_factor(p, bc) <= uunit() && disc_factor(p) <= uunit() && p.fee_receiver_factor@ <= uunit()) ==>
            0 <= mul_div_floor(fee_spec(p, bc, amount), p.fee_receiver_factor@, uunit()) <= fee_spec(p, bc, amount),
{
    if fee_factor(p, bc) <= uunit() && disc_factor(p) <= uunit() {
        lemma_apply_factor_le(amount, fee_factor(p, bc));
        lemma_apply_factor_le(gross_fee(p, bc, amount), disc_factor(p));
        if p.fee_receiver_factor@ <= uunit() {
            lemma_apply_factor_le(fee_spec(p, bc, amount), p.fee_receiver_factor@);
        }
    }
}
/// "a discount never raises the fee": the discounted fee is at most the undiscounted one, and a
/// larger discount gives a smaller-or-equal fee.
pub proof fn lemma_discount_never_raises(p: FeeParams, q: FeeParams, bc: BalanceChange, amount: int)
    requires amount >= 0,
        p.positive_impact_fee_factor == q.positive_impact_fee_factor, p.negative_impact_fee_factor == q.negative_impact_fee_factor,
        disc_factor(p) <= disc_factor(q),
    ensures fee_spec(q, bc, amount) <= fee_spec(p, bc, amount),
            fee_spec(p, bc, amount) <= gross_fee(p, bc, amount),
{
    let g = gross_fee(p, bc, amount);
    lemma_mul_nonnegative(amount, fee_factor(p, bc));
    lemma_div_pos_bound(amount * fee_factor(p, bc), uunit());
    lemma_apply_factor_mono(g, disc_factor(p), disc_factor(q));
    lemma_mul_nonnegative(g, disc_factor(p));
    lemma_div_pos_bound(g * disc_factor(p), uunit());
}
/// "invalid factors make the computation fail instead of producing a larger-than-input fee":
/// whenever the fee the formula yields would exceed the gross amount, `apply_fees` has no `Some`
/// result -- this is the third `ensures` of `apply_fees` (fee <= amount on every `Some`), restated.
pub proof fn lemma_invalid_factor_cannot_overcharge(p: FeeParams, bc: BalanceChange, amount: int, r: Option<(N, Fees)>)
    requires r.is_some() ==> fee_spec(p, bc, amount) <= amount,
             fee_spec(p, bc, amount) > amount,
    ensures r.is_none()
{}
} // verus!
