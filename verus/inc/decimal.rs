// ---- gmsol_utils::price::decimal::Decimal on the primitive types it is written on (C26; reused by C29) ----
// =================================================================================================
// C26  Price decimal conversion never rounds up and never silently truncates
//      gmsol_utils::price::decimal::Decimal on the primitive types it is written on.
// =================================================================================================
//@const crates/utils/src/price/decimal.rs :: MAX_DECIMALS :: u8 = 20
//@const crates/utils/src/price/decimal.rs :: MAX_DECIMAL_MULTIPLIER :: u8 = 20
verus! {
// ASSUMED std contract (vstd has none)
pub assume_specification [u128::div_ceil] (a: u128, b: u128) -> (r: u128)
    requires b != 0
    ensures r == (a as int + b as int - 1) / (b as int);

#[derive(Debug)]
pub enum DecimalError { ExceedMaxDecimals, ExceedMaxDecimalMultiplier, Overflow }

//@struct crates/utils/src/price/decimal.rs :: pub struct Decimal :: value, decimal_multiplier
#[derive(Clone, Copy, Debug)]
pub struct Decimal { pub value: u32, pub decimal_multiplier: u8 }

/// wf(Decimal): the multiplier never exceeds MAX_DECIMAL_MULTIPLIER (established by try_from_price)
pub open spec fn dec_wf(d: Decimal) -> bool { d.decimal_multiplier <= 20 }
/// unit price of a decimal (20 decimals)
pub open spec fn unit_price(d: Decimal) -> int { d.value as int * p10(d.decimal_multiplier as nat) }
/// the stored value named by the statement: the exact price scaled to `precision` decimals of a
/// token unit and TRUNCATED:  floor(price * 10^(precision - decimals))
pub open spec fn value_spec(price: int, decimals: int, precision: int) -> int {
    if precision >= decimals { price * p10((precision - decimals) as nat) } else { price / p10((decimals - precision) as nat) }
}

impl Decimal {
    pub const MAX_DECIMALS: u8 = 20;
    pub const MAX_DECIMAL_MULTIPLIER: u8 = 20;

//@unit C26.Decimal.multiplier
//@ file crates/utils/src/price/decimal.rs
//@ within impl Decimal
//@ fn multiplier
//@ sig fn multiplier(&self) -> u128
//@ top :: proof { lemma_p10_fits(self.decimal_multiplier as nat); }
    pub fn multiplier(&self) -> (r: u128)
        requires dec_wf(*self)
        ensures r == p10(self.decimal_multiplier as nat), r >= 1
//@body

//@unit C26.Decimal.to_unit_price
//@ file crates/utils/src/price/decimal.rs
//@ within impl Decimal
//@ fn to_unit_price
//@ sig fn to_unit_price(&self) -> u128
//@ top :: proof { lemma_p10_values(); lemma_p10_pos(self.decimal_multiplier as nat); lemma_p10_mono(self.decimal_multiplier as nat, 20); lemma_mul_upper_bound(self.value as int, u32::MAX as int, p10(self.decimal_multiplier as nat), p10(20)); }
    pub fn to_unit_price(&self) -> (r: u128)
        requires dec_wf(*self)
        ensures r == unit_price(*self)
//@body

//@unit C26.Decimal.with_unit_price
//@ file crates/utils/src/price/decimal.rs
//@ within impl Decimal
//@ fn with_unit_price
//@ sig fn with_unit_price(&self, price: u128, round_up: bool) -> Option<Self>
//@ sub price\.div\(multiplier\) => price / multiplier
    pub fn with_unit_price(&self, price: u128, round_up: bool) -> (r: Option<Decimal>)
        requires dec_wf(*self)
        ensures
            r.is_some() ==> r.unwrap().decimal_multiplier == self.decimal_multiplier,
            round_up ==> (r.is_some() <==> (price + p10(self.decimal_multiplier as nat) - 1) / p10(self.decimal_multiplier as nat) <= u32::MAX),
            round_up && r.is_some() ==> r.unwrap().value == (price + p10(self.decimal_multiplier as nat) - 1) / p10(self.decimal_multiplier as nat),
            !round_up ==> (r.is_some() <==> price as int / p10(self.decimal_multiplier as nat) <= u32::MAX),
            !round_up && r.is_some() ==> r.unwrap().value == price as int / p10(self.decimal_multiplier as nat),
//@body

//@unit C26.Decimal.decimal_multiplier_from_precision
//@ file crates/utils/src/price/decimal.rs
//@ within impl Decimal
//@ fn decimal_multiplier_from_precision
//@ sig fn decimal_multiplier_from_precision(decimals: u8, precision: u8) -> u8
    pub const fn decimal_multiplier_from_precision(decimals: u8, precision: u8) -> (r: u8)
        requires decimals + precision <= 20
        ensures r == 20 - decimals - precision
//@body

//@unit C26.Decimal.try_from_price
//@ file crates/utils/src/price/decimal.rs
//@ within impl Decimal
//@ fn try_from_price
//@ sig fn try_from_price( mut price: u128, decimals: u8, token_decimals: u8, precision: u8, ) -> Result<Self, DecimalError>
//@ before let divisor_exp = match decimals.cmp(&token_decimals) { :: let ghost price0 = price as int; proof { lemma_p10_values(); assert forall|e: nat| e <= 38 implies 1 <= #[trigger] ipow(10, e) <= u128::MAX by { lemma_p10_fits(e); } }
//@ before let multiplier = 10u128.pow((token_decimals - decimals) as u32); :: proof { lemma_p10_fits((token_decimals - decimals) as nat); }
//@ before price = price :: proof { if price0 * p10((token_decimals - decimals) as nat) > u128::MAX && token_decimals + precision <= 20 { lemma_scale_overflow(price0, decimals as int, token_decimals as int, precision as int); } }
//@ before let multiplier = (token_decimals << 1) + decimal_multiplier; :: proof { assert((token_decimals << 1u8) == 2u8 * token_decimals) by(bit_vector) requires token_decimals <= 20u8; lemma_try_from_price_cases(price0, price as int, decimals as int, token_decimals as int, precision as int); }
    pub fn try_from_price(mut price: u128, decimals: u8, token_decimals: u8, precision: u8) -> (r: Result<Decimal, DecimalError>)
        ensures
            // decimal settings beyond the supported maximum => error
            (token_decimals > 20 || precision > 20 || decimals > 20 || token_decimals + precision > 20) ==> r.is_err(),
            // accepted => EXACTLY the truncated value (never rounded up, never a wrong price)
            r.is_ok() ==> r.unwrap().value == value_spec(price as int, decimals as int, precision as int),
            r.is_ok() ==> r.unwrap().decimal_multiplier == 20 - token_decimals - precision && dec_wf(r.unwrap()),
            // hence: a price that cannot be represented in u32 at this precision is an error
            value_spec(price as int, decimals as int, precision as int) > u32::MAX ==> r.is_err(),
            // and ONLY those: supported settings and a representable value always convert
            (token_decimals <= 20 && precision <= 20 && decimals <= 20 && token_decimals + precision <= 20
                && value_spec(price as int, decimals as int, precision as int) <= u32::MAX) ==> r.is_ok(),
//@body
}

/// All arithmetic paths of `try_from_price` land on `value_spec` (d = decimals, t = token decimals,
/// p = precision; price1 = price * 10^(t-d) when d < t, else price).
pub proof fn lemma_try_from_price_cases(price0: int, price1: int, d: int, t: int, p: int)
    requires
        0 <= price0, 0 <= d <= 20, 0 <= t <= 20, 0 <= p <= 20, t + p <= 20,
        d < t ==> price1 == price0 * p10((t - d) as nat),
        d >= t ==> price1 == price0,
    ensures
        // 20 >= 2t + m  (i.e. t <= p), no divisor:            price1 * 10^(p - t)
        (d <= t && t <= p) ==> price1 * p10((p - t) as nat) == value_spec(price0, d, p),
        // t > p, no divisor:                                   price1 / 10^(t - p)
        (d <= t && t > p) ==> price1 / p10((t - p) as nat) == value_spec(price0, d, p),
        // d > t, t <= p, exp >= divisor_exp (p - t >= d - t):  price1 * 10^(p - d)
        (d > t && t <= p && p >= d) ==> price1 * p10((p - d) as nat) == value_spec(price0, d, p),
        // d > t, t <= p, exp < divisor_exp:                    price1 / 10^(d - p)
        (d > t && t <= p && p < d) ==> price1 / p10((d - p) as nat) == value_spec(price0, d, p),
        // d > t, t > p:                                        (price1 / 10^(t - p)) / 10^(d - t)
        (d > t && t > p) ==> (price1 / p10((t - p) as nat)) / p10((d - t) as nat) == value_spec(price0, d, p),
{
    if d <= t && t <= p {
        if d < t {
            lemma_p10_add((t - d) as nat, (p - t) as nat);
            assert(price0 * p10((t - d) as nat) * p10((p - t) as nat) == price0 * (p10((t - d) as nat) * p10((p - t) as nat))) by(nonlinear_arith);
        }
    }
    if d <= t && t > p {
        lemma_p10_pos((t - p) as nat);
        if d < t {
            if p >= d {
                // price0 * 10^(t-d) / 10^(t-p) = price0 * 10^(p-d)
                lemma_p10_add((p - d) as nat, (t - p) as nat);
                assert(price0 * p10((t - d) as nat) == (price0 * p10((p - d) as nat)) * p10((t - p) as nat)) by(nonlinear_arith)
                    requires p10((t - d) as nat) == p10((p - d) as nat) * p10((t - p) as nat);
                lemma_div_multiples_vanish(price0 * p10((p - d) as nat), p10((t - p) as nat));
            } else {
                // price0 * 10^(t-d) / 10^(t-p) = price0 / 10^(d-p)   with t-p = (t-d) + (d-p)
                lemma_p10_add((t - d) as nat, (d - p) as nat);
                lemma_p10_pos((t - d) as nat); lemma_p10_pos((d - p) as nat);
                lemma_mul_is_commutative(price0, p10((t - d) as nat));
                lemma_truncate_middle(price0, p10((t - d) as nat), p10((d - p) as nat));
                lemma_mul_is_commutative(p10((t - d) as nat), p10((d - p) as nat));
                // (b*x) / (b*c) == x / c
                lemma_div_multiples_cancel(price0, p10((t - d) as nat), p10((d - p) as nat));
            }
        }
    }
    if d > t && t > p {
        lemma_p10_pos((t - p) as nat); lemma_p10_pos((d - t) as nat);
        lemma_p10_add((t - p) as nat, (d - t) as nat);
        lemma_div_denominator(price1, p10((t - p) as nat), p10((d - t) as nat));
    }
}


/// The only intermediate overflow of the d < t branch (price * 10^(t-d) > u128::MAX) happens only
/// for prices whose stored value cannot be represented anyway: the error is not a lost price.
pub proof fn lemma_scale_overflow(price0: int, d: int, t: int, p: int)
    requires 0 <= price0, 0 <= d < t <= 20, 0 <= p <= 20, t + p <= 20,
             price0 * p10((t - d) as nat) > u128::MAX
    ensures value_spec(price0, d, p) > u32::MAX
{
    let v = value_spec(price0, d, p);
    lemma_p10_values();
    lemma_p10_pos(p as nat); lemma_p10_pos(d as nat); lemma_p10_pos((t - d) as nat); lemma_p10_pos(t as nat);
    // (v + 1) * 10^d > price0 * 10^p
    if p >= d {
        lemma_p10_add((p - d) as nat, d as nat);
        assert(v * p10(d as nat) == price0 * p10(p as nat)) by(nonlinear_arith)
            requires v == price0 * p10((p - d) as nat), p10(p as nat) == p10((p - d) as nat) * p10(d as nat);
        assert((v + 1) * p10(d as nat) > price0 * p10(p as nat)) by(nonlinear_arith)
            requires v * p10(d as nat) == price0 * p10(p as nat), p10(d as nat) >= 1;
    } else {
        lemma_truncation_bounds(price0, d, p);
        lemma_p10_add((d - p) as nat, p as nat);
        assert((v + 1) * p10(d as nat) > price0 * p10(p as nat)) by(nonlinear_arith)
            requires price0 < (v + 1) * p10((d - p) as nat), p10(d as nat) == p10((d - p) as nat) * p10(p as nat), p10(p as nat) >= 1;
    }
    assert(price0 * p10(p as nat) >= price0) by(nonlinear_arith) requires price0 >= 0, p10(p as nat) >= 1;
    lemma_p10_add(d as nat, (t - d) as nat);
    assert((v + 1) * p10(t as nat) > price0 * p10((t - d) as nat)) by(nonlinear_arith)
        requires (v + 1) * p10(d as nat) > price0, price0 >= 0, p10((t - d) as nat) >= 1, p10(t as nat) == p10(d as nat) * p10((t - d) as nat);
    lemma_p10_mono(t as nat, 20);
    if v <= u32::MAX {
        assert((v + 1) * p10(t as nat) <= 0x1_0000_0000 * 100000000000000000000) by(nonlinear_arith)
            requires v + 1 <= 0x1_0000_0000, 1 <= p10(t as nat) <= 100000000000000000000;
        assert(false);
    }
}

/// (b*x) / (b*c) == x / c   for b, c > 0, x >= 0
pub proof fn lemma_div_multiples_cancel(x: int, b: int, c: int)
    requires x >= 0, b > 0, c > 0
    ensures (b * x) / (b * c) == x / c
{
    lemma_truncate_middle(x, b, c);
    lemma_mod_breakdown(x, b, c);
    // (b*x) / (b*c): use div_denominator: (b*x)/b/c = x/c
    lemma_div_denominator(b * x, b, c);
    lemma_div_multiples_vanish(x, b);
    lemma_mul_is_commutative(b, x);
}

/// "never rounds up and is off by less than one precision step":
/// for v = value_spec: p >= d: exact;  p < d:  v * 10^(d-p) <= price < (v+1) * 10^(d-p)
pub proof fn lemma_truncation_bounds(price: int, d: int, p: int)
    requires price >= 0, 0 <= d <= 20, 0 <= p <= 20
    ensures
        p < d ==> value_spec(price, d, p) * p10((d - p) as nat) <= price < (value_spec(price, d, p) + 1) * p10((d - p) as nat),
{
    if p < d {
        let k = p10((d - p) as nat);
        lemma_p10_pos((d - p) as nat);
        lemma_fundamental_div_mod(price, k);
        lemma_mod_bound(price, k);
        lemma_mul_is_commutative(price / k, k);
        assert((price / k + 1) * k == (price / k) * k + k) by(nonlinear_arith);
    }
}
} // verus!
