// ---- gmsol_model::fixed::Fixed<T, DECIMALS> at the instance (data carrier R11; comparison impls
//      stand for the `#[derive(PartialEq, Eq, PartialOrd, Ord)]` on the one-field tuple struct) ----
verus! {
#[derive(Clone, Copy, Eq, Debug)]
pub struct Fixed(pub N);
impl View for Fixed { type V = int; open spec fn view(&self) -> int { self.0@ } }
impl PartialEqSpecImpl for Fixed {
    open spec fn obeys_eq_spec() -> bool { true }
    open spec fn eq_spec(&self, other: &Fixed) -> bool { self.0.0 == other.0.0 }
}
impl PartialEq for Fixed { fn eq(&self, other: &Fixed) -> (r: bool) { self.0.0 == other.0.0 } }
impl PartialOrdSpecImpl for Fixed {
    open spec fn obeys_partial_cmp_spec() -> bool { true }
    open spec fn partial_cmp_spec(&self, other: &Fixed) -> Option<Ordering> {
        if self.0.0 < other.0.0 { Some(Ordering::Less) } else if self.0.0 == other.0.0 { Some(Ordering::Equal) } else { Some(Ordering::Greater) }
    }
}
impl PartialOrd for Fixed {
    fn partial_cmp(&self, other: &Fixed) -> (r: Option<Ordering>) {
        if self.0.0 < other.0.0 { Some(Ordering::Less) } else if self.0.0 == other.0.0 { Some(Ordering::Equal) } else { Some(Ordering::Greater) }
    }
}
impl OrdSpecImpl for Fixed {
    open spec fn obeys_cmp_spec() -> bool { true }
    open spec fn cmp_spec(&self, other: &Fixed) -> Ordering {
        if self.0.0 < other.0.0 { Ordering::Less } else if self.0.0 == other.0.0 { Ordering::Equal } else { Ordering::Greater }
    }
}
impl Ord for Fixed {
    fn cmp(&self, other: &Fixed) -> (r: Ordering) {
        if self.0.0 < other.0.0 { Ordering::Less } else if self.0.0 == other.0.0 { Ordering::Equal } else { Ordering::Greater }
    }
}

/// The non-unit-exponent branch of `checked_pow_fixed` (rust_decimal `powd`, closures): OUT OF
/// REACH, left unspecified (any result). The code documents it as inconsistent and to be avoided.
#[verifier::external_body]
pub fn pow_fixed_non_unit(base: &N, exponent: &N) -> (r: Option<N>)
    requires exponent@ % uunit() != 0
{ unimplemented!() }

pub proof fn lemma_pow_fixed_fits_mono(b: int, j: nat, k: nat)
    requires j <= k, pow_fixed_fits(b, k)
    ensures pow_fixed_fits(b, j)
    decreases k
{
    if j < k { lemma_pow_fixed_fits_mono(b, j, (k - 1) as nat); }
}

impl Fixed {
    pub const ONE: Fixed = Fixed(N::UNIT);

//@unit C01.W.Fixed.from_inner
//@ file crates/model/src/fixed.rs
//@ within impl<T, const DECIMALS: u8> Fixed<T, DECIMALS>
//@ fn from_inner
//@ sig fn from_inner(inner: T) -> Self
    pub fn from_inner(inner: N) -> (r: Fixed) ensures r.0 == inner
//@body

//@unit C01.W.Fixed.into_inner
//@ file crates/model/src/fixed.rs
//@ within impl<T, const DECIMALS: u8> Fixed<T, DECIMALS>
//@ fn into_inner
//@ sig fn into_inner(self) -> T
    pub fn into_inner(self) -> (r: N) ensures r == self.0
//@body

//@unit C01.W.Fixed.is_zero
//@ file crates/model/src/fixed.rs
//@ within impl<T: FixedPointOps<DECIMALS>, const DECIMALS: u8> Zero for Fixed<T, DECIMALS>
//@ fn is_zero
//@ sig fn is_zero(&self) -> bool
    pub fn is_zero(&self) -> (r: bool) ensures r == (self@ == 0)
//@body

//@unit C01.W.Fixed.is_one
//@ file crates/model/src/fixed.rs
//@ within impl<T: FixedPointOps<DECIMALS>, const DECIMALS: u8> One for Fixed<T, DECIMALS>
//@ fn is_one
//@ sig fn is_one(&self) -> bool
    pub fn is_one(&self) -> (r: bool) ensures r == (self@ == uunit())
//@body

//@unit C01.W.Fixed.checked_mul
//@ file crates/model/src/fixed.rs
//@ within impl<T: FixedPointOps<DECIMALS>, const DECIMALS: u8> CheckedMul for Fixed<T, DECIMALS>
//@ fn checked_mul
//@ sig fn checked_mul(&self, v: &Self) -> Option<Self>
    pub fn checked_mul(&self, v: &Fixed) -> (r: Option<Fixed>)
        ensures
            r.is_some() <==> mul_div_floor(self@, v@, uunit()) <= umax(),
            r.is_some() ==> r.unwrap()@ == mul_div_floor(self@, v@, uunit()),
//@body

//@unit C01.W.Fixed.checked_pow
//@ file crates/model/src/fixed.rs
//@ within impl<T: FixedPointOps<DECIMALS>, const DECIMALS: u8> Fixed<T, DECIMALS>
//@ fn checked_pow
//@ sig fn checked_pow(&self, exponent: &Self) -> Option<Self>
    pub fn checked_pow(&self, exponent: &Fixed) -> (r: Option<Fixed>)
        ensures
            exponent@ % uunit() == 0 ==> (r.is_some() <==> pow_fixed_fits(self@, (exponent@ / uunit()) as nat)),
            exponent@ % uunit() == 0 && r.is_some() ==> r.unwrap()@ == pow_fixed(self@, (exponent@ / uunit()) as nat),
//@body
}

impl Zero for Fixed {
    open spec fn zero_spec() -> Fixed { Fixed(N(0)) }
//@unit C01.W.Fixed.zero
//@ file crates/model/src/fixed.rs
//@ within impl<T: FixedPointOps<DECIMALS>, const DECIMALS: u8> Zero for Fixed<T, DECIMALS>
//@ fn zero
//@ sig fn zero() -> Self
    fn zero() -> (r: Fixed)
//@body
}
impl One for Fixed {
    open spec fn one_spec() -> Fixed { Fixed(N(UNITVAL)) }
//@unit C01.W.Fixed.one
//@ file crates/model/src/fixed.rs
//@ within impl<T: FixedPointOps<DECIMALS>, const DECIMALS: u8> One for Fixed<T, DECIMALS>
//@ fn one
//@ sig fn one() -> Self
    fn one() -> (r: Fixed)
//@body
}

impl N {
//@unit C01.W.checked_pow_fixed
//@ file crates/model/src/fixed.rs
//@ within impl<const DECIMALS: u8> FixedPointOps<DECIMALS> for UW
//@ fn checked_pow_fixed
//@ sig fn checked_pow_fixed(&self, exponent: &Self) -> Option<Self>
//@ sub <Self as FixedPointOps<DECIMALS>>::UNIT => N::UNIT
//@ sub Fixed::<Self, DECIMALS>:: => Fixed::
//@ sub \*exponent % unit == 0 => exponent.0 % unit.0 == 0
//@ sub let exp = exponent / unit; => let exp = exponent.0 / unit.0;
//@ sub from_inner\(\*self\) => from_inner(*self); assert(pow_fixed_fits(self@, 0nat))
//@ cut_after return Some(ans.0); } :: pow_fixed_non_unit(self, exponent)
//@ loop 1: invariant base.0 == *self, ans@ == pow_fixed(self@, _it as nat), pow_fixed_fits(self@, _it as nat), exp as int == exponent@ / uunit(), exponent@ % uunit() == 0,
//@ before ans = ans.checked_mul(&base)?; :: proof { if mul_div_floor(ans@, base@, uunit()) > umax() { assert(!pow_fixed_fits(self@, (_it + 1) as nat)); if pow_fixed_fits(self@, exp as nat) { lemma_pow_fixed_fits_mono(self@, (_it + 1) as nat, exp as nat); } } }
    pub fn checked_pow_fixed(&self, exponent: &N) -> (r: Option<N>)
        ensures
            exponent@ % uunit() == 0 ==> (r.is_some() <==> pow_fixed_fits(self@, (exponent@ / uunit()) as nat)),
            exponent@ % uunit() == 0 && r.is_some() ==> r.unwrap()@ == pow_fixed(self@, (exponent@ / uunit()) as nat),
//@body
}
} // verus!
