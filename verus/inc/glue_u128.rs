// ---- glue for code written on the concrete `u128` (programs/store): `T = u128` ---------------------
// Each function forwards to the N-level function whose body is extracted and verified above
// (monomorphisation R1: `u128` IS the `T` of the generic code). Trusted: only the forwarding.
verus! {
pub const MARKET_USD_UNIT: u128 = UNITVAL;

pub fn apply_factor_p(value: &u128, factor: &u128) -> (r: Option<u128>)
    ensures
        mul_div_floor(*value as int, *factor as int, uunit()) <= umax() ==> r == Some(mul_div_floor(*value as int, *factor as int, uunit()) as u128),
        mul_div_floor(*value as int, *factor as int, uunit()) > umax() ==> r.is_none(),
{
    proof { lemma_mul_nonnegative(*value as int, *factor as int); lemma_div_pos_bound(*value as int * *factor as int, uunit()); }
    match apply_factor(&N(*value), &N(*factor)) { Some(x) => Some(x.0), None => None }
}

pub trait UnsignedP: Sized {
    spec fn pv(&self) -> int;
    fn checked_round_up_div(&self, divisor: &Self) -> (r: Option<Self>)
        ensures
            r.is_some() <==> (divisor.pv() != 0 && self.pv() + divisor.pv() <= umax()),
            r.is_some() ==> r.unwrap().pv() == div_ceil(self.pv(), divisor.pv());
}
impl UnsignedP for u128 {
    open spec fn pv(&self) -> int { *self as int }
    fn checked_round_up_div(&self, divisor: &u128) -> (r: Option<u128>)
    {
        match N(*self).checked_round_up_div(&N(*divisor)) { Some(x) => Some(x.0), None => None }
    }
}

//@struct crates/model/src/price.rs :: pub struct Price<T> :: min, max
#[derive(Clone, Copy, Debug)]
pub struct PriceP { pub min: u128, pub max: u128 }
impl PriceP {
//@unit glue.PriceP.pick_price
//@ file crates/model/src/price.rs
//@ within impl<T> Price<T> where T: Ord,
//@ fn pick_price
//@ sig fn pick_price(&self, maximize: bool) -> &T
    pub fn pick_price(&self, maximize: bool) -> (r: &u128)
        ensures *r == (if maximize { self.max } else { self.min })
//@body
}
} // verus!
