// ---- shared by verus/C07.rs and verus/C07_decrease.rs: tracked pools, position carrier, the two open-interest units ----
verus! {
//@struct crates/model/src/price.rs :: pub struct Prices<T> :: index_token_price, long_token_price, short_token_price
#[derive(Clone, Copy)]
pub struct Prices { pub index_token_price: Price, pub long_token_price: Price, pub short_token_price: Price }
//@struct crates/model/src/pool/delta.rs :: pub enum BalanceChange ::
#[derive(Clone, Copy)]
pub enum BalanceChange { Improved, Worsened, Unchanged }
//@struct crates/model/src/pool/delta.rs :: pub struct PriceImpact<T> :: value, balance_change
pub struct PriceImpact { pub value: S, pub balance_change: BalanceChange }

/// A two-sided pool (`Self::Pool`); for the per-side pools of a perp market the two sides are the two COLLATERAL tokens.
#[derive(Clone, Copy)]
pub struct Sides { pub long: N, pub short: N }
pub open spec fn side(p: Sides, is_long: bool) -> int { if is_long { p.long@ } else { p.short@ } }
impl Sides {
    pub fn long_amount(&self) -> (r: Result<N, E>) ensures r.is_ok() && r.unwrap() == self.long { Ok(self.long) }
    pub fn short_amount(&self) -> (r: Result<N, E>) ensures r.is_ok() && r.unwrap() == self.short { Ok(self.short) }
    /// contract of the required trait methods `Pool::apply_delta_to_long_amount / _short_amount` (store-side pool: C15)
    pub fn apply_delta_to_long_amount(&mut self, delta: &S) -> (r: Result<(), E>)
        ensures r.is_ok() == (0 <= old(self).long@ + delta@ <= umax()),
            r.is_ok() ==> final(self).long@ == old(self).long@ + delta@ && final(self).short == old(self).short,
            r.is_err() ==> *final(self) == *old(self),
    { match self.long.checked_add_with_signed(delta) { Some(v) => { self.long = v; Ok(()) } None => Err(E::Computation) } }
    pub fn apply_delta_to_short_amount(&mut self, delta: &S) -> (r: Result<(), E>)
        ensures r.is_ok() == (0 <= old(self).short@ + delta@ <= umax()),
            r.is_ok() ==> final(self).short@ == old(self).short@ + delta@ && final(self).long == old(self).long,
            r.is_err() ==> *final(self) == *old(self),
    { match self.short.checked_add_with_signed(delta) { Some(v) => { self.short = v; Ok(()) } None => Err(E::Computation) } }
    /// `PoolExt::apply_delta_amount` (under contract in C13)
    pub fn apply_delta_amount(&mut self, is_long: bool, delta: &S) -> (r: Result<(), E>)
        ensures r.is_ok() ==> side(*final(self), is_long) == side(*old(self), is_long) + delta@ && side(*final(self), !is_long) == side(*old(self), !is_long),
            r.is_err() ==> *final(self) == *old(self),
    { if is_long { self.apply_delta_to_long_amount(delta) } else { self.apply_delta_to_short_amount(delta) } }
}

/// The six pools C07 is about (by position side; the two sides of each pool are the two collateral tokens), plus everything
/// else of the market as one opaque value.
#[derive(Clone, Copy)]
pub struct Tracked { pub oi_long: Sides, pub oi_short: Sides, pub oit_long: Sides, pub oit_short: Sides, pub col_long: Sides, pub col_short: Sides }
pub struct PMarket { pub t: Tracked, pub rest: u64 }
pub open spec fn oi(m: PMarket, is_long: bool, c: bool) -> int { side(if is_long { m.t.oi_long } else { m.t.oi_short }, c) }
pub open spec fn oit(m: PMarket, is_long: bool, c: bool) -> int { side(if is_long { m.t.oit_long } else { m.t.oit_short }, c) }
pub open spec fn col(m: PMarket, is_long: bool, c: bool) -> int { side(if is_long { m.t.col_long } else { m.t.col_short }, c) }
impl PMarket {
    pub fn open_interest_pool_mut(&mut self, is_long: bool) -> (r: Result<&mut Sides, E>)
        ensures r.is_ok(), *r.unwrap() == (if is_long { old(self).t.oi_long } else { old(self).t.oi_short }),
            is_long ==> *final(self) == (PMarket { t: Tracked { oi_long: *final(r.unwrap()), ..old(self).t }, ..*old(self) }),
            !is_long ==> *final(self) == (PMarket { t: Tracked { oi_short: *final(r.unwrap()), ..old(self).t }, ..*old(self) }),
    { if is_long { Ok(&mut self.t.oi_long) } else { Ok(&mut self.t.oi_short) } }
    pub fn open_interest_in_tokens_pool_mut(&mut self, is_long: bool) -> (r: Result<&mut Sides, E>)
        ensures r.is_ok(), *r.unwrap() == (if is_long { old(self).t.oit_long } else { old(self).t.oit_short }),
            is_long ==> *final(self) == (PMarket { t: Tracked { oit_long: *final(r.unwrap()), ..old(self).t }, ..*old(self) }),
            !is_long ==> *final(self) == (PMarket { t: Tracked { oit_short: *final(r.unwrap()), ..old(self).t }, ..*old(self) }),
    { if is_long { Ok(&mut self.t.oit_long) } else { Ok(&mut self.t.oit_short) } }
    pub fn collateral_sum_pool_mut(&mut self, is_long: bool) -> (r: Result<&mut Sides, E>)
        ensures r.is_ok(), *r.unwrap() == (if is_long { old(self).t.col_long } else { old(self).t.col_short }),
            is_long ==> *final(self) == (PMarket { t: Tracked { col_long: *final(r.unwrap()), ..old(self).t }, ..*old(self) }),
            !is_long ==> *final(self) == (PMarket { t: Tracked { col_short: *final(r.unwrap()), ..old(self).t }, ..*old(self) }),
    { if is_long { Ok(&mut self.t.col_long) } else { Ok(&mut self.t.col_short) } }
    /// ASSUMED: reads and writes that do not touch the tracked pools
    #[verifier::external_body]
    pub fn max_open_interest(&self, is_long: bool) -> (r: Result<N, E>) { unimplemented!() }
    #[verifier::external_body]
    pub fn virtual_inventory_for_positions_apply(&mut self, is_long: bool, delta: &S) -> (r: Result<(), E>)
        ensures final(self).t == old(self).t
    { unimplemented!() }
    #[verifier::external_body]
    pub fn apply_delta_to_position_impact_pool(&mut self, delta: &S) -> (r: Result<(), E>) ensures final(self).t == old(self).t { unimplemented!() }
    #[verifier::external_body]
    pub fn apply_delta_to_claimable_fee_pool(&mut self, is_long_collateral: bool, delta: &S) -> (r: Result<(), E>) ensures final(self).t == old(self).t { unimplemented!() }
    #[verifier::external_body]
    pub fn apply_delta(&mut self, is_long_token: bool, delta: &S) -> (r: Result<(), E>) ensures final(self).t == old(self).t { unimplemented!() }
    #[verifier::external_body]
    pub fn cumulative_borrowing_factor(&self, is_long: bool) -> (r: Result<N, E>) { unimplemented!() }
    #[verifier::external_body]
    pub fn funding_fee_amount_per_size(&self, is_long: bool, is_long_collateral: bool) -> (r: Result<N, E>) { unimplemented!() }
    #[verifier::external_body]
    pub fn claimable_funding_fee_amount_per_size(&self, is_long: bool, is_long_collateral: bool) -> (r: Result<N, E>) { unimplemented!() }
    #[verifier::external_body]
    pub fn validate_reserve(&self, prices: &Prices, is_long: bool) -> (r: Result<(), E>) { unimplemented!() }
    #[verifier::external_body]
    pub fn validate_open_interest_reserve(&self, prices: &Prices, is_long: bool) -> (r: Result<(), E>) { unimplemented!() }

//@unit C07.PerpMarketMutExt.apply_delta_to_open_interest
//@ file crates/model/src/market/perp.rs
//@ within pub trait PerpMarketMutExt<const DECIMALS: u8>: PerpMarketMut<DECIMALS>
//@ fn apply_delta_to_open_interest
//@ sig fn apply_delta_to_open_interest( &mut self, is_long: bool, is_long_collateral: bool, delta: &Self::Signed, ) -> crate::Result<()>
//@ cut_after return Err(E::MaxOpenInterestExceeded); } } :: self.virtual_inventory_for_positions_apply(is_long, delta)?; Ok(())
//@ sub \.map\(\|total\| total > max_open_interest\) => .map(|total: N| -> (o: bool) ensures o == (total@ > max_open_interest@) { total > max_open_interest })
    pub fn apply_delta_to_open_interest(&mut self, is_long: bool, is_long_collateral: bool, delta: &S) -> (r: Result<(), E>)
        ensures
            // exactly the open interest of that side and collateral token moves, by exactly the delta
            r.is_ok() ==> oi(*final(self), is_long, is_long_collateral) == oi(*old(self), is_long, is_long_collateral) + delta@
                && oi(*final(self), is_long, !is_long_collateral) == oi(*old(self), is_long, !is_long_collateral)
                && oi(*final(self), !is_long, true) == oi(*old(self), !is_long, true) && oi(*final(self), !is_long, false) == oi(*old(self), !is_long, false)
                && final(self).t.oit_long == old(self).t.oit_long && final(self).t.oit_short == old(self).t.oit_short
                && final(self).t.col_long == old(self).t.col_long && final(self).t.col_short == old(self).t.col_short,
//@body
}

/// one call of update_total_borrowing: the size and borrowing factor the position still HELD when it was called, and the ones announced
pub struct TbUpdate { pub prev_size: N, pub prev_factor: N, pub next_size: N, pub next_factor: N }
/// Carrier for `Self: PositionMut` (state + the market it belongs to); `tb_log` is a ghost log of the total-borrowing updates
pub struct Pos {
    pub long: bool, pub collateral_long: bool,
    pub collateral_amount: N, pub size_in_usd: N, pub size_in_tokens: N, pub borrowing_factor: N, pub funding_fee_amount_per_size: N,
    pub claimable_long: N, pub claimable_short: N, pub mkt: PMarket, pub tb_log: Ghost<Seq<TbUpdate>>,
}
/// wf(position): an empty position has no tokens either (established by initialize_position_if_empty and by every close)
pub open spec fn pos_wf(p: Pos) -> bool { (p.size_in_usd@ == 0) == (p.size_in_tokens@ == 0) }
impl Pos {
    pub fn is_long(&self) -> (r: bool) ensures r == self.long { self.long }
    pub fn is_collateral_token_long(&self) -> (r: bool) ensures r == self.collateral_long { self.collateral_long }
    pub fn size_in_usd(&self) -> (r: &N) ensures *r == self.size_in_usd { &self.size_in_usd }
    pub fn collateral_amount(&self) -> (r: &N) ensures *r == self.collateral_amount { &self.collateral_amount }
    pub fn size_in_tokens(&self) -> (r: &N) ensures *r == self.size_in_tokens { &self.size_in_tokens }
    #[verifier::external_body]
    pub fn are_pnl_and_collateral_tokens_the_same(&self) -> (r: bool) { unimplemented!() }
    #[verifier::external_body]
    pub fn on_decreased(&mut self) -> (r: Result<(), E>) ensures *final(self) == *old(self) { unimplemented!() }
    pub fn market(&self) -> (r: &PMarket) ensures *r == self.mkt { &self.mkt }
    pub fn market_mut(&mut self) -> (r: &mut PMarket) ensures *r == old(self).mkt, *final(self) == (Pos { mkt: *final(r), ..*old(self) }) { &mut self.mkt }
    pub fn size_in_usd_mut(&mut self) -> (r: &mut N) ensures *r == old(self).size_in_usd, *final(self) == (Pos { size_in_usd: *final(r), ..*old(self) }) { &mut self.size_in_usd }
    pub fn size_in_tokens_mut(&mut self) -> (r: &mut N) ensures *r == old(self).size_in_tokens, *final(self) == (Pos { size_in_tokens: *final(r), ..*old(self) }) { &mut self.size_in_tokens }
    pub fn collateral_amount_mut(&mut self) -> (r: &mut N) ensures *r == old(self).collateral_amount, *final(self) == (Pos { collateral_amount: *final(r), ..*old(self) }) { &mut self.collateral_amount }
    pub fn borrowing_factor_mut(&mut self) -> (r: &mut N) ensures *r == old(self).borrowing_factor, *final(self) == (Pos { borrowing_factor: *final(r), ..*old(self) }) { &mut self.borrowing_factor }
    pub fn funding_fee_amount_per_size_mut(&mut self) -> (r: &mut N) ensures *r == old(self).funding_fee_amount_per_size, *final(self) == (Pos { funding_fee_amount_per_size: *final(r), ..*old(self) }) { &mut self.funding_fee_amount_per_size }
    pub fn claimable_funding_fee_amount_per_size_mut(&mut self, is_long_collateral: bool) -> (r: &mut N)
        ensures is_long_collateral ==> *r == old(self).claimable_long && *final(self) == (Pos { claimable_long: *final(r), ..*old(self) }),
                !is_long_collateral ==> *r == old(self).claimable_short && *final(self) == (Pos { claimable_short: *final(r), ..*old(self) }),
    { if is_long_collateral { &mut self.claimable_long } else { &mut self.claimable_short } }
    /// ASSUMED: update_total_borrowing touches only the total-borrowing pool (C13); the hooks and validations change nothing tracked
    #[verifier::external_body]
    pub fn update_total_borrowing(&mut self, next_size_in_usd: &N, next_borrowing_factor: &N) -> (r: Result<(), E>)
        ensures final(self).mkt.t == old(self).mkt.t, *final(self) == (Pos { mkt: final(self).mkt, tb_log: final(self).tb_log, ..*old(self) }),
            r.is_ok() ==> final(self).tb_log@ == old(self).tb_log@.push(TbUpdate { prev_size: old(self).size_in_usd, prev_factor: old(self).borrowing_factor, next_size: *next_size_in_usd, next_factor: *next_borrowing_factor }),
            r.is_err() ==> final(self).tb_log@ == old(self).tb_log@,
    { unimplemented!() }
    #[verifier::external_body]
    pub fn on_increased(&mut self) -> (r: Result<(), E>) ensures *final(self) == *old(self) { unimplemented!() }

//@unit C07.PositionMutExt.update_open_interest
//@ file crates/model/src/position.rs
//@ within pub trait PositionMutExt<const DECIMALS: u8>: PositionMut<DECIMALS>
//@ fn update_open_interest
//@ sig fn update_open_interest( &mut self, size_delta_usd: &Self::Signed, size_delta_in_tokens: &Self::Signed, ) -> crate::Result<()>
    pub fn update_open_interest(&mut self, size_delta_usd: &S, size_delta_in_tokens: &S) -> (r: Result<(), E>)
        ensures
            // the open interest (usd and tokens) of the position's side and collateral token moves by exactly the two deltas;
            // a zero usd delta is skipped, which is exact only if the token delta is zero as well
            r.is_ok() && size_delta_usd@ != 0 ==> oi(final(self).mkt, old(self).long, old(self).collateral_long) == oi(old(self).mkt, old(self).long, old(self).collateral_long) + size_delta_usd@
                && oit(final(self).mkt, old(self).long, old(self).collateral_long) == oit(old(self).mkt, old(self).long, old(self).collateral_long) + size_delta_in_tokens@,
            r.is_ok() && size_delta_usd@ == 0 ==> final(self).mkt.t == old(self).mkt.t,
            // nothing else that is tracked moves
            r.is_ok() ==> oi(final(self).mkt, old(self).long, !old(self).collateral_long) == oi(old(self).mkt, old(self).long, !old(self).collateral_long)
                && oit(final(self).mkt, old(self).long, !old(self).collateral_long) == oit(old(self).mkt, old(self).long, !old(self).collateral_long)
                && oi(final(self).mkt, !old(self).long, true) == oi(old(self).mkt, !old(self).long, true) && oi(final(self).mkt, !old(self).long, false) == oi(old(self).mkt, !old(self).long, false)
                && oit(final(self).mkt, !old(self).long, true) == oit(old(self).mkt, !old(self).long, true) && oit(final(self).mkt, !old(self).long, false) == oit(old(self).mkt, !old(self).long, false)
                && final(self).mkt.t.col_long == old(self).mkt.t.col_long && final(self).mkt.t.col_short == old(self).mkt.t.col_short,
            *final(self) == (Pos { mkt: final(self).mkt, ..*old(self) }),
//@body
}

} // verus!
