// ---- gmsol_model::utils free functions (generic over T: instantiated at N) ----------------------
verus! {

/// `x^E` as the code evaluates it for whole-unit exponents (E = e / UNIT).
pub open spec fn aef(v: int, e: int) -> int {
    if v < uunit() { 0 } else if v == uunit() { uunit() } else if e == 0 { uunit() } else if e == uunit() { v }
    else { pow_fixed(v, (e / uunit()) as nat) }
}
/// whether `aef` is computable without overflow of an intermediate
pub open spec fn aef_defined(v: int, e: int) -> bool {
    v <= uunit() || e == 0 || e == uunit() || pow_fixed_fits(v, (e / uunit()) as nat)
}
/// `A * x^E` = floor(aef(x,E) * A / UNIT)
pub open spec fn apply_factors_spec(v: int, f: int, e: int) -> int { mul_div_floor(aef(v, e), f, uunit()) }

//@unit C01.W.usd_to_market_token_amount
//@ file crates/model/src/utils.rs
//@ fn usd_to_market_token_amount
//@ sig fn usd_to_market_token_amount<T>( usd_value: T, pool_value: T, supply: T, usd_to_amount_divisor: T, ) -> Option<T>
pub fn usd_to_market_token_amount(usd_value: N, pool_value: N, supply: N, usd_to_amount_divisor: N) -> (r: Option<N>)
    ensures
        usd_to_amount_divisor@ == 0 ==> r.is_none(),
        // first deposit: one USD buys one token unit (divided by the configured divisor), rounded down
        usd_to_amount_divisor@ != 0 && supply@ == 0 && pool_value@ == 0 ==> r == Some(N((usd_value@ / usd_to_amount_divisor@) as UW)),
        usd_to_amount_divisor@ != 0 && supply@ == 0 && pool_value@ != 0 ==>
            (r.is_some() <==> pool_value@ + usd_value@ <= umax())
            && (r.is_some() ==> r.unwrap()@ == (pool_value@ + usd_value@) / usd_to_amount_divisor@),
        usd_to_amount_divisor@ != 0 && supply@ != 0 && pool_value@ == 0 ==> r.is_none(),
        usd_to_amount_divisor@ != 0 && supply@ != 0 && pool_value@ != 0 ==> r == fit_u(mul_div_floor(supply@, usd_value@, pool_value@)),
//@body

//@unit C01.W.market_token_amount_to_usd
//@ file crates/model/src/utils.rs
//@ fn market_token_amount_to_usd
//@ sig fn market_token_amount_to_usd<T>(amount: &T, pool_value: &T, supply: &T) -> Option<T>
pub fn market_token_amount_to_usd(amount: &N, pool_value: &N, supply: &N) -> (r: Option<N>)
    ensures
        supply@ == 0 ==> r.is_none(),
        supply@ != 0 ==> r == fit_u(mul_div_floor(pool_value@, amount@, supply@)),
//@body

//@unit C01.W.apply_factor
//@ file crates/model/src/utils.rs
//@ fn apply_factor
//@ sig fn apply_factor<T, const DECIMALS: u8>(value: &T, factor: &T) -> Option<T>
pub fn apply_factor(value: &N, factor: &N) -> (r: Option<N>)
    ensures r == fit_u(mul_div_floor(value@, factor@, uunit())),
//@body

//@unit C01.W.div_to_factor
//@ file crates/model/src/utils.rs
//@ fn div_to_factor
//@ sig fn div_to_factor<T, const DECIMALS: u8>( value: &T, divisor: &T, round_up_magnitude: bool, ) -> Option<T>
pub fn div_to_factor(value: &N, divisor: &N, round_up_magnitude: bool) -> (r: Option<N>)
    ensures
        divisor@ == 0 ==> r == Some(N(0)),
        divisor@ != 0 && round_up_magnitude ==> r == fit_u(mul_div_ceil(value@, uunit(), divisor@)),
        divisor@ != 0 && !round_up_magnitude ==> r == fit_u(mul_div_floor(value@, uunit(), divisor@)),
//@body

//@unit C01.W.div_to_factor_signed
//@ file crates/model/src/utils.rs
//@ fn div_to_factor_signed
//@ sig fn div_to_factor_signed<T, const DECIMALS: u8>( value: &T::Signed, divisor: &T, ) -> Option<T::Signed>
pub fn div_to_factor_signed(value: &S, divisor: &N) -> (r: Option<S>)
    ensures
        divisor@ == 0 ==> r == Some(S(0)),
        divisor@ != 0 ==> (r.is_some() <==> mul_div_floor(uunit(), abs(value@), divisor@) <= imax()),
        divisor@ != 0 && r.is_some() ==> r.unwrap()@ == (if value@ < 0 { -mul_div_floor(uunit(), abs(value@), divisor@) } else { mul_div_floor(uunit(), abs(value@), divisor@) }),
//@body

//@unit C01.W.apply_exponent_factor_wrapped
//@ file crates/model/src/utils.rs
//@ fn apply_exponent_factor_wrapped
//@ sig fn apply_exponent_factor_wrapped<T, const DECIMALS: u8>( value: T, exponent_factor: T, ) -> Option<Fixed<T, DECIMALS>>
pub fn apply_exponent_factor_wrapped(value: N, exponent_factor: N) -> (r: Option<Fixed>)
    ensures
        exponent_factor@ % uunit() == 0 ==> (r.is_some() <==> aef_defined(value@, exponent_factor@)),
        exponent_factor@ % uunit() == 0 && r.is_some() ==> r.unwrap()@ == aef(value@, exponent_factor@),
        // a value below one unit is cut to zero and a unit value stays a unit whatever the exponent
        value@ < uunit() ==> r.is_some() && r.unwrap()@ == 0,
        value@ == uunit() ==> r.is_some() && r.unwrap()@ == uunit(),
//@body

//@unit C01.W.apply_exponent_factor
//@ file crates/model/src/utils.rs
//@ fn apply_exponent_factor
//@ sig fn apply_exponent_factor<T, const DECIMALS: u8>(value: T, exponent_factor: T) -> Option<T>
pub fn apply_exponent_factor(value: N, exponent_factor: N) -> (r: Option<N>)
    ensures
        exponent_factor@ % uunit() == 0 ==> (r.is_some() <==> aef_defined(value@, exponent_factor@)),
        exponent_factor@ % uunit() == 0 && r.is_some() ==> r.unwrap()@ == aef(value@, exponent_factor@),
//@body

//@unit C01.W.apply_factors
//@ file crates/model/src/utils.rs
//@ fn apply_factors
//@ sig fn apply_factors<T, const DECIMALS: u8>( value: T, factor: T, exponent_factor: T, ) -> crate::Result<T>
pub fn apply_factors(value: N, factor: N, exponent_factor: N) -> (r: Result<N, E>)
    ensures
        exponent_factor@ % uunit() == 0 ==> (r.is_ok() <==> aef_defined(value@, exponent_factor@) && apply_factors_spec(value@, factor@, exponent_factor@) <= umax()),
        exponent_factor@ % uunit() == 0 && r.is_ok() ==> r.unwrap()@ == apply_factors_spec(value@, factor@, exponent_factor@),
//@body

} // verus!
