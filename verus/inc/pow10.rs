// ---- integer powers (own recursive spec: vstd's pow is opaque to by(compute)) --------------------
verus! {
pub open spec fn ipow(b: int, e: nat) -> int decreases e { if e == 0 { 1 } else { b * ipow(b, (e - 1) as nat) } }
pub open spec fn p10(e: nat) -> int { ipow(10, e) }

// ASSUMED std contract (vstd has none): u128::pow is exact when the result fits (it panics on
// overflow in debug and wraps in release: the precondition rules both out).
pub assume_specification [u128::pow] (b: u128, e: u32) -> (r: u128)
    requires ipow(b as int, e as nat) <= u128::MAX
    ensures r == ipow(b as int, e as nat);

pub proof fn lemma_p10_pos(e: nat) ensures p10(e) >= 1 decreases e { if e > 0 { lemma_p10_pos((e - 1) as nat); } }
pub proof fn lemma_p10_add(a: nat, b: nat) ensures p10(a + b) == p10(a) * p10(b) decreases a
{
    if a == 0 { assert(p10(0) == 1); assert(1 * p10(b) == p10(b)); }
    else {
        lemma_p10_add((a - 1) as nat, b);
        assert(p10(a + b) == 10 * p10((a + b - 1) as nat));
        assert(p10(a) == 10 * p10((a - 1) as nat));
        assert(10 * (p10((a - 1) as nat) * p10(b)) == (10 * p10((a - 1) as nat)) * p10(b)) by(nonlinear_arith);
    }
}
pub proof fn lemma_p10_mono(a: nat, b: nat) requires a <= b ensures p10(a) <= p10(b) decreases b
{
    if a < b { lemma_p10_mono(a, (b - 1) as nat); lemma_p10_pos((b - 1) as nat); assert(p10(b) == 10 * p10((b - 1) as nat)); }
}
pub proof fn lemma_p10_values()
    ensures p10(0) == 1, p10(1) == 10, p10(9) == 1000000000, p10(10) == 10000000000, p10(20) == 100000000000000000000,
            p10(38) == 100000000000000000000000000000000000000, p10(38) <= u128::MAX
{
    assert(p10(0) == 1) by(compute);
    assert(p10(1) == 10) by(compute);
    assert(p10(9) == 1000000000) by(compute);
    assert(p10(10) == 10000000000) by(compute);
    assert(p10(20) == 100000000000000000000) by(compute);
    assert(p10(38) == 100000000000000000000000000000000000000) by(compute);
}
pub proof fn lemma_p10_fits(e: nat) requires e <= 38 ensures 1 <= p10(e) <= u128::MAX
{ lemma_p10_values(); lemma_p10_mono(e, 38); lemma_p10_pos(e); }
} // verus!
