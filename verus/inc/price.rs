// ---- gmsol_model::price::Price<T> (carrier R11 + extracted accessors) ---------------------------
verus! {
//@struct crates/model/src/price.rs :: pub struct Price<T> :: min, max
#[derive(Clone, Copy, Debug)]
pub struct Price { pub min: N, pub max: N }

impl Price {
//@unit price.pick_price
//@ file crates/model/src/price.rs
//@ within impl<T> Price<T> where T: Ord,
//@ fn pick_price
//@ sig fn pick_price(&self, maximize: bool) -> &T
    pub fn pick_price(&self, maximize: bool) -> (r: &N)
        ensures *r == (if maximize { self.max } else { self.min })
//@body

//@unit price.pick_price_for_pnl
//@ file crates/model/src/price.rs
//@ within impl<T> Price<T> where T: Ord,
//@ fn pick_price_for_pnl
//@ sig fn pick_price_for_pnl(&self, is_long: bool, maximize: bool) -> &T
    pub fn pick_price_for_pnl(&self, is_long: bool, maximize: bool) -> (r: &N)
        ensures *r == (if is_long != maximize { self.min } else { self.max })
//@body

//@unit price.has_zero
//@ file crates/model/src/price.rs
//@ within impl<T: num_traits::Zero> Price<T>
//@ fn has_zero
//@ sig fn has_zero(&self) -> bool
    pub fn has_zero(&self) -> (r: bool)
        ensures r == (self.min@ == 0 || self.max@ == 0)
//@body
}
} // verus!
